(* OptEmit.v — the emitter allocates one capture slot per capture group of the node: the program emitted for the
   optimized node has as many groups as the program emitted for the original one; with the compile-correctness
   theorems of the interpreters this carries the optimizer theorem to the programs the engines run. *)
From RV Require Import Base.
From RV.Model Require Import Utf8 Indexer CodePointSet Insn IR Optimizer Unfold Emit.
From RV.Spec Require Import IRSem IRShape.
From RV.Proofs Require Import NodeInd.

Lemma l1_leaf_groups b : l1_body_ok b = true -> forall utf16 unicode off lb es code es',
  emit_node utf16 unicode b off lb es = Ok (code, es') -> es_groups es' = es_groups es.
Proof.
  intros Hl utf16 unicode off lb es code es' E.
  destruct b; try discriminate Hl; cbn [emit_node] in E;
    repeat match type of E with
           | (do _ <- ?r; _) = Ok _ => destruct r eqn:?; cbn [bindR] in E; try discriminate
           | match ?r with _ => _ end = Ok _ => destruct r eqn:?; try discriminate
           end; inversion E; subst; reflexivity.
Qed.

Lemma emit_groups utf16 unicode : forall n, qok n = true -> forall off lb es code es',
  emit_node utf16 unicode n off lb es = Ok (code, es') -> es_groups es' = (es_groups es + ng n)%nat.
Proof.
  induction n as [n Hleaf|l H|a b IHa IHb|id c nm IHc|neg bw sg eg c IHc|b mn mx g egs ege IHb|b mn mx g IHb] using node_ind2;
    intros Hq off lb es code es' E.
  - destruct n; try contradiction; cbn [emit_node] in E;
      repeat match type of E with
             | (do _ <- ?r; _) = Ok _ => destruct r eqn:?; cbn [bindR] in E; try discriminate
             | match ?r with _ => _ end = Ok _ => destruct r eqn:?; try discriminate
             | (if ?c then _ else _) = Ok _ => destruct c eqn:?; try discriminate
             end; inversion E; subst; cbn [ng es_groups]; lia.
  - cbn [qok] in Hq. cbn [ng]. revert off es code es' E Hq. induction H as [|x l Hx Hl IH]; intros off es code es' E Hq; cbn [emit_node] in E.
    + inversion E; subst. cbn. lia.
    + cbn [forallb] in Hq. apply andb_true_iff in Hq as [Hqx Hql].
      destruct (emit_node utf16 unicode x off lb es) as [e|[cx ex]] eqn:Ex; cbn [bindR] in E; [discriminate|].
      match type of E with (do rt <- ?r; _) = _ => destruct r as [e|[ct et]] eqn:Et; cbn [bindR] in E; [discriminate|] end.
      cbn [fst snd] in *. inversion E; subst. cbn [map]. change (list_sum (ng x :: map ng l)) with (ng x + list_sum (map ng l))%nat.
      rewrite (IH _ _ _ _ Et Hql), (Hx Hqx _ _ _ _ _ Ex). lia.
  - cbn [qok] in Hq. apply andb_true_iff in Hq as [Hqa Hqb]. cbn [emit_node] in E.
    destruct (emit_node utf16 unicode a (S off) lb es) as [e|[ca ea]] eqn:Ea; cbn [bindR] in E; [discriminate|].
    cbn [fst snd] in E.
    destruct (emit_node utf16 unicode b (off + 2 + length ca) lb ea) as [e|[cb eb]] eqn:Eb; cbn [bindR] in E; [discriminate|].
    inversion E; subst. cbn [ng]. rewrite (IHb Hqb _ _ _ _ _ Eb), (IHa Hqa _ _ _ _ _ Ea). lia.
  - cbn [qok] in Hq. cbn [emit_node] in E.
    match type of E with (do rc <- ?r; _) = _ => destruct r as [e|[cc ec]] eqn:Ec; cbn [bindR] in E; [discriminate|] end.
    inversion E; subst. cbn [ng]. rewrite (IHc Hq _ _ _ _ _ Ec). cbn [es_groups]. lia.
  - cbn [qok] in Hq. apply andb_true_iff in Hq as [Hq _]. cbn [emit_node] in E.
    match type of E with (do rc <- ?r; _) = _ => destruct r as [e|[cc ec]] eqn:Ec; cbn [bindR] in E; [discriminate|] end.
    inversion E; subst. cbn [ng]. rewrite (IHc Hq _ _ _ _ _ Ec). reflexivity.
  - cbn [qok] in Hq. apply andb_true_iff in Hq as [Hq1 _]. apply andb_true_iff in Hq1 as [Hq1 _]. cbn [emit_node] in E.
    match type of E with (do rc <- ?r; _) = _ => destruct r as [e|[cc ec]] eqn:Ec; cbn [bindR] in E; [discriminate|] end.
    inversion E; subst. cbn [ng]. rewrite (IHb Hq1 _ _ _ _ _ Ec). cbn [es_groups]. lia.
  - cbn [qok] in Hq. apply andb_true_iff in Hq as [_ Hl]. cbn [emit_node] in E.
    match type of E with (do rc <- ?r; _) = _ => destruct r as [e|[cc ec]] eqn:Ec; cbn [bindR] in E; [discriminate|] end.
    inversion E; subst. cbn [ng]. rewrite (l1_leaf_groups b Hl _ _ _ _ _ _ _ Ec). lia.
Qed.

Theorem emit_program_groups utf16 unicode ml n prog names : qok n = true ->
  emit utf16 unicode ml n = Ok (prog, names) -> p_groups prog = ng n.
Proof.
  intros Hq E. unfold emit in E. destruct (predicate_for_re n ml) as [e|sp]; cbn [bindR] in E; [discriminate|].
  destruct (emit_node utf16 unicode n 0 false (mkES [] 0 0 [])) as [e|[code es]] eqn:En; cbn [bindR] in E; [discriminate|].
  inversion E; subst. cbn [p_groups]. rewrite (emit_groups utf16 unicode n Hq _ _ _ _ _ En). reflexivity.
Qed.
