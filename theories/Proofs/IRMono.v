(* IRMono.v — the IR semantics moves in the direction of the match: every result of a node run forwards is at
   or after the start position, every result of a node run backwards (inside a lookbehind) at or before it.
   With IRRange.v this gives start <= end <= length for the match the search reports. *)
From RV Require Import Base.
From RV.Model Require Import Utf8 Indexer CodePointSet Insn IR Optimizer Unfold Emit.
From RV.Spec Require Import IRSem.

Section Mono.
  Variable ix : indexer.
  Variable unicode utf16 : bool.
  Variable h : hay.
  (* the cursor moves in its direction on any haystack *)
  Hypothesis Hdir : forall (h' : hay) fwd p c p', cnext ix fwd h' p = Ok (Some (c, p')) -> if fwd then (p <= p')%nat else (p' <= p)%nat.

  Definition dir (fwd : bool) (p q : nat) : Prop := if fwd then (p <= q)%nat else (q <= p)%nat.
  Lemma dir_refl fwd p : dir fwd p p. Proof. unfold dir; destruct fwd; lia. Qed.
  Lemma dir_trans fwd a b c : dir fwd a b -> dir fwd b c -> dir fwd a c. Proof. unfold dir; destruct fwd; lia. Qed.

  Lemma next_if_mono fwd p test q : next_if ix fwd h p test = Ok (Some q) -> dir fwd p q.
  Proof.
    unfold next_if. destruct (cnext ix fwd h p) as [e|[[c p']|]] eqn:E; cbn [bindR]; try discriminate.
    destruct (test c); intro H; inversion H; subst. apply (Hdir h fwd p c q E).
  Qed.

  Lemma byte_if_mono fwd p test q : byte_if fwd h p test = Ok (Some q) -> dir fwd p q.
  Proof.
    unfold byte_if, next_byte. destruct fwd.
    - destruct (peek_byte_right h p) as [e|[b|]]; cbn [bindR]; try discriminate.
      destruct (test b); intro H; inversion H; subst. simpl. lia.
    - destruct (peek_byte_left h p) as [e|[b|]]; cbn [bindR]; try discriminate.
      destruct (test b); intro H; inversion H; subst. simpl. lia.
  Qed.

  Lemma match_bytes_mono fwd p bs q : match_bytes fwd h p bs = Ok (Some q) -> dir fwd p q.
  Proof.
    unfold match_bytes, try_move_right, try_move_left. destruct fwd.
    - destruct (p <=? length h)%nat; cbn [bindR]; [|discriminate].
      destruct (length h - p <? length bs)%nat; [discriminate|]. cbn [bindR].
      destruct (bytes_eqb bs (slice h p (p + length bs))); intro H; inversion H; subst. simpl. lia.
    - destruct (p <? length bs)%nat; cbn [bindR]; [discriminate|].
      destruct (bytes_eqb bs (slice h (p - length bs) p)); intro H; inversion H; subst. simpl. lia.
  Qed.

  Lemma subrange_eq_mono fwd p rs re q : subrange_eq fwd h p rs re = Ok (Some q) -> dir fwd p q.
  Proof.
    unfold subrange_eq, try_move_right, try_move_left. destruct (re <? rs)%nat; [discriminate|]. destruct (length h <? re)%nat; [discriminate|].
    destruct fwd.
    - destruct (p <=? length h)%nat; cbn [bindR]; [|discriminate].
      destruct (length h - p <? re - rs)%nat; [discriminate|]. cbn [bindR].
      destruct (bytes_eqb (slice h p (p + (re - rs))) (slice h rs re)); intro H; inversion H; subst. simpl. lia.
    - destruct (p <? re - rs)%nat; cbn [bindR]; [discriminate|].
      destruct (bytes_eqb (slice h (p - (re - rs)) p) (slice h rs re)); intro H; inversion H; subst. simpl. lia.
  Qed.

  Lemma backref_go_mono pr fwd sub : forall fuel rp p q,
    backref_icase_go ix pr fuel fwd sub rp h p = Ok (Some q) -> dir fwd p q.
  Proof.
    induction fuel as [|k IH]; intros rp p q H; [discriminate|]. cbn [backref_icase_go] in H.
    destruct (cnext ix fwd sub rp) as [e|[[c1 rp']|]]; cbn [bindR] in H; try discriminate.
    - destruct (cnext ix fwd h p) as [e|[[c2 p']|]] eqn:E2; cbn [bindR] in H; try discriminate.
      destruct (fold_equals ix (p_unicode pr) c1 c2); [|discriminate].
      eapply dir_trans; [apply (Hdir h fwd p c2 p' E2)|eapply IH; exact H].
    - inversion H; subst. apply dir_refl.
  Qed.

  Lemma backref_match_mono pr ic fwd p rs re q : backref_match ix pr ic fwd h p rs re = Ok (Some q) -> dir fwd p q.
  Proof.
    unfold backref_match. destruct ic; [|apply subrange_eq_mono].
    destruct (re <? rs)%nat; [discriminate|]. destruct (length h <? re)%nat; [discriminate|]. apply backref_go_mono.
  Qed.

  Lemma match1_mono pr i fwd p r q : match1 ix pr i fwd h p = Some r -> r = Ok (Some q) -> dir fwd p q.
  Proof.
    intros Hm Hr. subst r. destruct i; simpl in Hm; try discriminate; inversion Hm as [Hm']; clear Hm;
      try (eapply next_if_mono; eassumption); try (eapply byte_if_mono; eassumption);
      try (eapply match_bytes_mono; eassumption).
    destruct (nth_error (p_brackets pr) idx); [eapply next_if_mono; eauto|discriminate].
  Qed.

  Lemma run_insns_mono code fwd : forall p q, run_insns ix unicode h code fwd p = Some (Some q) -> dir fwd p q.
  Proof.
    induction code as [|i code IH]; intros p q H; simpl in H.
    - inversion H; subst. apply dir_refl.
    - destruct (match i with Char c => Some (char_pike ix c fwd h p) | JustFail => Some (Ok None)
                       | _ => match1 ix (dummy_prog unicode) i fwd h p end) as [[e|[p'|]]|] eqn:Er; try discriminate.
      eapply dir_trans; [|eapply IH; exact H].
      destruct i; try (eapply (match1_mono (dummy_prog unicode)); [exact Er|reflexivity]); try discriminate.
      inversion Er as [Er']. eapply next_if_mono; eauto.
  Qed.

  Definition okdir (fwd : bool) (p : nat) (l : list mst) : Prop := Forall (fun y => dir fwd p (fst y)) l.

  Lemma okdir_obindm {A} (rf : A -> option (list mst)) (P : A -> Prop) fwd p : forall xs ys,
    Forall P xs -> (forall x r, P x -> rf x = Some r -> okdir fwd p r) -> obindm rf xs = Some ys -> okdir fwd p ys.
  Proof.
    induction xs as [|x xs IH]; intros ys HP Hk Hb; simpl in Hb.
    - inversion Hb; subst. constructor.
    - destruct (rf x) as [r|] eqn:Er; [|discriminate]. destruct (obindm rf xs) as [r2|] eqn:E2; [|discriminate].
      inversion Hb; subst. inversion HP; subst. apply Forall_app. split; [eapply Hk; eauto | eapply IH; eauto].
  Qed.

  Lemma okdir_shift fwd p q l : dir fwd p q -> okdir fwd q l -> okdir fwd p l.
  Proof. intros Hd Hl. eapply Forall_impl; [|exact Hl]. intros y Hy. eapply dir_trans; eauto. Qed.

  Lemma okdir_results_of G p code fwd l :
    results_of (p, G) (run_insns ix unicode h code fwd p) = Some l -> okdir fwd p l.
  Proof.
    destruct (run_insns ix unicode h code fwd p) as [[q|]|] eqn:E; simpl; intro H; inversion H; subst.
    - constructor; [|constructor]. simpl. eapply run_insns_mono; eauto.
    - constructor.
  Qed.
  Lemma okdir_cond G p fwd r l : cond_results (p, G) r = Some l -> okdir fwd p l.
  Proof. destruct r as [e|[|]]; simpl; intro H; inversion H; subst; repeat constructor; apply dir_refl. Qed.

  Lemma okdir_l1 (stepf : nat -> option (option nat)) chk G mn mx gr fwd :
    (forall q q', stepf q = Some (Some q') -> dir fwd q q') ->
    forall lf k q l, l1_results stepf chk G mn mx gr lf k q = Some l -> okdir fwd q l.
  Proof.
    intro Hst. induction lf as [|lf IH]; intros k q l H; [discriminate|]. cbn [l1_results] in H.
    destruct (if k <? max_val mx then stepf q else Some None) as [[q'|]|] eqn:Et; [| |discriminate].
    - assert (Hq' : dir fwd q q') by (destruct (k <? max_val mx); [eapply Hst; eauto|discriminate]).
      destruct (chk q q'); [|discriminate]. destruct (l1_results stepf chk G mn mx gr lf (k + 1) q') as [it|] eqn:Ei; [|discriminate].
      apply IH in Ei. pose proof (okdir_shift fwd q q' it Hq' Ei) as Hit. inversion H; subst. destruct (mn <=? k); [|exact Hit].
      destruct gr; [apply Forall_app; split; auto|constructor; auto]; repeat constructor; apply dir_refl.
    - inversion H; subst. destruct (mn <=? k); repeat constructor. apply dir_refl.
  Qed.

  Definition node_mono (f : nat) : Prop := forall n fwd p G l,
    ir_results ix unicode utf16 h f n fwd (p, G) = Some l -> okdir fwd p l.

  Lemma cat_mono f (IHf : node_mono f) fwd p : forall l xs ys,
    okdir fwd p xs -> cat_results (fun c => ir_results ix unicode utf16 h f c fwd) l xs = Some ys -> okdir fwd p ys.
  Proof.
    induction l as [|c l IH]; intros xs ys Hx Hr; simpl in Hr.
    - inversion Hr; subst. exact Hx.
    - destruct (obindm (fun x => ir_results ix unicode utf16 h f c fwd x) xs) as [ys1|] eqn:Eb; [|discriminate].
      apply (IH ys1 ys); [|exact Hr].
      eapply (okdir_obindm _ (fun y => dir fwd p (fst y))); [exact Hx| |exact Eb].
      intros [q Gq] r Hq Hrr. simpl in Hq. eapply okdir_shift; [exact Hq|]. eapply IHf; eauto.
  Qed.

  Lemma loop_mono f (IHf : node_mono f) body fwd mn mx gr egs ege p0 :
    forall lf k entry q Gq l, dir fwd p0 q ->
      loop_results (ir_results ix unicode utf16 h f body fwd) mn mx gr egs ege lf k entry (q, Gq) = Some l -> okdir fwd p0 l.
  Proof.
    induction lf as [|lf IH]; intros k entry q Gq l Hq Hr; [discriminate|].
    cbn [loop_results] in Hr.
    destruct ((0 <? k) && (mn <? k) && (entry =? fst (q, Gq))%nat); [inversion Hr; constructor|].
    assert (Hy : okdir fwd p0 [(q, Gq)]) by (constructor; [exact Hq|constructor]).
    assert (Hit : forall it,
              match reset_groups (snd (q, Gq)) egs (ege - egs) with
              | None => None
              | Some g1 => match ir_results ix unicode utf16 h f body fwd (fst (q, Gq), g1) with
                           | None => None
                           | Some zs => obindm (loop_results (ir_results ix unicode utf16 h f body fwd) mn mx gr egs ege lf (k + 1) (fst (q, Gq))) zs
                           end
              end = Some it -> okdir fwd p0 it).
    { intros it Hi. simpl in Hi.
      destruct (reset_groups Gq egs (ege - egs)) as [g1|] eqn:Er; [|discriminate].
      destruct (ir_results ix unicode utf16 h f body fwd (q, g1)) as [zs|] eqn:Ez; [|discriminate].
      pose proof (okdir_shift fwd p0 q zs Hq (IHf body fwd q g1 zs Ez)) as Hz.
      eapply (okdir_obindm _ (fun y => dir fwd p0 (fst y))); [exact Hz| |exact Hi].
      intros [q' Gq'] r Hq' Hrr. simpl in Hq'. eapply (IH (k + 1) q q' Gq' r Hq' Hrr). }
    destruct (negb (k <? max_val mx) && negb (mn <=? k)); [inversion Hr; constructor|].
    destruct (negb (k <? max_val mx)); [inversion Hr; subst; exact Hy|].
    destruct (negb (mn <=? k)); [apply Hit; exact Hr|].
    match type of Hr with match ?itx with _ => _ end = _ => destruct itx as [it|] eqn:Eit; [|discriminate] end.
    specialize (Hit it eq_refl). inversion Hr; subst.
    destruct gr; [apply Forall_app; split; auto|constructor; auto; inversion Hy; auto].
  Qed.

  Lemma pieces_run_mono lb fwd : forall l q q', pieces_run ix unicode h lb l fwd q = Some (Some q') -> dir fwd q q'.
  Proof.
    induction l as [|c l IH]; intros q q' H; simpl in H.
    - inversion H; subst. apply dir_refl.
    - destruct (leaf_code lb c) as [code|]; [|discriminate].
      destruct (run_insns ix unicode h code fwd q) as [[q1|]|] eqn:E; try discriminate.
      eapply dir_trans; [eapply run_insns_mono; eauto|eapply IH; eauto].
  Qed.

  Theorem ir_mono : forall f, node_mono f.
  Proof.
    induction f as [|f IHf]; intros n fwd p G l Hr; [discriminate|].
    destruct n as [ | |c|bs|bs|cs|l0|a b| | |sol ml|inv ui|id c nm|g ic|b|alts icase|ng bw sg' eg' c|body mn mx gr egs ege|body mn mx gr];
      cbn [ir_results leaf_code] in Hr; try (eapply okdir_cond; eauto; fail); try discriminate.
    - inversion Hr; subst. constructor; [apply dir_refl|constructor].
    - inversion Hr; subst. constructor; [apply dir_refl|constructor].
    - eapply okdir_results_of; eauto.
    - eapply okdir_results_of; eauto.
    - destruct (emit_byte_set bs); [discriminate|eapply okdir_results_of; eauto].
    - destruct (emit_char_set cs); [discriminate|eapply okdir_results_of; eauto].
    - eapply (cat_mono f IHf fwd p l0 [(p, G)]); eauto. constructor; [apply dir_refl|constructor].
    - destruct (ir_results ix unicode utf16 h f a fwd (p, G)) as [u|] eqn:Eu; [|discriminate].
      destruct (ir_results ix unicode utf16 h f b fwd (p, G)) as [v|] eqn:Ev; [|discriminate].
      inversion Hr; subst. apply Forall_app. split; [eapply (IHf a); eauto | eapply (IHf b); eauto].
    - eapply okdir_results_of; eauto.
    - eapply okdir_results_of; eauto.
    - (* CaptureGroup *)
      destruct (upd_group id (set_group_start fwd p) G) as [G1|] eqn:E1; [|discriminate].
      destruct (ir_results ix unicode utf16 h f c fwd (p, G1)) as [lc|] eqn:Ec; [|discriminate].
      pose proof (IHf c fwd p G1 lc Ec) as Hlc.
      eapply (okdir_obindm _ (fun y => dir fwd p (fst y))); [exact Hlc| |exact Hr].
      intros [q Gq] r Hq Hrr. simpl in Hq, Hrr.
      destruct (upd_group id (set_group_end fwd q) Gq) as [G2|] eqn:E2; [|discriminate]. inversion Hrr; subst.
      constructor; [exact Hq|constructor].
    - (* BackRef *)
      destruct (g =? 0); [discriminate|]. destruct (nth_error G (N.to_nat (g - 1))) as [gd|]; [|discriminate].
      destruct (gd_range gd) as [[rs re]|]; [|inversion Hr; subst; constructor; [apply dir_refl|constructor]].
      destruct (backref_match ix (dummy_prog unicode) ic fwd h p rs re) as [e|[q|]] eqn:Eb; inversion Hr; subst; [|constructor].
      constructor; [|constructor]. simpl. eapply backref_match_mono; eauto.
    - (* Bracket *)
      destruct (bracket_as_ascii b); [eapply okdir_results_of; eauto|].
      destruct (next_if ix fwd h p (bracket_matches b)) as [e|[q|]] eqn:En; inversion Hr; subst; [|constructor].
      constructor; [|constructor]. simpl. eapply next_if_mono; eauto.
    - (* StringSet *)
      unfold strset_results in Hr.
      eapply (okdir_obindm _ (fun _ => True)); [| |exact Hr].
      + apply Forall_forall. auto.
      + intros a r _ Ha. cbv beta in Ha. destruct (if utf16 then None else lower_code_point_sequence a icase unicode); [|discriminate Ha].
        cbn [fst] in Ha.
        destruct (pieces_run ix unicode h (negb fwd) (map node_of_piece (if fwd then l0 else rev l0)) fwd p) as [[q|]|] eqn:Ep;
          simpl in Ha; inversion Ha; subst; [|constructor].
        constructor; [|constructor]. simpl. eapply pieces_run_mono; eauto.
    - (* Lookaround *)
      destruct (ir_results ix unicode utf16 h f c (negb bw) (p, G)) as [[|y rest]|] eqn:Ec; [| |discriminate];
        inversion Hr; subst; destruct ng; repeat constructor; apply dir_refl.
    - (* Loop *)
      eapply (loop_mono f IHf body fwd mn mx gr egs ege p f 0 p p G l (dir_refl fwd p)). exact Hr.
    - (* Loop1CharBody *)
      destruct (single_step ix unicode h (negb fwd) body fwd) as [stepf|] eqn:Es; [|discriminate].
      eapply (okdir_l1 stepf _ G mn mx gr fwd); [|exact Hr].
      intros q q' Hst. unfold single_step in Es.
      destruct (leaf_code (negb fwd) body) as [code|].
      + inversion Es; subst stepf. eapply run_insns_mono; eauto.
      + destruct body; try discriminate. inversion Es; subst stepf. cbv beta in Hst.
        destruct (next_if ix fwd h q (bracket_matches b)) as [e|r] eqn:En; [discriminate|]. inversion Hst; subst r.
        eapply next_if_mono; eauto.
  Qed.
End Mono.
