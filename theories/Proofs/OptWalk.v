(* OptWalk.v — the post-order walk of the optimizer and run_to_fixpoint preserve any relation between nodes that
   is a preorder, a congruence for the node constructors, and that every single rewrite of the pass function
   establishes between a node and its replacement. *)
From RV Require Import Base.
From RV.Model Require Import Utf8 Indexer CodePointSet Insn IR Optimizer Unfold Emit.
From RV.Proofs Require Import NodeInd.

Definition act_node (a : action) (n : node) : node :=
  match a with Keep => n | Modified m => m | Remove => NEmpty | Replace m => m end.

Section WalkSound.
  Variable func : bool -> node -> R action.
  Variable Rel : bool -> node -> node -> Prop.
  Hypothesis Rel_refl : forall lb n, Rel lb n n.
  Hypothesis Rel_trans : forall lb a b c, Rel lb a b -> Rel lb b c -> Rel lb a c.
  Hypothesis Rel_cat : forall lb l l', Forall2 (Rel lb) l l' -> Rel lb (NCat l) (NCat l').
  Hypothesis Rel_alt : forall lb a a' b b', Rel lb a a' -> Rel lb b b' -> Rel lb (NAlt a b) (NAlt a' b').
  Hypothesis Rel_cg : forall lb id nm c c', Rel lb c c' -> Rel lb (NCaptureGroup id c nm) (NCaptureGroup id c' nm).
  Hypothesis Rel_look : forall lb ng bw sg eg c c', Rel bw c c' ->
    Rel lb (NLookaround ng bw sg eg c) (NLookaround ng bw sg eg c').
  Hypothesis Rel_loop : forall lb b b' mn mx g egs ege, Rel lb b b' ->
    Rel lb (NLoop b mn mx g egs ege) (NLoop b' mn mx g egs ege).
  Hypothesis Rel_l1 : forall lb b b' mn mx g, Rel lb b b' ->
    Rel lb (NLoop1CharBody b mn mx g) (NLoop1CharBody b' mn mx g).
  Hypothesis Hloc : forall lb n a, func lb n = Ok a -> Rel lb n (act_node a n).

  Definition finish (lb : bool) (n' : node) (ch : bool) : R (node * bool) :=
    do a <- func lb n';
    Ok (match a with
        | Keep => (n', ch)
        | Modified m => (m, true)
        | Remove => (NEmpty, true)
        | Replace m => (m, true)
        end).

  Lemma finish_sound lb n m ch n' ch' : Rel lb n m -> finish lb m ch = Ok (n', ch') -> Rel lb n n'.
  Proof.
    intros Hnm E. unfold finish in E. destruct (func lb m) as [e|a] eqn:Ea; [discriminate|]. cbn [bindR] in E.
    pose proof (Hloc lb m a Ea) as Hl. eapply Rel_trans; [exact Hnm|].
    destruct a; inversion E; subst; exact Hl.
  Qed.

  Definition walk_ok (n : node) : Prop := forall lb n' ch, walk func lb n = Ok (n', ch) -> Rel lb n n'.

  Lemma walk_list lb : forall l, Forall walk_ok l -> forall l' ch,
    (fix go (l : list node) : R (list node * bool) :=
       match l with
       | [] => Ok ([], false)
       | x :: t => do rx <- walk func lb x; do rt <- go t; Ok (fst rx :: fst rt, snd rx || snd rt)
       end) l = Ok (l', ch) -> Forall2 (Rel lb) l l'.
  Proof.
    induction 1 as [|x l Hx Hl IH]; intros l' ch E.
    - inversion E; subst. constructor.
    - destruct (walk func lb x) as [e|[x' cx]] eqn:Ex; [discriminate|]. cbn [bindR] in E.
      match type of E with (do rt <- ?r; _) = _ => destruct r as [e|[t' ct]] eqn:Et; [discriminate|] end.
      cbn [bindR fst snd] in E. inversion E; subst. constructor; [eapply Hx; eauto|eapply IH; eauto].
  Qed.

  Theorem walk_sound : forall n, walk_ok n.
  Proof.
    induction n using node_ind2; intros lb n' ch E.
    - destruct n; try contradiction; cbn [walk] in E; (eapply finish_sound; [apply Rel_refl|exact E]).
    - cbn [walk] in E.
      match type of E with (do r <- ?r0; _) = _ => destruct r0 as [e|[l' cl]] eqn:El; [discriminate|] end.
      cbn [bindR fst snd] in E. eapply finish_sound; [|exact E]. apply Rel_cat. eapply walk_list; eauto.
    - cbn [walk] in E.
      destruct (walk func lb n1) as [e|[a' ca]] eqn:Ea; [discriminate|]. cbn [bindR] in E.
      destruct (walk func lb n2) as [e|[b' cb]] eqn:Eb; [discriminate|]. cbn [bindR fst snd] in E.
      eapply finish_sound; [|exact E]. apply Rel_alt; [eapply IHn1; eauto|eapply IHn2; eauto].
    - cbn [walk] in E.
      destruct (walk func lb n) as [e|[c' cc]] eqn:Ec; [discriminate|]. cbn [bindR fst snd] in E.
      eapply finish_sound; [|exact E]. apply Rel_cg. eapply IHn; eauto.
    - cbn [walk] in E.
      destruct (walk func bw n) as [e|[c' cc]] eqn:Ec; [discriminate|]. cbn [bindR fst snd] in E.
      eapply finish_sound; [|exact E]. apply Rel_look. eapply IHn; eauto.
    - cbn [walk] in E.
      destruct (walk func lb n) as [e|[c' cc]] eqn:Ec; [discriminate|]. cbn [bindR fst snd] in E.
      eapply finish_sound; [|exact E]. apply Rel_loop. eapply IHn; eauto.
    - cbn [walk] in E.
      destruct (walk func lb n) as [e|[c' cc]] eqn:Ec; [discriminate|]. cbn [bindR fst snd] in E.
      eapply finish_sound; [|exact E]. apply Rel_l1. eapply IHn; eauto.
  Qed.

  Theorem fixpoint_sound : forall fuel n n', run_to_fixpoint func fuel n = Ok n' -> Rel false n n'.
  Proof.
    induction fuel as [|k IH]; intros n n' E; [discriminate|]. cbn [run_to_fixpoint] in E.
    destruct (walk func false n) as [e|[m ch]] eqn:Ew; [discriminate|]. cbn [bindR fst snd] in E.
    pose proof (walk_sound n false m ch Ew) as Hm.
    destruct ch; [eapply Rel_trans; [exact Hm|apply IH; exact E]|inversion E; subst; exact Hm].
  Qed.
End WalkSound.
