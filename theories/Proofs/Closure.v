(* Closure.v — the compile-time case closure of a character class (src/unicode.rs add_icase_code_points_for:
   fold_interval_in over every interval, then unfold_interval_in over every interval of the result, both walking the
   FoldRange table with strides) denotes the canonical equivalence of C10, for every interval set:
       c is in the closure of s   <->   some member a of s has the canonical form of c.
   The table enters through four facts checked on the regenerated tables by computation: sorted and disjoint, every
   stride 1, 2 or 4, no delta below zero, and the lookup is idempotent. *)
From RV Require Import Base.
From RV.Gen Require Import FoldTables.
From RV.Model Require Import Utf8 CodePointSet Fold IR Optimizer Unfold.
From RV.Proofs Require Import CpsProofs FoldRefProofs.
From Coq Require Import ZifyN ZifyBool Sorted.
Ltac Zify.zify_post_hook ::= Z.div_mod_to_equations.

Lemma add_one_contains s v x : cps_contains (cps_add_one s v) x = cps_contains s x || (v =? x).
Proof.
  unfold cps_add_one. rewrite add_contains by lia. f_equal. unfold inb.
  destruct (N.eqb_spec v x) as [->|Hne]; [rewrite !N.leb_refl; reflexivity|].
  destruct (N.leb_spec v x), (N.leb_spec x v); try reflexivity; lia.
Qed.

(* a fold that adds some values: membership of the result *)
Section FoldAdd.
  Context {A : Type}.
  Variable adds : A -> option N.
  Variable st : cps -> A -> cps.
  Hypothesis Hst : forall a y, st a y = match adds y with Some v => cps_add_one a v | None => a end.

  Lemma fold_adds_contains : forall l acc x,
    cps_contains (fold_left st l acc) x =
    cps_contains acc x || existsb (fun y => match adds y with Some v => v =? x | None => false end) l.
  Proof.
    induction l as [|y l IH]; intros acc x; cbn [fold_left existsb]; [rewrite orb_false_r; reflexivity|].
    rewrite IH, Hst. destruct (adds y) as [v|]; [rewrite add_one_contains, orb_assoc; reflexivity|reflexivity].
  Qed.
  Lemma fold_adds_wf : forall l acc, cps_wf acc = true ->
    (forall y v, In y l -> adds y = Some v -> v <= CODE_POINT_MAX) -> cps_wf (fold_left st l acc) = true.
  Proof.
    induction l as [|y l IH]; intros acc Hw Hb; [exact Hw|]. cbn [fold_left]. apply IH.
    - rewrite Hst. destruct (adds y) as [v|] eqn:Ea; [|exact Hw].
      apply add_wf; [exact Hw|lia|lia|]. apply (Hb y v); [left; reflexivity|exact Ea].
    - intros y' v Hin. apply Hb. right. exact Hin.
  Qed.
End FoldAdd.

(* step_range start step last fuel = start, start+step, ... up to last *)
Lemma step_range_sound step : forall fuel start last x,
  In x (step_range start step last fuel) -> exists k, x = start + k * step /\ x <= last.
Proof.
  induction fuel as [|f IH]; intros start last x H; [contradiction|]. cbn [step_range] in H.
  destruct (N.leb_spec start last) as [Hle|Hgt]; [|contradiction].
  destruct H as [<-|H]; [exists 0; split; lia|].
  destruct (IH _ _ _ H) as (k & -> & Hk). exists (k + 1). split; lia.
Qed.
Lemma step_range_complete step : forall fuel start last k,
  start + k * step <= last -> (N.to_nat k < fuel)%nat -> In (start + k * step) (step_range start step last fuel).
Proof.
  induction fuel as [|f IH]; intros start last k Hle Hk; [lia|]. cbn [step_range].
  destruct (N.leb_spec start last) as [Hsl|Hgt]; [|lia].
  destruct (N.eq_dec k 0) as [->|Hk0]; [left; lia|]. right.
  assert (Ek : k = (k - 1) + 1) by lia. rewrite Ek at 1. rewrite N.mul_add_distr_r, N.mul_1_l.
  replace (start + ((k - 1) * step + step)) with ((start + step) + (k - 1) * step) by lia. apply IH; [|lia].
  rewrite Ek in Hle. rewrite N.mul_add_distr_r, N.mul_1_l in Hle. lia.
Qed.

Lemma ranges_sorted_lo : forall t lo r, ranges_sorted lo t = true -> In r t ->
  lo <= fr_first r /\ fr_first r <= fr_last r /\ fr_last r <= 1114111.
Proof.
  induction t as [|r0 t IH]; intros lo r Hs Hin; [contradiction|]. cbn [ranges_sorted] in Hs.
  apply andb_true_iff in Hs as [Hs Ht]. apply andb_true_iff in Hs as [Hs H3]. apply andb_true_iff in Hs as [H1 H2].
  apply N.leb_le in H1, H2, H3. destruct Hin as [<-|Hin]; [lia|]. destruct (IH _ _ Ht Hin) as (A1 & A2 & A3). lia.
Qed.

Lemma lookup_in_range_gen : forall t lo r cu, ranges_sorted lo t = true -> In r t -> fr_first r <= cu -> cu <= fr_last r ->
  table_lookup t cu = fr_apply r cu.
Proof.
  unfold table_lookup. induction t as [|r0 t IH]; intros lo r cu Hs Hin H1 H2; [contradiction|].
  cbn [find]. cbn [ranges_sorted] in Hs.
  apply andb_true_iff in Hs as [Hs Ht]. apply andb_true_iff in Hs as [Hs S3]. apply andb_true_iff in Hs as [S1 S2].
  apply N.leb_le in S1, S2, S3.
  destruct Hin as [<-|Hin].
  - assert (E : (fr_first r0 <=? cu) && (cu <=? fr_last r0) = true) by (apply andb_true_iff; split; apply N.leb_le; assumption).
    rewrite E. reflexivity.
  - destruct (ranges_sorted_lo _ _ _ Ht Hin) as (A1 & _ & _).
    assert (E : (fr_first r0 <=? cu) && (cu <=? fr_last r0) = false).
    { apply andb_false_iff. right. apply N.leb_gt. lia. }
    rewrite E. eapply IH; eauto.
Qed.

Section Closure.
  Variable T : list (N * N * Z * N).
  Hypothesis Hsorted : ranges_sorted 0 T = true.
  Hypothesis Hmask : forallb (fun r => (fr_mask r =? 0) || (fr_mask r =? 1) || (fr_mask r =? 3)) T = true.
  Hypothesis Hnonneg : forallb (fun r => (0 <=? Z.of_N (fr_first r) + fr_delta r)%Z) T = true.
  Notation F := (table_lookup T).
  Hypothesis Hidem : forall c, F (F c) = F c.

  (* the range that contains a code point is the one the lookup finds *)
  Lemma lookup_in_range r cu : In r T -> fr_first r <= cu -> cu <= fr_last r -> F cu = fr_apply r cu.
  Proof. apply lookup_in_range_gen with (lo := 0). exact Hsorted. Qed.
  Lemma lookup_moved cu : F cu <> cu -> exists r, In r T /\ fr_first r <= cu /\ cu <= fr_last r /\ F cu = fr_apply r cu.
  Proof.
    intros Hm. unfold table_lookup in *.
    destruct (find (fun r => (fr_first r <=? cu) && (cu <=? fr_last r)) T) as [r|] eqn:Ef; [|contradiction].
    apply find_some in Ef as [Hin Hc]. apply andb_true_iff in Hc as [H1 H2]. apply N.leb_le in H1, H2. exists r. auto.
  Qed.

  Lemma mask_cases r : In r T -> fr_mask r = 0 \/ fr_mask r = 1 \/ fr_mask r = 3.
  Proof.
    intros Hin. rewrite forallb_forall in Hmask. specialize (Hmask r Hin).
    apply orb_true_iff in Hmask as [Hm|Hm]; [apply orb_true_iff in Hm as [Hm|Hm]|]; apply N.eqb_eq in Hm; auto.
  Qed.
  Lemma delta_nonneg r : In r T -> (0 <= Z.of_N (fr_first r) + fr_delta r)%Z.
  Proof. intros Hin. rewrite forallb_forall in Hnonneg. specialize (Hnonneg r Hin). apply Z.leb_le in Hnonneg. exact Hnonneg. Qed.

  (* land with 0, 1, 3 is the remainder by 1, 2, 4 *)
  Lemma land_mask x m : m = 0 \/ m = 1 \/ m = 3 -> N.land x m = x mod (m + 1).
  Proof.
    intros [H|[H|H]]; subst m.
    - rewrite N.land_0_r. cbn. rewrite N.mod_1_r. reflexivity.
    - change 1 with (N.ones 1) at 1. rewrite N.land_ones. reflexivity.
    - change 3 with (N.ones 2) at 1. rewrite N.land_ones. reflexivity.
  Qed.

  Definition shift (r : N * N * Z * N) (cu : N) : N := Z.to_N (Z.of_N cu + fr_delta r).
  Lemma apply_aligned r cu : In r T -> fr_first r <= cu ->
    fr_apply r cu = if (cu - fr_first r) mod (fr_mask r + 1) =? 0 then shift r cu else cu.
  Proof. intros Hin Hle. unfold fr_apply, shift. rewrite (land_mask _ _ (mask_cases r Hin)). reflexivity. Qed.

  (* ---- fold_interval_in: one range ---- *)
  Definition fi_step (i : iv) (acc : cps) (fr : N * N * Z * N) : cps :=
    if (fr_last fr <? fst i) || (snd i <? fr_first fr) then acc else
    let first_trans := N.max (fr_first fr) (fst i) in
    let last_trans := N.min (fr_last fr) (snd i) in
    let modulo := fr_mask fr + 1 in
    let add_delta cu := Z.to_N (Z.of_N cu + fr_delta fr) in
    if modulo =? 1 then
      fold_left (fun a cu => let cs := add_delta cu in if cs =? cu then a else cps_add_one a cs)
                (step_range first_trans 1 last_trans (S (N.to_nat (last_trans - first_trans)))) acc
    else
      let offset_start := first_trans - fr_first fr in
      let start_aligned := first_trans + ((modulo - (offset_start mod modulo)) mod modulo) in
      fold_left (fun a cu => cps_add_one a (add_delta cu))
                (step_range start_aligned modulo last_trans (S (N.to_nat (last_trans - first_trans)))) acc.

  Lemma fold_interval_in_eq i recv : fold_interval_in T i recv = fold_left (fi_step i) T recv.
  Proof. reflexivity. Qed.

  Lemma fi_step_mono i acc fr x : cps_contains acc x = true -> cps_contains (fi_step i acc fr) x = true.
  Proof.
    intros H. unfold fi_step. destruct (_ || _); [exact H|]. cbv zeta. destruct (_ =? 1).
    - rewrite (fold_adds_contains (fun cu => if shift fr cu =? cu then None else Some (shift fr cu))).
      + rewrite H. reflexivity.
      + intros a y. unfold shift. destruct (_ =? y); reflexivity.
    - rewrite (fold_adds_contains (fun cu => Some (shift fr cu))); [rewrite H; reflexivity|reflexivity].
  Qed.

  (* everything added is the image of a member of the interval under this range *)
  Lemma fi_step_sound i acc fr x : In fr T -> cps_contains (fi_step i acc fr) x = true ->
    cps_contains acc x = true \/ exists cu, fst i <= cu /\ cu <= snd i /\ fr_first fr <= cu /\ cu <= fr_last fr /\ x = fr_apply fr cu.
  Proof.
    intros Hin H. unfold fi_step in H.
    destruct ((fr_last fr <? fst i) || (snd i <? fr_first fr)) eqn:Eo; [left; exact H|].
    apply orb_false_iff in Eo as [E1 E2]. apply N.ltb_ge in E1, E2. cbv zeta in H.
    destruct (fr_mask fr + 1 =? 1) eqn:Em.
    - rewrite (fold_adds_contains (fun cu => if shift fr cu =? cu then None else Some (shift fr cu))) in H
        by (intros a y; unfold shift; destruct (_ =? y); reflexivity).
      apply orb_true_iff in H as [H|H]; [left; exact H|right]. apply existsb_exists in H as (cu & Hcu & Hx).
      apply step_range_sound in Hcu as (k & -> & Hk). destruct (shift fr _ =? _) eqn:Es; [discriminate|]. apply N.eqb_eq in Hx.
      apply N.eqb_eq in Em. exists (N.max (fr_first fr) (fst i) + k * 1). repeat split; try lia.
      rewrite apply_aligned by (auto; lia). rewrite Em, N.mod_1_r. cbn. symmetry. exact Hx.
    - rewrite (fold_adds_contains (fun cu => Some (shift fr cu))) in H by reflexivity.
      apply orb_true_iff in H as [H|H]; [left; exact H|right]. apply existsb_exists in H as (cu & Hcu & Hx). apply N.eqb_eq in Hx.
      apply step_range_sound in Hcu as (k & -> & Hk).
      destruct (mask_cases fr Hin) as [Hm|[Hm|Hm]]; rewrite Hm in *; [discriminate Em| |].
      + change (1 + 1) with 2 in *.
        match goal with |- exists cu, _ /\ _ /\ _ /\ _ /\ x = fr_apply fr cu => idtac end.
        set (ft := N.max (fr_first fr) (fst i)) in *.
        exists (ft + (2 - (ft - fr_first fr) mod 2) mod 2 + k * 2). subst ft.
        repeat split; try lia. rewrite apply_aligned by (auto; lia). rewrite Hm. change (1 + 1) with 2.
        match goal with |- _ = (if ?c =? 0 then _ else _) => assert (Ec : c = 0) by lia end. rewrite Ec. cbn. symmetry. exact Hx.
      + change (3 + 1) with 4 in *.
        set (ft := N.max (fr_first fr) (fst i)) in *.
        exists (ft + (4 - (ft - fr_first fr) mod 4) mod 4 + k * 4). subst ft.
        repeat split; try lia. rewrite apply_aligned by (auto; lia). rewrite Hm. change (3 + 1) with 4.
        match goal with |- _ = (if ?c =? 0 then _ else _) => assert (Ec : c = 0) by lia end. rewrite Ec. cbn. symmetry. exact Hx.
  Qed.

  (* every member of the interval that this range moves has its image added *)
  Lemma fi_step_complete i acc fr cu : In fr T -> fst i <= cu -> cu <= snd i -> fr_first fr <= cu -> cu <= fr_last fr ->
    fr_apply fr cu <> cu -> cps_contains (fi_step i acc fr) (fr_apply fr cu) = true.
  Proof.
    intros Hin I1 I2 R1 R2 Hmv. unfold fi_step.
    assert (Eo : (fr_last fr <? fst i) || (snd i <? fr_first fr) = false).
    { apply orb_false_iff. split; apply N.ltb_ge; lia. }
    rewrite Eo. cbv zeta. rewrite apply_aligned in * by (auto; lia).
    destruct ((cu - fr_first fr) mod (fr_mask fr + 1) =? 0) eqn:Ea; [|contradiction]. apply N.eqb_eq in Ea.
    destruct (fr_mask fr + 1 =? 1) eqn:Em.
    - rewrite (fold_adds_contains (fun cu => if shift fr cu =? cu then None else Some (shift fr cu)))
        by (intros a y; unfold shift; destruct (_ =? y); reflexivity).
      apply orb_true_iff. right. apply existsb_exists. exists cu. split.
      + replace cu with (N.max (fr_first fr) (fst i) + (cu - N.max (fr_first fr) (fst i)) * 1) at 1 by lia.
        apply step_range_complete; lia.
      + destruct (shift fr cu =? cu) eqn:Es; [apply N.eqb_eq in Es; contradiction|apply N.eqb_refl].
    - rewrite (fold_adds_contains (fun cu => Some (shift fr cu))) by reflexivity.
      apply orb_true_iff. right. apply existsb_exists. exists cu. split; [|apply N.eqb_refl].
      destruct (mask_cases fr Hin) as [Hm|[Hm|Hm]]; rewrite Hm in *; [discriminate Em| |].
      + change (1 + 1) with 2 in *. set (ft := N.max (fr_first fr) (fst i)).
        set (sa := ft + (2 - (ft - fr_first fr) mod 2) mod 2).
        replace cu with (sa + ((cu - sa) / 2) * 2) at 1 by (subst sa ft; lia).
        apply step_range_complete; subst sa ft; lia.
      + change (3 + 1) with 4 in *. set (ft := N.max (fr_first fr) (fst i)).
        set (sa := ft + (4 - (ft - fr_first fr) mod 4) mod 4).
        replace cu with (sa + ((cu - sa) / 4) * 4) at 1 by (subst sa ft; lia).
        apply step_range_complete; subst sa ft; lia.
  Qed.

  (* ---- fold_interval_in over the whole table ---- *)
  Lemma fold_interval_mono i : forall t recv x, cps_contains recv x = true -> cps_contains (fold_left (fi_step i) t recv) x = true.
  Proof. induction t as [|fr t IH]; intros recv x H; [exact H|]. cbn [fold_left]. apply IH. apply fi_step_mono. exact H. Qed.

  Lemma fold_interval_sound i : forall t recv x, incl t T -> cps_contains (fold_left (fi_step i) t recv) x = true ->
    cps_contains recv x = true \/ exists cu, fst i <= cu /\ cu <= snd i /\ x = F cu.
  Proof.
    induction t as [|fr t IH]; intros recv x Hi H; [left; exact H|]. cbn [fold_left] in H.
    assert (Hfr : In fr T) by (apply Hi; left; reflexivity).
    destruct (IH _ _ (fun y Hy => Hi y (or_intror Hy)) H) as [H1|H1]; [|right; exact H1].
    destruct (fi_step_sound _ _ _ _ Hfr H1) as [H2|(cu & I1 & I2 & R1 & R2 & ->)]; [left; exact H2|right].
    exists cu. repeat split; try assumption. symmetry. apply lookup_in_range; assumption.
  Qed.

  Lemma fold_interval_complete i cu : forall t recv, incl t T -> fst i <= cu -> cu <= snd i -> F cu <> cu ->
    (forall r, In r T -> fr_first r <= cu -> cu <= fr_last r -> In r t) ->
    cps_contains (fold_left (fi_step i) t recv) (F cu) = true.
  Proof.
    intros t recv Hi I1 I2 Hmv Hall. destruct (lookup_moved cu Hmv) as (r & Hr & R1 & R2 & E).
    specialize (Hall r Hr R1 R2). clear Hi. revert recv. induction t as [|fr t IH]; intros recv; [contradiction|].
    cbn [fold_left]. destruct Hall as [<-|Hin].
    - apply fold_interval_mono. rewrite E. apply fi_step_complete; try assumption. rewrite <- E. exact Hmv.
    - apply IH. exact Hin.
  Qed.

  (* ---- unfold_interval_in: one range ---- *)
  Definition ui_step (i : iv) (acc : cps) (tr : N * N * Z * N) : cps :=
    if negb (iv_overlaps i (fr_to_first tr, fr_to_last tr)) then acc else
    let modulo := fr_mask tr + 1 in
    fold_left (fun a cp => let tcp := fr_apply tr cp in
                           if negb (tcp =? cp) && iv_contains i tcp then cps_add_one a cp else a)
              (step_range (fr_first tr) modulo (fr_last tr) (fr_len tr)) acc.

  Definition ui_adds (i : iv) (tr : N * N * Z * N) (cp : N) : option N :=
    if negb (fr_apply tr cp =? cp) && iv_contains i (fr_apply tr cp) then Some cp else None.
  Lemma ui_fold i tr l acc x :
    cps_contains (fold_left (fun a cp => let tcp := fr_apply tr cp in
                           if negb (tcp =? cp) && iv_contains i tcp then cps_add_one a cp else a) l acc) x =
    cps_contains acc x || existsb (fun y => match ui_adds i tr y with Some v => v =? x | None => false end) l.
  Proof. apply fold_adds_contains. intros a y. unfold ui_adds. cbv zeta. destruct (_ && _); reflexivity. Qed.

  Lemma ui_step_mono i acc tr x : cps_contains acc x = true -> cps_contains (ui_step i acc tr) x = true.
  Proof. intros H. unfold ui_step. destruct (negb _); [exact H|]. cbv zeta. rewrite ui_fold, H. reflexivity. Qed.

  Lemma ui_step_sound i acc tr x : In tr T -> cps_contains (ui_step i acc tr) x = true ->
    cps_contains acc x = true \/ (F x <> x /\ iv_contains i (F x) = true).
  Proof.
    intros Hin H. unfold ui_step in H. destruct (negb _); [left; exact H|]. cbv zeta in H. rewrite ui_fold in H.
    apply orb_true_iff in H as [H|H]; [left; exact H|right]. apply existsb_exists in H as (cp & Hcp & Hx).
    unfold ui_adds in Hx. destruct (negb (fr_apply tr cp =? cp) && iv_contains i (fr_apply tr cp)) eqn:Ec; [|discriminate].
    apply N.eqb_eq in Hx. subst x. apply andb_true_iff in Ec as [E1 E2]. apply negb_true_iff, N.eqb_neq in E1.
    apply step_range_sound in Hcp as (k & Hk & Hl).
    assert (HF : F cp = fr_apply tr cp) by (apply lookup_in_range; [exact Hin|lia|lia]).
    rewrite HF. split; assumption.
  Qed.

  Lemma shift_range tr cp : In tr T -> fr_first tr <= cp -> cp <= fr_last tr ->
    fr_to_first tr <= shift tr cp /\ shift tr cp <= fr_to_last tr.
  Proof.
    intros Hin H1 H2. pose proof (delta_nonneg tr Hin). unfold fr_to_first, fr_to_last, shift. lia.
  Qed.

  Lemma ui_step_complete i acc tr x : In tr T -> fr_first tr <= x -> x <= fr_last tr -> fr_apply tr x <> x ->
    iv_contains i (fr_apply tr x) = true -> cps_contains (ui_step i acc tr) x = true.
  Proof.
    intros Hin R1 R2 Hmv Hc. unfold ui_step.
    assert (Hal : (x - fr_first tr) mod (fr_mask tr + 1) = 0 /\ fr_apply tr x = shift tr x).
    { rewrite apply_aligned in * by (auto; lia). destruct (_ mod _ =? 0) eqn:Ea; [apply N.eqb_eq in Ea; auto|contradiction]. }
    destruct Hal as [Hal Hsh].
    assert (Eo : iv_overlaps i (fr_to_first tr, fr_to_last tr) = true).
    { destruct (shift_range tr x Hin R1 R2) as [S1 S2]. rewrite Hsh in Hc. unfold iv_contains in Hc.
      apply andb_true_iff in Hc as [C1 C2]. apply N.leb_le in C1, C2. unfold iv_overlaps. cbn [fst snd].
      apply andb_true_iff. split; apply negb_true_iff, N.ltb_ge; lia. }
    rewrite Eo. cbn [negb]. cbv zeta. rewrite ui_fold. apply orb_true_iff. right. apply existsb_exists. exists x. split.
    - pose proof (ranges_sorted_lo _ _ _ Hsorted Hin) as (_ & L2 & _).
      destruct (mask_cases tr Hin) as [Hm|[Hm|Hm]]; rewrite Hm in *.
      + change (0 + 1) with 1 in *. replace x with (fr_first tr + (x - fr_first tr) * 1) at 1 by lia.
        apply step_range_complete; [lia|]. unfold fr_len. lia.
      + change (1 + 1) with 2 in *. replace x with (fr_first tr + ((x - fr_first tr) / 2) * 2) at 1 by lia.
        apply step_range_complete; [lia|]. unfold fr_len. lia.
      + change (3 + 1) with 4 in *. replace x with (fr_first tr + ((x - fr_first tr) / 4) * 4) at 1 by lia.
        apply step_range_complete; [lia|]. unfold fr_len. lia.
    - unfold ui_adds. apply N.eqb_neq in Hmv. rewrite Hmv, Hc. cbn. apply N.eqb_refl.
  Qed.

  Lemma unfold_interval_in_eq i recv : unfold_interval_in T i recv = fold_left (ui_step i) T recv.
  Proof. reflexivity. Qed.

  Lemma unfold_interval_mono i : forall t recv x, cps_contains recv x = true -> cps_contains (fold_left (ui_step i) t recv) x = true.
  Proof. induction t as [|tr t IH]; intros recv x H; [exact H|]. cbn [fold_left]. apply IH. apply ui_step_mono. exact H. Qed.
  Lemma unfold_interval_sound i : forall t recv x, incl t T -> cps_contains (fold_left (ui_step i) t recv) x = true ->
    cps_contains recv x = true \/ (F x <> x /\ iv_contains i (F x) = true).
  Proof.
    induction t as [|tr t IH]; intros recv x Hi H; [left; exact H|]. cbn [fold_left] in H.
    destruct (IH _ _ (fun y Hy => Hi y (or_intror Hy)) H) as [H1|H1]; [|right; exact H1].
    apply (ui_step_sound _ _ _ _ (Hi tr (or_introl eq_refl)) H1).
  Qed.
  Lemma unfold_interval_complete i x recv : F x <> x -> iv_contains i (F x) = true ->
    cps_contains (fold_left (ui_step i) T recv) x = true.
  Proof.
    intros Hmv Hc. destruct (lookup_moved x Hmv) as (r & Hr & R1 & R2 & E).
    assert (G : forall t, incl t T -> In r t -> forall recv, cps_contains (fold_left (ui_step i) t recv) x = true).
    { induction t as [|tr t IH]; intros Hi Hin recv0; [contradiction|]. cbn [fold_left]. destruct Hin as [<-|Hin].
      - apply unfold_interval_mono. apply ui_step_complete; try assumption; rewrite <- E; assumption.
      - apply IH; [intros y Hy; apply Hi; right; exact Hy|exact Hin]. }
    apply G; [apply incl_refl|exact Hr].
  Qed.

  (* ---- over all the intervals of a set ---- *)
  Definition mem (s : cps) (c : N) : Prop := cps_contains s c = true.
  Lemma mem_iv s c : mem s c <-> exists i, In i s /\ fst i <= c /\ c <= snd i.
  Proof.
    unfold mem, cps_contains. rewrite existsb_exists. split; intros (i & Hi & H); exists i; (split; [exact Hi|]).
    - unfold iv_contains in H. apply andb_true_iff in H as [H1 H2]. apply N.leb_le in H1, H2. auto.
    - unfold iv_contains. apply andb_true_iff. split; apply N.leb_le; tauto.
  Qed.

  Lemma folded_mono : forall l acc x, mem acc x -> mem (fold_left (fun a i => fold_interval_in T i a) l acc) x.
  Proof.
    induction l as [|i l IH]; intros acc x H; [exact H|]. cbn [fold_left]. apply IH. rewrite fold_interval_in_eq.
    apply fold_interval_mono. exact H.
  Qed.
  Lemma folded_sound : forall l acc x, mem (fold_left (fun a i => fold_interval_in T i a) l acc) x ->
    mem acc x \/ exists i cu, In i l /\ fst i <= cu /\ cu <= snd i /\ x = F cu.
  Proof.
    induction l as [|i l IH]; intros acc x H; [left; exact H|]. cbn [fold_left] in H.
    destruct (IH _ _ H) as [H1|(j & cu & Hj & A)]; [|right; exists j, cu; split; [right; exact Hj|exact A]].
    rewrite fold_interval_in_eq in H1. destruct (fold_interval_sound i T acc x (incl_refl _) H1) as [H2|(cu & I1 & I2 & E)].
    - left. exact H2.
    - right. exists i, cu. split; [left; reflexivity|auto].
  Qed.
  Lemma folded_complete : forall l acc i cu, In i l -> fst i <= cu -> cu <= snd i -> F cu <> cu ->
    mem (fold_left (fun a i => fold_interval_in T i a) l acc) (F cu).
  Proof.
    induction l as [|j l IH]; intros acc i cu Hin I1 I2 Hmv; [contradiction|]. cbn [fold_left]. destruct Hin as [<-|Hin].
    - apply folded_mono. rewrite fold_interval_in_eq. apply fold_interval_complete; auto using incl_refl.
    - eapply IH; eauto.
  Qed.

  Lemma unfolded_mono : forall l acc x, mem acc x -> mem (fold_left (fun a i => unfold_interval_in T i a) l acc) x.
  Proof.
    induction l as [|i l IH]; intros acc x H; [exact H|]. cbn [fold_left]. apply IH. rewrite unfold_interval_in_eq.
    apply unfold_interval_mono. exact H.
  Qed.
  Lemma unfolded_sound : forall l acc x, mem (fold_left (fun a i => unfold_interval_in T i a) l acc) x ->
    mem acc x \/ (F x <> x /\ exists i, In i l /\ iv_contains i (F x) = true).
  Proof.
    induction l as [|i l IH]; intros acc x H; [left; exact H|]. cbn [fold_left] in H.
    destruct (IH _ _ H) as [H1|(Hm & j & Hj & A)]; [|right; split; [exact Hm|exists j; split; [right; exact Hj|exact A]]].
    rewrite unfold_interval_in_eq in H1. destruct (unfold_interval_sound i T acc x (incl_refl _) H1) as [H2|(Hm & Hc)].
    - left. exact H2.
    - right. split; [exact Hm|]. exists i. split; [left; reflexivity|exact Hc].
  Qed.
  Lemma unfolded_complete : forall l acc i x, In i l -> F x <> x -> iv_contains i (F x) = true ->
    mem (fold_left (fun a i => unfold_interval_in T i a) l acc) x.
  Proof.
    induction l as [|j l IH]; intros acc i x Hin Hmv Hc; [contradiction|]. cbn [fold_left]. destruct Hin as [<-|Hin].
    - apply unfolded_mono. rewrite unfold_interval_in_eq. apply unfold_interval_complete; assumption.
    - eapply IH; eauto.
  Qed.

  (* ---- the invariant of the set is kept ---- *)
  Hypothesis Hto : forallb (fun r => fr_to_last r <=? CODE_POINT_MAX) T = true.

  Lemma fi_step_wf i acc fr : In fr T -> cps_wf acc = true -> cps_wf (fi_step i acc fr) = true.
  Proof.
    intros Hin Hw. unfold fi_step. destruct (_ || _) eqn:Eo; [exact Hw|]. cbv zeta.
    apply orb_false_iff in Eo as [E1 E2]. apply N.ltb_ge in E1, E2.
    assert (Hb : forall cu, N.max (fr_first fr) (fst i) <= cu -> cu <= N.min (fr_last fr) (snd i) -> shift fr cu <= CODE_POINT_MAX).
    { intros cu C1 C2. destruct (shift_range fr cu Hin ltac:(lia) ltac:(lia)) as [_ S2].
      rewrite forallb_forall in Hto. specialize (Hto fr Hin). apply N.leb_le in Hto. lia. }
    destruct (_ =? 1).
    - apply (fold_adds_wf (fun cu => if shift fr cu =? cu then None else Some (shift fr cu))).
      + intros a y. unfold shift. destruct (_ =? y); reflexivity.
      + exact Hw.
      + intros y v Hy Ha. destruct (shift fr y =? y); [discriminate|]. inversion Ha; subst.
        apply step_range_sound in Hy as (k & -> & Hk). apply Hb; lia.
    - apply (fold_adds_wf (fun cu => Some (shift fr cu))); [reflexivity|exact Hw|].
      intros y v Hy Ha. inversion Ha; subst. apply step_range_sound in Hy as (k & -> & Hk). apply Hb; [|lia].
      destruct (mask_cases fr Hin) as [Hm|[Hm|Hm]]; rewrite Hm; lia.
  Qed.
  Lemma fold_interval_wf i : forall t recv, incl t T -> cps_wf recv = true -> cps_wf (fold_left (fi_step i) t recv) = true.
  Proof.
    induction t as [|fr t IH]; intros recv Hi Hw; [exact Hw|]. cbn [fold_left]. apply IH; [intros y Hy; apply Hi; right; exact Hy|].
    apply fi_step_wf; [apply Hi; left; reflexivity|exact Hw].
  Qed.
  Lemma ui_step_wf i acc tr : In tr T -> cps_wf acc = true -> cps_wf (ui_step i acc tr) = true.
  Proof.
    intros Hin Hw. unfold ui_step. destruct (negb _); [exact Hw|]. cbv zeta.
    apply (fold_adds_wf (ui_adds i tr)).
    - intros a y. unfold ui_adds. cbv zeta. destruct (_ && _); reflexivity.
    - exact Hw.
    - intros y v Hy Ha. unfold ui_adds in Ha. destruct (_ && _); [|discriminate]. inversion Ha; subst.
      apply step_range_sound in Hy as (k & Hk & Hl). destruct (ranges_sorted_lo _ _ _ Hsorted Hin) as (_ & _ & L3).
      unfold CODE_POINT_MAX. lia.
  Qed.
  Lemma unfold_interval_wf i : forall t recv, incl t T -> cps_wf recv = true -> cps_wf (fold_left (ui_step i) t recv) = true.
  Proof.
    induction t as [|tr t IH]; intros recv Hi Hw; [exact Hw|]. cbn [fold_left]. apply IH; [intros y Hy; apply Hi; right; exact Hy|].
    apply ui_step_wf; [apply Hi; left; reflexivity|exact Hw].
  Qed.

  (* ---- the closure ---- *)
  Definition closure (input : cps) : cps :=
    let folded := fold_left (fun acc i => fold_interval_in T i acc) input input in
    fold_left (fun acc i => unfold_interval_in T i acc) folded folded.

  Theorem closure_spec input c : mem (closure input) c <-> exists a, mem input a /\ F a = F c.
  Proof.
    unfold closure. set (folded := fold_left (fun acc i => fold_interval_in T i acc) input input).
    assert (Fs : forall x, mem folded x -> exists a, mem input a /\ F a = F x).
    { intros x Hx. destruct (folded_sound _ _ _ Hx) as [H|(i & cu & Hi & I1 & I2 & ->)].
      - exists x. auto.
      - exists cu. split; [apply mem_iv; exists i; auto|rewrite Hidem; reflexivity]. }
    assert (Fc : forall a, mem input a -> mem folded (F a)).
    { intros a Ha. destruct (N.eq_dec (F a) a) as [E|Hmv].
      - rewrite E. apply folded_mono. exact Ha.
      - apply mem_iv in Ha as (i & Hi & I1 & I2). eapply folded_complete; eauto. }
    split.
    - intros H. destruct (unfolded_sound _ _ _ H) as [H1|(Hmv & i & Hi & Hc)].
      + apply Fs. exact H1.
      + assert (Hfc : mem folded (F c)).
        { apply mem_iv. exists i. split; [exact Hi|]. unfold iv_contains in Hc. apply andb_true_iff in Hc as [C1 C2].
          apply N.leb_le in C1, C2. auto. }
        destruct (Fs _ Hfc) as (a & Ha & E). exists a. split; [exact Ha|]. rewrite E. apply Hidem.
    - intros (a & Ha & E). pose proof (Fc a Ha) as Hfa. rewrite E in Hfa.
      destruct (N.eq_dec (F c) c) as [Ec|Hmv].
      + apply unfolded_mono. rewrite <- Ec. exact Hfa.
      + apply mem_iv in Hfa as (i & Hi & I1 & I2). eapply unfolded_complete; [exact Hi|exact Hmv|].
        unfold iv_contains. apply andb_true_iff. split; apply N.leb_le; assumption.
  Qed.
  Theorem closure_wf input : cps_wf input = true -> cps_wf (closure input) = true.
  Proof.
    intros Hw. unfold closure.
    assert (G1 : forall l acc, cps_wf acc = true -> cps_wf (fold_left (fun a i => fold_interval_in T i a) l acc) = true).
    { induction l as [|i l IH]; intros acc Ha; [exact Ha|]. cbn [fold_left]. apply IH. rewrite fold_interval_in_eq.
      apply fold_interval_wf; [apply incl_refl|exact Ha]. }
    assert (G2 : forall l acc, cps_wf acc = true -> cps_wf (fold_left (fun a i => unfold_interval_in T i a) l acc) = true).
    { induction l as [|i l IH]; intros acc Ha; [exact Ha|]. cbn [fold_left]. apply IH. rewrite unfold_interval_in_eq.
      apply unfold_interval_wf; [apply incl_refl|exact Ha]. }
    apply G2. apply G1. exact Hw.
  Qed.
End Closure.

(* ---- the two tables ---- *)
Lemma n_range_in : forall n f x, In x (n_range f n) <-> f <= x /\ x < f + N.of_nat n.
Proof.
  induction n as [|n IH]; intros f x; cbn [n_range].
  - split; [contradiction|lia].
  - cbn [In]. rewrite IH. lia.
Qed.

Lemma moved_in_points t c : ranges_sorted 0 t = true -> table_lookup t c <> c -> In c (moved_points t).
Proof.
  intros Hs Hm. unfold table_lookup in Hm.
  destruct (find (fun r => (fr_first r <=? c) && (c <=? fr_last r)) t) as [r|] eqn:Ef; [|contradiction].
  apply find_some in Ef as [Hin Hc]. apply andb_true_iff in Hc as [H1 H2]. apply N.leb_le in H1, H2.
  unfold moved_points. apply in_flat_map. exists r. split; [exact Hin|]. apply filter_In. split.
  - apply n_range_in. destruct (ranges_sorted_lo _ _ _ Hs Hin) as (_ & L & _). unfold fr_len. lia.
  - apply negb_true_iff, N.eqb_neq. exact Hm.
Qed.

Lemma idem_lift t : ranges_sorted 0 t = true ->
  forallb (fun c => table_lookup t (table_lookup t c) =? table_lookup t c) (moved_points t) = true ->
  forall c, table_lookup t (table_lookup t c) = table_lookup t c.
Proof.
  intros Hs Hf c. destruct (N.eq_dec (table_lookup t c) c) as [E|Hm]; [rewrite !E; reflexivity|].
  rewrite forallb_forall in Hf. apply N.eqb_eq. apply Hf. apply moved_in_points; assumption.
Qed.

Lemma folds_masks : forallb (fun r => (fr_mask r =? 0) || (fr_mask r =? 1) || (fr_mask r =? 3)) FOLDS = true.
Proof. vm_compute. reflexivity. Qed.
Lemma upper_masks : forallb (fun r => (fr_mask r =? 0) || (fr_mask r =? 1) || (fr_mask r =? 3)) TO_UPPERCASE = true.
Proof. vm_compute. reflexivity. Qed.
Lemma folds_nonneg : forallb (fun r => (0 <=? Z.of_N (fr_first r) + fr_delta r)%Z) FOLDS = true.
Proof. vm_compute. reflexivity. Qed.
Lemma upper_nonneg : forallb (fun r => (0 <=? Z.of_N (fr_first r) + fr_delta r)%Z) TO_UPPERCASE = true.
Proof. vm_compute. reflexivity. Qed.
Lemma folds_idem_moved : forallb (fun c => fold (fold c) =? fold c) (moved_points FOLDS) = true.
Proof. vm_compute. reflexivity. Qed.
Lemma upper_idem_moved : forallb (fun c => uppercase (uppercase c) =? uppercase c) (moved_points TO_UPPERCASE) = true.
Proof. vm_compute. reflexivity. Qed.

Theorem fold_idempotent : forall c, fold (fold c) = fold c.
Proof. exact (idem_lift FOLDS folds_sorted folds_idem_moved). Qed.
Theorem uppercase_idempotent : forall c, uppercase (uppercase c) = uppercase c.
Proof. exact (idem_lift TO_UPPERCASE to_uppercase_sorted upper_idem_moved). Qed.

Lemma folds_to_last : forallb (fun r => fr_to_last r <=? CODE_POINT_MAX) FOLDS = true.
Proof. vm_compute. reflexivity. Qed.
Lemma upper_to_last : forallb (fun r => fr_to_last r <=? CODE_POINT_MAX) TO_UPPERCASE = true.
Proof. vm_compute. reflexivity. Qed.

Theorem class_closure_wf : forall (unicode : bool) (s : cps), cps_wf s = true -> cps_wf (add_icase_code_points_for s unicode) = true.
Proof.
  intros [|] s.
  - exact (closure_wf FOLDS folds_sorted folds_masks folds_nonneg fold_idempotent folds_to_last s).
  - exact (closure_wf TO_UPPERCASE to_uppercase_sorted upper_masks upper_nonneg uppercase_idempotent upper_to_last s).
Qed.

Theorem class_closure_is_canonical_equivalence : forall (unicode : bool) (s : cps) (c : N),
  cps_contains (add_icase_code_points_for s unicode) c = true <->
  exists a, cps_contains s a = true /\ fold_code_point a unicode = fold_code_point c unicode.
Proof.
  intros [|] s c; unfold fold_code_point.
  - exact (closure_spec FOLDS folds_sorted folds_masks folds_nonneg fold_idempotent s c).
  - exact (closure_spec TO_UPPERCASE to_uppercase_sorted upper_masks upper_nonneg uppercase_idempotent s c).
Qed.

(* ---- the expansion of a single code point (unfold_char / unfold_uppercase_char, used for literals and for the
   reference side of class matching) enumerates exactly the code points with the same canonical form, for every
   code point ---- *)
Lemma insert_sorted_in' x y l : In x (insert_sorted y l) <-> x = y \/ In x l.
Proof.
  induction l as [|z t IH]; cbn [insert_sorted].
  - cbn [In]. intuition.
  - destruct (y <? z) eqn:E1; [cbn [In]; intuition|]. destruct (y =? z) eqn:E2.
    + apply N.eqb_eq in E2. subst z. cbn [In]. intuition.
    + cbn [In]. rewrite IH. intuition.
Qed.
Lemma sort_dedup_in x l : In x (sort_dedup l) <-> In x l.
Proof.
  unfold sort_dedup. assert (G : forall acc, In x (fold_left (fun acc y => insert_sorted y acc) l acc) <-> In x l \/ In x acc).
  { induction l as [|y t IH]; intros acc; cbn [fold_left]; [cbn [In]; tauto|]. rewrite IH, insert_sorted_in'. cbn [In]. intuition. }
  rewrite G. cbn [In]. tauto.
Qed.

Section UnfoldSpec.
  Variable T : list (N * N * Z * N).
  Hypothesis Hsorted : ranges_sorted 0 T = true.
  Hypothesis Hnonneg : forallb (fun r => (0 <=? Z.of_N (fr_first r) + fr_delta r)%Z) T = true.
  Hypothesis Hidem : forall c, table_lookup T (table_lookup T c) = table_lookup T c.
  Notation F := (table_lookup T).

  Lemma apply_moved_is_shift r x : fr_apply r x <> x -> fr_apply r x = Z.to_N (Z.of_N x + fr_delta r).
  Proof. unfold fr_apply. destruct (_ =? 0); [reflexivity|contradiction]. Qed.

  Theorem unfold_with_spec c a : In a (unfold_with T c) <-> F a = F c.
  Proof.
    unfold unfold_with. rewrite sort_dedup_in, in_app_iff. split.
    - intros [Hb|He].
      + destruct (F c =? c) eqn:Efc.
        * cbn [In] in Hb. destruct Hb as [<-|[]]. reflexivity.
        * cbn [In] in Hb. destruct Hb as [<-|[<-|[]]]; [reflexivity|apply Hidem].
      + apply in_flat_map in He as (tr & Htr & Hin).
        destruct ((fr_to_first tr <=? F c) && (F c <=? fr_to_last tr)); [|contradiction].
        apply filter_In in Hin as [Hr Ha]. apply N.eqb_eq in Ha. apply n_range_in in Hr.
        destruct (ranges_sorted_lo _ _ _ Hsorted Htr) as (_ & L2 & _).
        rewrite (lookup_in_range_gen T 0 tr a Hsorted Htr); [exact Ha|lia|unfold fr_len in Hr; lia].
    - intros E. destruct (N.eq_dec (F a) a) as [Efa|Hmv].
      + (* a is canonical: it is c's canonical form *)
        left. rewrite Efa in E. subst a. destruct (F c =? c) eqn:Efc; [apply N.eqb_eq in Efc; rewrite Efc; left; reflexivity|right; left; reflexivity].
      + right. unfold table_lookup in Hmv, E.
        destruct (find (fun r => (fr_first r <=? a) && (a <=? fr_last r)) T) as [tr|] eqn:Ef; [|contradiction].
        apply find_some in Ef as [Htr Hc]. apply andb_true_iff in Hc as [H1 H2]. apply N.leb_le in H1, H2.
        apply in_flat_map. exists tr. split; [exact Htr|].
        assert (Hsh : fr_apply tr a = Z.to_N (Z.of_N a + fr_delta tr)) by (apply apply_moved_is_shift; exact Hmv).
        assert (Hnn : (0 <= Z.of_N (fr_first tr) + fr_delta tr)%Z).
        { rewrite forallb_forall in Hnonneg. specialize (Hnonneg tr Htr). apply Z.leb_le in Hnonneg. exact Hnonneg. }
        assert (Hrange : (fr_to_first tr <=? table_lookup T c) && (table_lookup T c <=? fr_to_last tr) = true).
        { unfold table_lookup at 1 2. rewrite <- E, Hsh. unfold fr_to_first, fr_to_last. apply andb_true_iff. split; apply N.leb_le; lia. }
        rewrite Hrange. apply filter_In. split.
        * apply n_range_in. destruct (ranges_sorted_lo _ _ _ Hsorted Htr) as (_ & L2 & _). unfold fr_len. lia.
        * apply N.eqb_eq. unfold table_lookup. rewrite <- E. reflexivity.
  Qed.
End UnfoldSpec.

Theorem unfold_char_spec : forall c a, In a (unfold_char c) <-> fold a = fold c.
Proof. exact (unfold_with_spec FOLDS folds_sorted folds_nonneg fold_idempotent). Qed.
Theorem unfold_uppercase_char_spec : forall c a, In a (unfold_uppercase_char c) <-> uppercase a = uppercase c.
Proof. exact (unfold_with_spec TO_UPPERCASE to_uppercase_sorted upper_nonneg uppercase_idempotent). Qed.

(* ---- the expansion of a code point has between one and four members, for every code point: Parser::char_node and
   the literal lowering never meet the "exceeded maximum expansion" panic ---- *)
Lemma insert_sorted_sorted : forall l x lo, (forall y, In y l -> lo <= y) -> lo <= x ->
  Sorted.StronglySorted N.lt l -> Sorted.StronglySorted N.lt (insert_sorted x l).
Proof.
  induction l as [|z t IH]; intros x lo Hlo Hx Hs; cbn [insert_sorted]; [repeat constructor|].
  inversion Hs as [|? ? Ht Hz]; subst. destruct (N.ltb_spec x z) as [Hlt|Hge].
  - constructor; [exact Hs|]. constructor; [exact Hlt|]. rewrite Forall_forall in *. intros y Hy. specialize (Hz y Hy). lia.
  - destruct (N.eqb_spec x z) as [->|Hne]; [exact Hs|]. constructor.
    + apply (IH x z); [intros y Hy; rewrite Forall_forall in Hz; specialize (Hz y Hy); lia|lia|exact Ht].
    + rewrite Forall_forall in *. intros y Hy. apply insert_sorted_in' in Hy as [->|Hy]; [lia|apply Hz; exact Hy].
Qed.
Lemma sort_dedup_sorted l : Sorted.StronglySorted N.lt (sort_dedup l).
Proof.
  unfold sort_dedup. assert (G : forall acc, Sorted.StronglySorted N.lt acc -> Sorted.StronglySorted N.lt (fold_left (fun acc y => insert_sorted y acc) l acc)).
  { induction l as [|y t IH]; intros acc Ha; [exact Ha|]. cbn [fold_left]. apply IH. apply (insert_sorted_sorted acc y 0); [intros; lia|lia|exact Ha]. }
  apply G. constructor.
Qed.
Lemma sorted_all_equal l c : Sorted.StronglySorted N.lt l -> (forall a, In a l -> a = c) -> (length l <= 1)%nat.
Proof.
  intros Hs Ha. destruct l as [|x [|y t]]; cbn [length]; try lia. exfalso.
  inversion Hs as [|? ? _ Hx]; subst. rewrite Forall_forall in Hx. specialize (Hx y (or_introl eq_refl)).
  rewrite (Ha x (or_introl eq_refl)), (Ha y (or_intror (or_introl eq_refl))) in Hx. lia.
Qed.

Section UnfoldLen.
  Variable T : list (N * N * Z * N).
  Hypothesis Hsorted : ranges_sorted 0 T = true.
  Hypothesis Hnonneg : forallb (fun r => (0 <=? Z.of_N (fr_first r) + fr_delta r)%Z) T = true.
  Hypothesis Hidem : forall c, table_lookup T (table_lookup T c) = table_lookup T c.
  (* on the code points the table moves and on their images the expansion has at most four members *)
  Hypothesis Hsup : forallb (fun c => (length (unfold_with T c) <=? 4)%nat)
                            (moved_points T ++ map (table_lookup T) (moved_points T)) = true.
  Notation F := (table_lookup T).

  Theorem unfold_with_length c : (1 <= length (unfold_with T c) <= 4)%nat.
  Proof.
    assert (Hin : In c (unfold_with T c)) by (apply (unfold_with_spec T Hsorted Hnonneg Hidem); reflexivity).
    split; [destruct (unfold_with T c); [contradiction|cbn [length]; lia]|].
    destruct (in_dec N.eq_dec c (moved_points T ++ map F (moved_points T))) as [Hs|Hns].
    - rewrite forallb_forall in Hsup. specialize (Hsup c Hs). apply Nat.leb_le in Hsup. exact Hsup.
    - (* neither moved nor an image: the class is {c} *)
      assert (Hall : forall a, In a (unfold_with T c) -> a = c).
      { intros a Ha. apply (unfold_with_spec T Hsorted Hnonneg Hidem) in Ha.
        assert (Hc : F c = c).
        { destruct (N.eq_dec (F c) c) as [E|Hm]; [exact E|]. exfalso. apply Hns. apply in_or_app. left. apply moved_in_points; assumption. }
        rewrite Hc in Ha. destruct (N.eq_dec (F a) a) as [E|Hm]; [congruence|].
        exfalso. apply Hns. apply in_or_app. right. apply in_map_iff. exists a. split; [exact Ha|apply moved_in_points; assumption]. }
      assert (Hs : Sorted.StronglySorted N.lt (unfold_with T c)) by (unfold unfold_with; apply sort_dedup_sorted).
      pose proof (sorted_all_equal _ c Hs Hall). lia.
  Qed.
End UnfoldLen.

Lemma folds_expansion_small : forallb (fun c => (length (unfold_char c) <=? 4)%nat) (moved_points FOLDS ++ map fold (moved_points FOLDS)) = true.
Proof. vm_compute. reflexivity. Qed.
Lemma upper_expansion_small : forallb (fun c => (length (unfold_uppercase_char c) <=? 4)%nat) (moved_points TO_UPPERCASE ++ map uppercase (moved_points TO_UPPERCASE)) = true.
Proof. vm_compute. reflexivity. Qed.

Theorem expand_code_point_length : forall c icase unicode, (1 <= length (expand_code_point c icase unicode) <= 4)%nat.
Proof.
  intros c icase unicode. unfold expand_code_point. destruct icase; cbn [negb]; [|cbn [length]; lia]. destruct unicode.
  - exact (unfold_with_length FOLDS folds_sorted folds_nonneg fold_idempotent folds_expansion_small c).
  - exact (unfold_with_length TO_UPPERCASE to_uppercase_sorted upper_nonneg uppercase_idempotent upper_expansion_small c).
Qed.
