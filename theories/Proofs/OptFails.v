(* OptFails.v — the propagate_early_fails pass keeps the meaning of every node: a node that match_always_fails
   recognises has no results, so a concatenation containing one, an alternation of two, and a loop that must run
   one at least once have none either. *)
From RV Require Import Base.
From RV.Model Require Import Utf8 Indexer CodePointSet Insn IR Optimizer Unfold Emit.
From RV.Spec Require Import IRSem IRShape.
From RV.Proofs Require Import NodeInd OptDD OptMono OptWalk OptRel.

Lemma ccg_ng : forall n, contains_capture_groups n = false -> ng n = 0%nat.
Proof.
  induction n as [n Hleaf|l H|a b IHa IHb|id c nm IHc|neg bw sg eg c IHc|b mn mx g egs ege IHb|b mn mx g IHb] using node_ind2; intro Hc.
  - destruct n; try contradiction; reflexivity.
  - cbn [ng]. cbn [contains_capture_groups] in Hc. induction H as [|x l Hx Hl IH]; [reflexivity|].
    apply orb_false_iff in Hc as [Hcx Hcl]. cbn [map]. rewrite list_sum_cons, (Hx Hcx), (IH Hcl). reflexivity.
  - cbn [contains_capture_groups] in Hc. apply orb_false_iff in Hc as [Ha Hb]. cbn [ng].
    rewrite (IHa Ha), (IHb Hb). reflexivity.
  - discriminate Hc.
  - cbn [contains_capture_groups] in Hc. cbn [ng]. auto.
  - cbn [contains_capture_groups] in Hc. cbn [ng]. auto.
  - reflexivity.
Qed.

Lemma nth_zeros k n : nth k (repeat 0 n) 0 = 0.
Proof. revert k. induction n as [|n IH]; intros [|k]; try reflexivity. apply IH. Qed.

Lemma empty_bitmap v : ascii_bitmap_contains (ascii_bitmap_of []) v = false.
Proof.
  unfold ascii_bitmap_contains. destruct (128 <=? v); [reflexivity|].
  change (ascii_bitmap_of []) with (repeat 0 16). rewrite nth_zeros. apply N.bits_0.
Qed.

Lemma obindm_all_nil {A} (g : A -> option (list mst)) : (forall x r, g x = Some r -> r = []) ->
  forall xs ys, obindm g xs = Some ys -> ys = [].
Proof.
  intros Hg. induction xs as [|x xs IH]; intros ys E; cbn [obindm] in E; [inversion E; reflexivity|].
  destruct (g x) as [a|] eqn:Ea; [|discriminate]. destruct (obindm g xs) as [b|] eqn:Eb; [|discriminate].
  inversion E; subst. rewrite (Hg x a Ea), (IH b eq_refl). reflexivity.
Qed.

Section Fails.
  Variable ix : indexer.
  Variables unicode utf16 : bool.
  Variable h : hay.
  Variable okp : nat -> Prop.
  Notation IR := (ir_results ix unicode utf16 h).
  Notation ref := (ref ix unicode utf16 h okp).
  Notation al := (al ix unicode utf16 h okp).
  Notation PRel := (PRel ix unicode utf16 h okp).
  (* the elements the indexer hands out are code points (true of the ASCII indexer, and of the UTF-8 indexer on
     well-formed text); used for one case only: the inverted bracket that contains every code point *)
  Hypothesis Hcp : forall fwd p c p', okp p -> cnext ix fwd h p = Ok (Some (c, p')) -> c <= CODE_POINT_MAX.

  Lemma fails_res n : match_always_fails n = true -> forall f fwd x r, okp (fst x) -> IR f n fwd x = Some r -> r = [].
  Proof.
    intros Hf [|f] fwd [p G] r Hx E; [discriminate|]. cbn [fst] in Hx.
    destruct n; try discriminate Hf; cbn [match_always_fails] in Hf.
    - destruct bs; [|discriminate]. cbn in E. inversion E; reflexivity.
    - destruct cs; [|discriminate]. cbn in E. inversion E; reflexivity.
    - destruct b as [inv ivs]. unfold bracket_is_empty in Hf. cbn [br_invert br_ivs] in Hf.
      cbn [ir_results] in E. unfold bracket_as_ascii in E. cbn [br_invert br_ivs] in E. destruct inv.
      + (* inverted, contains everything *)
        destruct ivs as [|[lo hi] [|? ?]]; try discriminate Hf. cbn [cps_contains_all] in Hf.
        apply andb_true_iff in Hf as [H0 H1]. apply N.eqb_eq in H0, H1. subst lo hi.
        unfold next_if in E. destruct (cnext ix fwd h p) as [e|[[c p']|]] eqn:Ec; cbn [bindR] in E; try discriminate.
        * pose proof (Hcp _ _ _ _ Hx Ec) as Hc. unfold bracket_matches in E. cbn [br_invert br_ivs ivs_contains existsb fst snd] in E.
          replace ((0 <=? c) && (c <=? CODE_POINT_MAX) || false) with true in E
            by (symmetry; rewrite orb_false_r; apply andb_true_iff; split; [apply N.leb_le; lia|apply N.leb_le; exact Hc]).
          cbn [negb] in E. inversion E; reflexivity.
        * inversion E; reflexivity.
      + (* not inverted, empty *)
        destruct ivs; [|discriminate]. cbn [forallb] in E.
        cbn [run_insns match1] in E. unfold byte_if in E.
        destruct (next_byte fwd h p) as [e|[[b p']|]]; cbn [bindR] in E; try discriminate.
        * rewrite empty_bitmap in E. cbn in E. inversion E; reflexivity.
        * cbn in E. inversion E; reflexivity.
  Qed.

  Lemma ir_fail_eq f fwd x : IR (S f) make_always_fails fwd x = Some [].
  Proof. destruct x; reflexivity. Qed.

  (* a node all of whose results are empty is refined by the always-failing node *)
  Lemma ref_to_fail fwd n : l1_body_ok n = false ->
    (forall f x r, oks okp x -> IR f n fwd x = Some r -> r = []) -> ref fwd n make_always_fails.
  Proof.
    intros Hns Hall. split; [|apply rstep_nol1; exact Hns].
    apply (rres_fleS ix unicode utf16 h okp fwd _ _ 0%nat). intros [|f] x r Hx E; [discriminate|].
    rewrite Nat.add_0_r. rewrite (Hall _ _ _ Hx E). apply ir_fail_eq.
  Qed.

  Lemma obindm_all_nilP {A} (P : A -> Prop) (g : A -> option (list mst)) : (forall x r, P x -> g x = Some r -> r = []) ->
    forall xs ys, Forall P xs -> obindm g xs = Some ys -> ys = [].
  Proof.
    intros Hg. induction xs as [|x xs IH]; intros ys HP E; cbn [obindm] in E; [inversion E; reflexivity|].
    destruct (g x) as [a|] eqn:Ea; [|discriminate]. destruct (obindm g xs) as [b|] eqn:Eb; [|discriminate].
    inversion E; subst. inversion HP; subst. rewrite (Hg x a) by assumption. rewrite (IH b) by auto. reflexivity.
  Qed.

  Lemma cat_fails f fwd : forall l xs r, existsb match_always_fails l = true -> Forall al l -> okl okp xs ->
    cat_results (fun c => IR f c fwd) l xs = Some r -> r = [].
  Proof.
    induction l as [|c l IH]; intros xs r Hex Hal Hx E; [discriminate|]. cbn [cat_results] in E. cbn [existsb] in Hex.
    inversion Hal as [|c0 l0 Hac Hall]; subst.
    destruct (obindm (IR f c fwd) xs) as [ys|] eqn:Eb; [|discriminate].
    destruct (match_always_fails c) eqn:Hc.
    - rewrite (obindm_all_nilP (oks okp) _ (fun x r0 Hx0 => fails_res c Hc f fwd x r0 (proj1 Hx0)) xs ys Hx Eb) in E. rewrite cat_nil in E.
      inversion E; reflexivity.
    - eapply IH; [exact Hex|exact Hall| |exact E].
      eapply (obindm_okl okp (oks okp)); [|exact Hx|exact Eb]. intros x r0 Hxx Er.
      eapply (closed_al ix unicode utf16 h okp f c fwd Hac); eauto.
  Qed.

  Lemma fails_sound lb n a : propagate_early_fails lb n = Ok a -> PRel lb n (act_node a n).
  Proof.
    intros E. unfold propagate_early_fails in E.
    destruct (contains_capture_groups n) eqn:Hccg; [inversion E; subst; apply PRel_refl|].
    pose proof (ccg_ng n Hccg) as Hng.
    destruct n; try (inversion E; subst; apply PRel_refl).
    - (* Cat *)
      destruct (existsb match_always_fails l) eqn:Hex; inversion E; subst; [|apply PRel_refl].
      intros Hq Ha. cbn [act_node]. split; [|split; [reflexivity|split; [apply al_fails|rewrite Hng; reflexivity]]].
      apply ref_to_fail; [reflexivity|]. intros [|f] x r Hx Er; [discriminate|]. rewrite ir_cat_eq in Er.
      eapply cat_fails; [exact Hex|apply al_cat; exact Ha| |exact Er]. constructor; [exact Hx|constructor].
    - (* Alt *)
      cbn [ng] in Hng.
      destruct (match_always_fails n1) eqn:H1; destruct (match_always_fails n2) eqn:H2; inversion E; subst;
        try apply PRel_refl; intros Hq Ha; cbn [act_node]; cbn [qok] in Hq; apply andb_true_iff in Hq as [Hq1 Hq2];
        destruct Ha as [Ha1 Ha2].
      + split; [|split; [reflexivity|split; [apply al_fails|cbn [ng]; rewrite Hng; reflexivity]]].
        apply ref_to_fail; [reflexivity|]. intros [|f] x r Hx Er; [discriminate|]. rewrite ir_alt_eq in Er.
        destruct (IR f n1 (negb lb) x) as [u|] eqn:Eu; [|discriminate].
        destruct (IR f n2 (negb lb) x) as [v|] eqn:Ev; [|discriminate].
        rewrite (fails_res n1 H1 _ _ _ _ (proj1 Hx) Eu), (fails_res n2 H2 _ _ _ _ (proj1 Hx) Ev) in Er. inversion Er; reflexivity.
      + split; [|split; [exact Hq2|split; [exact Ha2|cbn [ng]; lia]]].
        split; [|apply rstep_nol1; reflexivity].
        apply (rres_fleO ix unicode utf16 h okp (negb lb) _ _ 0%nat). intros [|f] x r Hx Er; [discriminate|].
        rewrite Nat.add_0_r. rewrite ir_alt_eq in Er.
        destruct (IR f n1 (negb lb) x) as [u|] eqn:Eu; [|discriminate].
        destruct (IR f n2 (negb lb) x) as [v|] eqn:Ev; [|discriminate].
        rewrite (fails_res n1 H1 _ _ _ _ Hx Eu) in Er. inversion Er; subst.
        eapply ir_fuel_mono; [|exact Ev]. lia.
      + split; [|split; [exact Hq1|split; [exact Ha1|cbn [ng]; lia]]].
        split; [|apply rstep_nol1; reflexivity].
        apply (rres_fleO ix unicode utf16 h okp (negb lb) _ _ 0%nat). intros [|f] x r Hx Er; [discriminate|].
        rewrite Nat.add_0_r. rewrite ir_alt_eq in Er.
        destruct (IR f n1 (negb lb) x) as [u|] eqn:Eu; [|discriminate].
        destruct (IR f n2 (negb lb) x) as [v|] eqn:Ev; [|discriminate].
        rewrite (fails_res n2 H2 _ _ _ _ Hx Ev), app_nil_r in Er. inversion Er; subst.
        eapply ir_fuel_mono; [|exact Eu]. lia.
    - (* Loop *)
      destruct (egs <? ege)%nat; [inversion E; subst; apply PRel_refl|].
      destruct ((0 <? min) && match_always_fails n) eqn:Hc; inversion E; subst; [|apply PRel_refl].
      apply andb_true_iff in Hc as [Hmn Hf]. apply N.ltb_lt in Hmn.
      intros Hq Ha. cbn [act_node]. split; [|split; [reflexivity|split; [apply al_fails|rewrite Hng; reflexivity]]].
      apply ref_to_fail; [reflexivity|]. intros [|f] x r Hx Er; [discriminate|]. rewrite ir_loop_eq in Er.
      destruct f as [|f]; [discriminate|]. cbn [loop_results] in Er.
      replace (0 <? 0) with false in Er by reflexivity. cbn [andb] in Er.
      replace (min <=? 0) with false in Er by (symmetry; apply N.leb_gt; exact Hmn). cbn [negb andb] in Er.
      destruct (0 <? max_val max); cbn [negb] in Er; [|inversion Er; reflexivity].
      destruct (reset_groups (snd x) egs (ege - egs)) as [g1|]; [|discriminate].
      destruct (IR (S f) n (negb lb) (fst x, g1)) as [zs|] eqn:Ez; [|discriminate].
      rewrite (fails_res n Hf _ _ (fst x, g1) _ (proj1 Hx) Ez) in Er. cbn [obindm] in Er. inversion Er; reflexivity.
  Qed.

  Theorem fails_pass_sound fuel n n' : run_to_fixpoint propagate_early_fails fuel n = Ok n' -> PRel false n n'.
  Proof. apply pass_sound. exact fails_sound. Qed.
End Fails.
