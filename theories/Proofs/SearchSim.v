(* SearchSim.v — from result lists to the first match (C01): for a pattern of the proved fragment (SeqSim.gden: the
   reference results on code points and the IR results on bytes are the same positions) the leftmost search of the
   reference (Spec.search: code point by code point) and the leftmost search over the IR (IRSem.ir_search: one UTF-8
   sequence at a time) return the same match, character index j on one side being byte offset off(j) on the other. *)
From RV Require Import Base.
From RV.Model Require Import Utf8 Indexer CodePointSet Insn Fold IR Optimizer Unfold Emit ClassSet.
From RV.Spec Require Import Spec IRSem IRShape.
From RV.Proofs Require Import Utf8Facts Utf8Valid SeqSim QuantSim.

Section Search.
  Variable foldf : N -> bool -> N.
  Variables unicode utf16 : bool.
  Variable cs : list (list N).
  Hypothesis Hw : wf_text cs.
  Variable eqclass : N -> list N.
  Notation canon := (fun x => fold_code_point x unicode).
  Notation u8 := (utf8_indexer foldf).
  Notation text := (concat cs).
  Notation chars := (map dec cs).
  Local Open Scope nat_scope.

  (* stepping one UTF-8 sequence to the right from the byte offset of character i *)
  Lemma right_pos_at i : i < length cs -> u8_next_right_pos text (off cs i) = Ok (Some (off cs (S i))).
  Proof.
    intros Hi. destruct (nth_error cs i) as [c|] eqn:E; [|apply nth_error_None in E; lia].
    assert (Hc : wf_char c = true) by (unfold wf_text in Hw; rewrite Forall_forall in Hw; apply Hw; eapply nth_error_In; exact E).
    rewrite (off_S cs i c E). pose proof (split_at cs i c E) as Hs.
    assert (Et : text = concat (firstn i cs) ++ c ++ concat (skipn (S i) cs)).
    { rewrite Hs at 1. rewrite concat_app. cbn [concat]. reflexivity. }
    rewrite Et at 1. unfold off. apply u8_right_pos_at. exact Hc.
  Qed.
  Lemma right_pos_end : u8_next_right_pos text (off cs (length cs)) = Ok None.
  Proof. rewrite off_end. unfold u8_next_right_pos. rewrite Nat.eqb_refl. reflexivity. Qed.

  (* the match as (start, end), in bytes *)
  Definition proj_es (m : option (option (nat * nat * caps))) : option (option (nat * nat)) :=
    match m with Some (Some (s, e, _)) => Some (Some (off cs s, off cs e)) | Some None => Some None | None => None end.
  Definition proj_ir (m : option (option (nat * nat * list groupdata))) : option (option (nat * nat)) :=
    match m with Some (Some (s, e, _)) => Some (Some (s, e)) | Some None => Some None | None => None end.

  Theorem first_match_of_fragment r n P kr kn : gden foldf unicode utf16 cs eqclass r n P kr kn ->
    forall ng f f', kr <= f -> kn <= f' ->
    forall tries i, i <= length cs -> length cs - i < tries ->
    proj_es (search canon eqclass chars (S f) r ng i tries) =
    proj_ir (ir_search u8 unicode utf16 text (S f') n ng tries (off cs i)) /\
    (* and the captures stay unset on both sides: the fragment has no capture groups *)
    (forall s e c, search canon eqclass chars (S f) r ng i tries = Some (Some (s, e, c)) -> c = repeat None ng /\ In e (P s) /\ i <= s) .
  Proof.
    intros [[Hr Hn] Hi] ng f f' Hf Hf'. induction tries as [|t IH]; intros i Hl Ht; [lia|].
    cbn [search ir_search]. rewrite (Hr f (i, repeat None ng) Hf), (Hn f' i (repeat gd_empty ng) Hf' Hl).
    unfold lift. cbn [fst snd]. destruct (P i) as [|j l] eqn:EP; cbn [map].
    - rewrite map_length. change (ix_next_right_pos u8) with u8_next_right_pos.
      destruct (Nat.ltb_spec i (length cs)) as [Hlt|Hge].
      + rewrite (right_pos_at i Hlt). destruct (IH (S i) ltac:(lia) ltac:(lia)) as [E1 E2]. split; [exact E1|].
        intros s e c Hs. destruct (E2 s e c Hs) as (H1 & H2 & H3). repeat split; [exact H1|exact H2|lia].
      + assert (i = length cs) by lia. subst i. rewrite right_pos_end. split; [reflexivity|]. intros s e c Hs. discriminate Hs.
    - unfold phi. cbn [fst snd proj_es proj_ir]. split; [reflexivity|]. intros s e c Hs. inversion Hs; subst. repeat split; [rewrite EP; left; reflexivity|lia].
  Qed.

  (* the reference search over a pattern of the fragment never runs out of fuel *)
  Lemma search_total r n P kr kn : gden foldf unicode utf16 cs eqclass r n P kr kn ->
    forall ng f, kr <= f -> forall tries i, search canon eqclass chars (S f) r ng i tries <> None.
  Proof.
    intros [[Hr _] _] ng f Hf. induction tries as [|t IH]; intros i; cbn [search]; [discriminate|].
    rewrite (Hr f (i, repeat None ng) Hf). unfold lift. cbn [fst snd]. destruct (P i) as [|j l]; cbn [map]; [|discriminate].
    destruct (i <? length chars); [apply IH|discriminate].
  Qed.
  Lemma bnd_off i : bnd cs (off cs i).
  Proof. exists (firstn i cs), (skipn i cs). split; [symmetry; apply firstn_skipn|reflexivity]. Qed.

  (* the whole-pattern IR the parser returns is Cat [x; Goal]; the search runs on ir_top of it = Cat [x] *)
  Lemma gden_top r x P kr kn : gden foldf unicode utf16 cs eqclass r x P kr kn ->
    gden foldf unicode utf16 cs eqclass r (ir_top (NCat [x; NGoal])) P kr (S kn).
  Proof.
    intros [[Hr Hn] Hi]. split; [split; [exact Hr|]|exact Hi]. intros f i G Hf Hl. destruct f as [|f0]; [lia|].
    change (ir_top (NCat [x; NGoal])) with (NCat [x]). rewrite (cat_unfold foldf unicode utf16 cs). cbn [cat_results obindm].
    rewrite (Hn f0 i G) by (lia || exact Hl). rewrite app_nil_r. reflexivity.
  Qed.
End Search.
