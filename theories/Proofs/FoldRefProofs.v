(* FoldRefProofs.v — the generated fold tables of regress against the reference data: finite, exhaustive
   checks by vm_compute over the tables' supports (the bound is the table itself), plus well-formedness. *)
From RV Require Import Base.
From RV.Gen Require Import FoldTables.
From RV.Model Require Import Fold Optimizer Unfold.
From RV.Ref Require Import RefFold RefCanon.

(* sorted, disjoint ranges: what the binary search in unicode.rs relies on *)
Fixpoint ranges_sorted (lo : N) (t : list (N * N * Z * N)) : bool :=
  match t with
  | [] => true
  | r :: t' => (lo <=? fr_first r) && (fr_first r <=? fr_last r) && (fr_last r <=? 1114111) && ranges_sorted (fr_last r + 1) t'
  end.
Lemma folds_sorted : ranges_sorted 0 FOLDS = true.
Proof. vm_compute. reflexivity. Qed.
Lemma to_uppercase_sorted : ranges_sorted 0 TO_UPPERCASE = true.
Proof. vm_compute. reflexivity. Qed.

(* the code points a table moves *)
Definition moved_points (t : list (N * N * Z * N)) : list N :=
  flat_map (fun r => filter (fun c => negb (fr_apply r c =? c)) (n_range (fr_first r) (fr_len r))) t.

(* Unicode mode: every reference class is mapped to a single value by fold ... *)
Definition class_collapses (cl : list N) : bool :=
  match cl with [] => true | h :: t => forallb (fun c => fold c =? fold h) t end.
Lemma fold_collapses_ref_classes : forallb class_collapses ref_scf_classes = true.
Proof. vm_compute. reflexivity. Qed.

(* ... and every code point fold moves lies in a reference class together with its image *)
Definition moved_in_class (c : N) : bool :=
  match ref_class c with Some cl => existsb (N.eqb (fold c)) cl | None => false end.
Lemma fold_moves_within_ref_classes : forallb moved_in_class (moved_points FOLDS) = true.
Proof. vm_compute. reflexivity. Qed.

(* distinct reference classes are kept apart by fold: the fold values of the class heads are pairwise distinct *)
Fixpoint nodupb (l : list N) : bool :=
  match l with [] => true | x :: t => negb (existsb (N.eqb x) t) && nodupb t end.
Lemma fold_separates_ref_classes : nodupb (map (fun cl => match cl with h :: _ => fold h | [] => 0 end) ref_scf_classes) = true.
Proof. vm_compute. reflexivity. Qed.

(* Legacy mode: where regress's upper-casing differs from the reference Canonicalize *)
Definition legacy_support : list N := moved_points TO_UPPERCASE ++ map fst ref_legacy_canon.
Definition legacy_deviations : list N :=
  sort_dedup (filter (fun c => negb (uppercase c =? canon_ref false c)) legacy_support).

(* the 29 code points of known finding D10: U+0131, U+017F, U+1F80-87, U+1F90-97, U+1FA0-A7, U+1FB3, U+1FC3, U+1FF3 *)
Definition known_upper_deviations : list N :=
  [305; 383] ++ n_range 8064 8 ++ n_range 8080 8 ++ n_range 8096 8 ++ [8115; 8131; 8179].
Lemma legacy_deviations_are_known : legacy_deviations = known_upper_deviations.
Proof. vm_compute. reflexivity. Qed.

(* unfold_char / unfold_uppercase_char enumerate exactly the points with the same fold, on the support *)
Definition unfold_matches_classes (f : N -> N) (unf : N -> list N) (support : list N) : bool :=
  let fs := map (fun d => (d, f d)) support in
  forallb (fun p => list_eqb N.eqb (unf (fst p))
                      (sort_dedup (fst p :: map fst (filter (fun q => snd q =? snd p) fs)))) fs.
Definition fold_support : list N := sort_dedup (moved_points FOLDS ++ map fold (moved_points FOLDS)).
Definition upper_support : list N := sort_dedup (moved_points TO_UPPERCASE ++ map uppercase (moved_points TO_UPPERCASE)).
Lemma unfold_char_is_fold_class : unfold_matches_classes fold unfold_char fold_support = true.
Proof. vm_compute. reflexivity. Qed.
Lemma unfold_uppercase_char_is_upper_class : unfold_matches_classes uppercase unfold_uppercase_char upper_support = true.
Proof. vm_compute. reflexivity. Qed.

(* fold and uppercase are idempotent on their supports (a canonical form is its own canonical form) *)
Lemma fold_idempotent_on_support : forallb (fun c => fold (fold c) =? fold c) fold_support = true.
Proof. vm_compute. reflexivity. Qed.
