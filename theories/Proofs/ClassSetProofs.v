(* ClassSetProofs.v — the class set the parser builds for a v-mode class expression without \q strings denotes the
   set ECMAScript gives the expression (Spec.v vmem): for every code point, with and without the i flag.
   Under i this is the argument of the repair of D16: the parser closes every operand under case before it applies
   the operators, closed sets stand for the folded sets of the standard, and the operators and the complement keep
   sets closed.  The closure itself is Closure.v (class_closure_is_canonical_equivalence); the set algebra is
   CpsProofs.v / CpsWf.v. *)
From RV Require Import Base.
From RV.Model Require Import Utf8 CodePointSet Insn Fold IR Optimizer Unfold ClassSet.
From RV.Spec Require Import Spec.
From RV.Proofs Require Import CpsProofs CpsWf FoldRefProofs Closure.

Section VInd.
  Variable P : vexpr -> Prop.
  Hypothesis Hch : forall c, P (VCh c).
  Hypothesis Hrange : forall a b, P (VRange a b).
  Hypothesis Hesc : forall n rs, P (VEsc n rs).
  Hypothesis Hstrs : forall l, P (VStrs l).
  Hypothesis Hunion : forall l, Forall P l -> P (VUnion l).
  Hypothesis Hinter : forall l, Forall P l -> P (VInter l).
  Hypothesis Hsub : forall l, Forall P l -> P (VSub l).
  Hypothesis Hneg : forall e, P e -> P (VNeg e).
  Fixpoint vexpr_ind2 (e : vexpr) : P e :=
    let go := (fix go (l : list vexpr) : Forall P l :=
                 match l with [] => Forall_nil P | x :: t => Forall_cons x (vexpr_ind2 x) (go t) end) in
    match e with
    | VCh c => Hch c
    | VRange a b => Hrange a b
    | VEsc n rs => Hesc n rs
    | VStrs l => Hstrs l
    | VUnion l => Hunion l (go l)
    | VInter l => Hinter l (go l)
    | VSub l => Hsub l (go l)
    | VNeg e' => Hneg e' (vexpr_ind2 e')
    end.
End VInd.

(* no \q strings anywhere; every range ordered and inside the code space, every escape set well-formed *)
Fixpoint sfree (e : vexpr) : bool :=
  match e with
  | VStrs _ => false
  | VUnion l | VInter l | VSub l => (fix go (l : list vexpr) : bool := match l with [] => true | x :: t => sfree x && go t end) l
  | VNeg e' => sfree e'
  | _ => true
  end.
Fixpoint vwf (e : vexpr) : bool :=
  match e with
  | VCh c => c <=? CODE_POINT_MAX
  | VRange a b => (a <=? b) && (b <=? CODE_POINT_MAX)
  | VEsc _ rs => cps_wf rs
  | VStrs _ => true
  | VUnion l | VInter l | VSub l => (fix go (l : list vexpr) : bool := match l with [] => true | x :: t => vwf x && go t end) l
  | VNeg e' => vwf e'
  end.

Lemma sfree_list l : (fix go (l : list vexpr) : bool := match l with [] => true | x :: t => sfree x && go t end) l = forallb sfree l.
Proof. induction l as [|x t IH]; [reflexivity|]. cbn [forallb]. rewrite IH. reflexivity. Qed.
Lemma vwf_list l : (fix go (l : list vexpr) : bool := match l with [] => true | x :: t => vwf x && go t end) l = forallb vwf l.
Proof. induction l as [|x t IH]; [reflexivity|]. cbn [forallb]. rewrite IH. reflexivity. Qed.

Section Meaning.
  Variable eqclass : N -> list N.
  Hypothesis Hec : forall c a, In a (eqclass c) <-> fold a = fold c.
  Notation vm := (vmem fold eqclass).
  Notation C := add_icase_code_points.

  Definition wfb (s : cps) : Prop := cps_wf s = true.
  Definition closed (s : cps) : Prop := forall x y, fold x = fold y -> cps_contains s x = cps_contains s y.

  Lemma C_spec s c : cps_contains (C s) c = true <-> exists a, cps_contains s a = true /\ fold a = fold c.
  Proof. exact (class_closure_is_canonical_equivalence true s c). Qed.
  Lemma C_wf s : wfb s -> wfb (C s).
  Proof. exact (class_closure_wf true s). Qed.
  Lemma C_closed s : closed (C s).
  Proof.
    intros x y E. apply eq_true_iff_eq. rewrite !C_spec. split; intros (a & Ha & Ea); exists a; (split; [exact Ha|congruence]).
  Qed.
  Lemma C_of_closed s : closed s -> forall c, cps_contains (C s) c = cps_contains s c.
  Proof.
    intros Hc c. apply eq_true_iff_eq. rewrite C_spec. split.
    - intros (a & Ha & Ea). rewrite <- (Hc a c Ea). exact Ha.
    - intros H. exists c. auto.
  Qed.

  Lemma set_matches_spec rs ch : set_matches eqclass rs true ch = true <-> exists a, cps_contains rs a = true /\ fold a = fold ch.
  Proof.
    unfold set_matches. rewrite existsb_exists. split; intros (a & H1 & H2); exists a.
    - apply Hec in H1. split; [exact H2|exact H1].
    - split; [apply Hec; exact H2|exact H1].
  Qed.

  (* the reference membership only looks at the canonical form *)
  Lemma vm_closed e : forall x y, fold x = fold y -> vm true e x = vm true e y.
  Proof.
    induction e as [c|a b|n rs|l|l H|l H|l H|e IH] using vexpr_ind2; intros x y E.
    - cbn [vmem]. unfold char_matches. rewrite E. reflexivity.
    - cbn [vmem]. apply eq_true_iff_eq. rewrite !set_matches_spec. split; intros (c & H1 & H2); exists c; (split; [exact H1|congruence]).
    - cbn [vmem]. f_equal. apply eq_true_iff_eq. rewrite !set_matches_spec.
      split; intros (c & H1 & H2); exists c; (split; [exact H1|congruence]).
    - cbn [vmem]. induction l as [|s t IHl]; [reflexivity|]. cbn [existsb]. rewrite IHl. f_equal.
      destruct s as [|a [|b r]]; try reflexivity. unfold char_matches. rewrite E. reflexivity.
    - cbn [vmem]. induction H as [|e t He Ht IHt]; [reflexivity|]. rewrite (He x y E), IHt. reflexivity.
    - cbn [vmem]. destruct l as [|h t]; [reflexivity|].
      assert (G : forall l0, Forall (fun e => forall x y, fold x = fold y -> vm true e x = vm true e y) l0 ->
                (fix go (l : list vexpr) : bool := match l with [] => true | e :: t => vm true e x && go t end) l0 =
                (fix go (l : list vexpr) : bool := match l with [] => true | e :: t => vm true e y && go t end) l0).
      { induction 1 as [|e t' He Ht IHt]; [reflexivity|]. rewrite (He x y E), IHt. reflexivity. }
      exact (G _ H).
    - cbn [vmem]. destruct l as [|h t]; [reflexivity|]. inversion H as [|? ? Hh Ht]; subst. rewrite (Hh x y E). f_equal. f_equal.
      clear Hh H. induction Ht as [|e t' He Ht' IHt]; [reflexivity|]. rewrite (He x y E), IHt. reflexivity.
    - cbn [vmem]. rewrite (IH x y E). reflexivity.
  Qed.

  (* ---- what the three operations do to a class set without strings ---- *)
  Definition good (s : cset) : Prop := cs_alts s = [] /\ wfb (cs_cps s).
  Inductive goodop : operand -> Prop :=
  | GChar c : c <= CODE_POINT_MAX -> goodop (OChar c)
  | GEsc s : wfb s -> goodop (OEsc s)
  | GClass c : good c -> goodop (OClass c).
  Definition omem (o : operand) (x : N) : bool :=
    match o with
    | OChar c => c =? x
    | OEsc s => cps_contains s x
    | OClass c => cps_contains (cs_cps c) x
    | OStrs _ => false
    end.

  Lemma wf_single c : c <= CODE_POINT_MAX -> wfb [(c, c)].
  Proof. intros H. unfold wfb, cps_wf. apply wf_cons. repeat split; [lia|lia|exact H]. Qed.
  Lemma contains_single c x : cps_contains [(c, c)] x = (c =? x).
  Proof.
    unfold cps_contains, iv_contains. cbn [existsb fst snd]. rewrite orb_false_r.
    destruct (N.eqb_spec c x) as [->|Hne]; [rewrite N.leb_refl; reflexivity|].
    destruct (N.leb_spec c x), (N.leb_spec x c); try reflexivity; lia.
  Qed.
  Lemma add_set_nil s : cps_add_set s [] = s.
  Proof. unfold cps_add_set. cbn [length]. destruct (length s <? 0)%nat eqn:E; [apply Nat.ltb_lt in E; lia|reflexivity]. Qed.

  Lemma union_good s o : good s -> goodop o ->
    good (union_operand s o) /\ forall x, cps_contains (cs_cps (union_operand s o)) x = cps_contains (cs_cps s) x || omem o x.
  Proof.
    intros [Ha Hw] Ho. destruct Ho as [c Hc|e He|c [Hca Hcw]]; cbn [union_operand cs_cps cs_alts omem].
    - split; [split; [exact Ha|apply add_wf; [exact Hw|lia|lia|exact Hc]]|]. intros x. apply add_one_contains.
    - split; [split; [exact Ha|apply add_set_wf; assumption]|]. intros x. apply add_set_contains; assumption.
    - split; [split; [rewrite Ha, Hca; reflexivity|apply add_set_wf; assumption]|]. intros x. apply add_set_contains; assumption.
  Qed.

  Lemma intersect_good s o : good s -> goodop o ->
    good (intersect_operand s o) /\ forall x, cps_contains (cs_cps (intersect_operand s o)) x = cps_contains (cs_cps s) x && omem o x.
  Proof.
    intros [Ha Hw] Ho. destruct Ho as [c Hc|e He|c [Hca Hcw]]; cbn [intersect_operand cs_cps cs_alts omem].
    - rewrite Ha. cbn [existsb]. split.
      + split; [reflexivity|]. destruct (cps_contains (cs_cps s) c); [apply wf_single; exact Hc|reflexivity].
      + intros x. destruct (cps_contains (cs_cps s) c) eqn:Ec.
        * rewrite contains_single. destruct (N.eqb_spec c x) as [->|Hne]; [rewrite Ec; reflexivity|rewrite andb_false_r; reflexivity].
        * cbn. destruct (N.eqb_spec c x) as [->|Hne]; [rewrite Ec; reflexivity|rewrite andb_false_r; reflexivity].
    - rewrite Ha. cbn [singles_in filter]. split; [split; [reflexivity|apply intersect_wf; assumption]|].
      intros x. apply intersect_contains.
    - rewrite Ha, Hca. cbn [singles_in singles_cps filter fold_left app]. rewrite add_set_nil.
      split; [split; [reflexivity|apply intersect_wf; assumption]|]. intros x. apply intersect_contains.
  Qed.

  Lemma subtract_good s o : good s -> goodop o ->
    good (subtract_operand s o) /\ forall x, cps_contains (cs_cps (subtract_operand s o)) x = cps_contains (cs_cps s) x && negb (omem o x).
  Proof.
    intros [Ha Hw] Ho. destruct Ho as [c Hc|e He|c [Hca Hcw]]; cbn [subtract_operand cs_cps cs_alts omem].
    - rewrite Ha. cbn [filter]. split; [split; [reflexivity|apply remove_wf; [exact Hw|apply wf_single; exact Hc]]|].
      intros x. rewrite remove_contains by (try exact Hw; apply wf_single; exact Hc). rewrite contains_single. reflexivity.
    - rewrite Ha. cbn [singles_in filter]. split; [split; [reflexivity|apply remove_wf; assumption]|].
      intros x. apply remove_contains; assumption.
    - rewrite Ha, Hca. cbn [singles_in singles_cps filter fold_left].
      assert (Hr : cps_remove (cs_cps s) [] = cs_cps s).
      { unfold cps_remove. destruct (cs_cps s) as [|i rest]; [reflexivity|]. cbn [cps_remove_go]. reflexivity. }
      rewrite Hr. split; [split; [reflexivity|apply remove_wf; assumption]|]. intros x. apply remove_contains; assumption.
  Qed.

  (* ---- operands ---- *)
  (* what an expression has to satisfy for the theorem, as a class (eval) *)
  Definition means (ic : bool) (e : vexpr) : Prop :=
    good (eval ic e) /\ forall x, x <= CODE_POINT_MAX -> cps_contains (cs_cps (eval ic e)) x = vm ic e x.

  Definition opnd (ic : bool) (x : vexpr) : operand :=
    match leaf_operand ic x with Some o => o | None => OClass (eval ic x) end.

  Lemma bounded_mem s a : wfb s -> cps_contains s a = true -> a <= CODE_POINT_MAX.
  Proof.
    intros Hw H. pose proof (wf_intervals_bounded 0 s Hw) as Hb. unfold cps_contains in H. apply existsb_exists in H as (i & Hi & Hc).
    rewrite Forall_forall in Hb. specialize (Hb i Hi). unfold iv_contains in Hc. apply andb_true_iff in Hc as [_ C2]. apply N.leb_le in C2. lia.
  Qed.

  Lemma inverted_closed s : wfb s -> closed s -> forall x y, x <= CODE_POINT_MAX -> y <= CODE_POINT_MAX -> fold x = fold y ->
    cps_contains (cps_inverted s) x = cps_contains (cps_inverted s) y.
  Proof. intros Hw Hc x y Hx Hy E. rewrite !inverted_contains by assumption. rewrite (Hc x y E). reflexivity. Qed.

  (* closing a set that is closed on the code space changes nothing there *)
  Lemma C_of_closed_bounded s : wfb s ->
    (forall x y, x <= CODE_POINT_MAX -> y <= CODE_POINT_MAX -> fold x = fold y -> cps_contains s x = cps_contains s y) ->
    forall c, c <= CODE_POINT_MAX -> cps_contains (C s) c = cps_contains s c.
  Proof.
    intros Hw Hc c Hcm. apply eq_true_iff_eq. rewrite C_spec. split.
    - intros (a & Ha & Ea). rewrite <- (Hc a c (bounded_mem s a Hw Ha) Hcm Ea). exact Ha.
    - intros H. exists c. auto.
  Qed.

  (* the operand the parser forms for x, after folding: membership is the reference membership of x *)
  Lemma opnd_spec ic x : vwf x = true -> sfree x = true ->
    (leaf_operand ic x = None -> means ic x) ->
    goodop (fold_operand ic (opnd ic x)) /\
    (forall c, c <= CODE_POINT_MAX -> omem (fold_operand ic (opnd ic x)) c = vm ic x c).
  Proof.
    intros Hwf Hsf Hm. unfold opnd. destruct x as [c|a b|n rs|l|l|l|l|e']; cbn [leaf_operand] in *; try discriminate Hsf.
    - (* a character *)
      cbn [vwf] in Hwf. apply N.leb_le in Hwf. destruct ic; cbn [fold_operand negb].
      + split; [constructor; apply C_wf; unfold cps_add_one; cbn [cps_add]; apply wf_single; exact Hwf|].
        intros ch _. cbn [omem vmem]. unfold cps_add_one. cbn [cps_add]. unfold char_matches.
        apply eq_true_iff_eq. rewrite C_spec. split.
        * intros (a & Ha & Ea). rewrite contains_single in Ha. apply N.eqb_eq in Ha. subst a. apply N.eqb_eq. exact Ea.
        * intros E. apply N.eqb_eq in E. exists c. rewrite contains_single, N.eqb_refl. auto.
      + split; [constructor; exact Hwf|]. intros ch _. reflexivity.
    - (* a range as operand: the nested class [a-b] *)
      destruct (Hm eq_refl) as (G & M). destruct ic; cbn [fold_operand negb]; (split; [constructor; exact G|exact M]).
    - (* a class escape *)
      cbn [vwf] in Hwf. unfold esc_cps. destruct ic; cbn [fold_operand negb].
      + destruct n.
        * assert (W : wfb (cps_inverted (C rs))) by (apply inverted_wf, C_wf; exact Hwf).
          split; [constructor; apply C_wf; exact W|]. intros ch Hch. cbn [omem vmem].
          rewrite C_of_closed_bounded; [| exact W | intros x y Hx Hy E; apply inverted_closed; [apply C_wf; exact Hwf|apply C_closed|exact Hx|exact Hy|exact E] | exact Hch].
          rewrite inverted_contains; [|apply C_wf; exact Hwf|exact Hch].
          assert (Hiff : cps_contains (C rs) ch = set_matches eqclass rs true ch)
            by (apply eq_true_iff_eq; rewrite C_spec, set_matches_spec; reflexivity).
          rewrite Hiff. destruct (set_matches eqclass rs true ch); reflexivity.
        * split; [constructor; apply C_wf; exact Hwf|]. intros ch _. cbn [omem vmem]. rewrite xorb_false_l.
          apply eq_true_iff_eq. rewrite C_spec, set_matches_spec. reflexivity.
      + destruct n.
        * split; [constructor; apply inverted_wf; exact Hwf|]. intros ch Hch. cbn [omem vmem]. rewrite inverted_contains by assumption. unfold set_matches. change (cps_contains rs ch) with (in_ranges rs ch). destruct (in_ranges rs ch); reflexivity.
        * split; [constructor; exact Hwf|]. intros ch _. cbn [omem vmem]. rewrite xorb_false_l. reflexivity.
    - destruct (Hm eq_refl) as (G & M). destruct ic; cbn [fold_operand negb]; (split; [constructor; exact G|exact M]).
    - destruct (Hm eq_refl) as (G & M). destruct ic; cbn [fold_operand negb]; (split; [constructor; exact G|exact M]).
    - destruct (Hm eq_refl) as (G & M). destruct ic; cbn [fold_operand negb]; (split; [constructor; exact G|exact M]).
    - destruct (Hm eq_refl) as (G & M). destruct ic; cbn [fold_operand negb]; (split; [constructor; exact G|exact M]).
  Qed.

  (* ---- closing a finished class ---- *)
  Lemma good_new : good cs_new.
  Proof. split; reflexivity. Qed.

  (* the class is closed at the end; when its members already are the reference members nothing changes *)
  Lemma close_means ic e s : good s -> (forall x, x <= CODE_POINT_MAX -> cps_contains (cs_cps s) x = vm ic e x) ->
    good (close ic s) /\ forall x, x <= CODE_POINT_MAX -> cps_contains (cs_cps (close ic s)) x = vm ic e x.
  Proof.
    intros [Ha Hw] M. destruct ic; cbn [close]; [|split; [split; assumption|exact M]].
    cbn [cs_cps cs_alts]. split; [split; [exact Ha|apply C_wf; exact Hw]|]. intros x Hx.
    rewrite C_of_closed_bounded; [apply M; exact Hx|exact Hw| |exact Hx].
    intros a b Hab Hb E. rewrite (M a Hab), (M b Hb). apply vm_closed. exact E.
  Qed.

  Definition item_ok (ic : bool) (x : vexpr) : Prop :=
    vwf x = true /\ sfree x = true /\ (leaf_operand ic x = None -> means ic x).
  (* in a union a range is added as written, nothing is asked of it *)
  Definition uitem_ok (ic : bool) (x : vexpr) : Prop :=
    vwf x = true /\ sfree x = true /\ match x with VRange _ _ => True | _ => leaf_operand ic x = None -> means ic x end.

  Lemma ustep ic acc it : good acc -> item_ok ic it ->
    good (union_operand acc (fold_operand ic (opnd ic it))) /\
    forall x, x <= CODE_POINT_MAX ->
      cps_contains (cs_cps (union_operand acc (fold_operand ic (opnd ic it)))) x = cps_contains (cs_cps acc) x || vm ic it x.
  Proof.
    intros Hg (Hwf & Hsf & Hm). destruct (opnd_spec ic it Hwf Hsf Hm) as [Go Mo]. destruct (union_good acc _ Hg Go) as [G U].
    split; [exact G|]. intros x Hx. rewrite U, (Mo x Hx). reflexivity.
  Qed.

  (* a member of a union as it is added: a range as written, anything else as the reference says *)
  Definition raw (ic : bool) (x : N) (it : vexpr) : bool :=
    match it with VRange a b => inb x a b | _ => vm ic it x end.

  Definition ugo (ic : bool) :=
    fix go (l : list vexpr) (acc : cset) : cset :=
      match l with
      | [] => acc
      | x :: t =>
          go t (match x with
                | VRange a b => mkCset (cps_add (cs_cps acc) a b) (cs_alts acc) (cs_mcs acc)
                | _ => union_operand acc (fold_operand ic (opnd ic x))
                end)
      end.

  Lemma ugo_spec ic : forall l acc, Forall (uitem_ok ic) l -> good acc ->
    good (ugo ic l acc) /\
    forall x, x <= CODE_POINT_MAX -> cps_contains (cs_cps (ugo ic l acc)) x = cps_contains (cs_cps acc) x || existsb (raw ic x) l.
  Proof.
    induction l as [|it t IH]; intros acc HF Hg; [split; [exact Hg|intros x _; cbn; rewrite orb_false_r; reflexivity]|].
    inversion HF as [|? ? (Hwf & Hsf & Hm) Ht]; subst. cbn [ugo]. fold (ugo ic).
    assert (Hstep : forall acc', (good acc' /\ forall x, x <= CODE_POINT_MAX ->
                       cps_contains (cs_cps acc') x = cps_contains (cs_cps acc) x || raw ic x it) ->
              good (ugo ic t acc') /\ forall x, x <= CODE_POINT_MAX ->
                cps_contains (cs_cps (ugo ic t acc')) x = cps_contains (cs_cps acc) x || existsb (raw ic x) (it :: t)).
    { intros acc' [G M]. destruct (IH acc' Ht G) as [G2 M2]. split; [exact G2|]. intros x Hx.
      rewrite (M2 x Hx), (M x Hx). cbn [existsb]. rewrite orb_assoc. reflexivity. }
    destruct it as [c|a b|n rs|ls|l0|l0|l0|e']; try (apply Hstep; apply ustep; [exact Hg|split; [exact Hwf|split; [exact Hsf|exact Hm]]]).
    apply Hstep. destruct Hg as [Ha Hw]. cbn [vwf] in Hwf. apply andb_true_iff in Hwf as [W1 W2]. apply N.leb_le in W1, W2.
    cbn [cs_cps cs_alts]. split; [split; [exact Ha|apply add_wf; [exact Hw|lia|exact W1|exact W2]]|].
    intros x _. cbn [raw]. apply add_contains. exact W1.
  Qed.

  Lemma raw_false x it : raw false x it = vm false it x.
  Proof.
    destruct it; try reflexivity. cbn [raw vmem]. unfold set_matches, in_ranges, inb. cbn [existsb fst snd]. rewrite orb_false_r. reflexivity.
  Qed.

  Lemma raw_true it ch : vwf it = true -> ch <= CODE_POINT_MAX ->
    (exists a, a <= CODE_POINT_MAX /\ raw true a it = true /\ fold a = fold ch) <-> vm true it ch = true.
  Proof.
    intros Hwf Hch. destruct it as [c|a b|n rs|ls|l0|l0|l0|e'];
      try (cbn [raw]; split; [intros (a & _ & Ha & Ea); rewrite <- (vm_closed _ a ch Ea); exact Ha|intros H; exists ch; auto]).
    cbn [raw vmem]. cbn [vwf] in Hwf. apply andb_true_iff in Hwf as [W1 W2]. apply N.leb_le in W1, W2.
    rewrite set_matches_spec. unfold inb. split.
    - intros (x & _ & Hx & Ex). exists x. split; [|exact Ex]. unfold cps_contains, iv_contains. cbn [existsb fst snd]. rewrite Hx. reflexivity.
    - intros (x & Hx & Ex). unfold cps_contains, iv_contains in Hx. cbn [existsb fst snd] in Hx. rewrite orb_false_r in Hx.
      exists x. split; [|split; [exact Hx|exact Ex]]. apply andb_true_iff in Hx as [_ X2]. apply N.leb_le in X2. lia.
  Qed.

  Lemma union_means ic l : Forall (uitem_ok ic) l -> means ic (VUnion l).
  Proof.
    intros HF. unfold means. cbn [eval]. change (close ic (ugo ic l cs_new)) with (close ic (ugo ic l cs_new)).
    assert (E : (fix go (l : list vexpr) (acc : cset) : cset :=
            match l with
            | [] => acc
            | x :: t =>
                go t (match x with
                      | VRange a b => mkCset (cps_add (cs_cps acc) a b) (cs_alts acc) (cs_mcs acc)
                      | _ => union_operand acc (fold_operand ic
                               (match leaf_operand ic x with Some o => o | None => OClass (eval ic x) end))
                      end)
            end) l cs_new = ugo ic l cs_new) by reflexivity.
    rewrite E. destruct (ugo_spec ic l cs_new HF good_new) as [[Ha Hw] M].
    destruct ic; cbn [close cs_cps cs_alts].
    - split; [split; [exact Ha|apply C_wf; exact Hw]|]. intros ch Hch. apply eq_true_iff_eq. rewrite C_spec. cbn [vmem].
      assert (Hv : (fix go (l : list vexpr) : bool := match l with [] => false | e :: t => vm true e ch || go t end) l = true <->
                   exists it, In it l /\ vm true it ch = true).
      { clear. induction l as [|it t IH]; [split; [discriminate|intros (? & [] & _)]|]. rewrite orb_true_iff, IH. split.
        - intros [H|(it' & Hi & H)]; [exists it; split; [left; reflexivity|exact H]|exists it'; split; [right; exact Hi|exact H]].
        - intros (it' & [<-|Hi] & H); [left; exact H|right; exists it'; auto]. }
      rewrite Hv. split.
      + intros (a & Ha' & Ea). pose proof (bounded_mem _ _ Hw Ha') as Hab. rewrite (M a Hab) in Ha'. cbn in Ha'.
        apply existsb_exists in Ha' as (it & Hit & Hr). exists it. split; [exact Hit|].
        rewrite Forall_forall in HF. destruct (HF it Hit) as (Hwf & _ & _). apply (raw_true it ch Hwf Hch). exists a. auto.
      + intros (it & Hit & Hv'). rewrite Forall_forall in HF. destruct (HF it Hit) as (Hwf & _ & _).
        apply (raw_true it ch Hwf Hch) in Hv' as (a & Hab & Hr & Ea). exists a. split; [|exact Ea].
        rewrite (M a Hab). cbn. apply existsb_exists. exists it. auto.
    - split; [split; assumption|]. intros x Hx. rewrite (M x Hx). cbn [orb vmem cs_new cs_cps cps_contains existsb].
      clear. induction l as [|it t IH]; [reflexivity|]. cbn [existsb]. rewrite raw_false, IH. reflexivity.
  Qed.

  (* ---- intersection and subtraction ---- *)
  Definition igo (ic : bool) :=
    fix go (l : list vexpr) (acc : cset) : cset :=
      match l with [] => acc | x :: t' => go t' (intersect_operand acc (fold_operand ic (opnd ic x))) end.
  Definition sgo (ic : bool) :=
    fix go (l : list vexpr) (acc : cset) : cset :=
      match l with [] => acc | x :: t' => go t' (subtract_operand acc (fold_operand ic (opnd ic x))) end.

  Lemma igo_spec ic : forall l acc, Forall (item_ok ic) l -> good acc ->
    good (igo ic l acc) /\
    forall x, x <= CODE_POINT_MAX -> cps_contains (cs_cps (igo ic l acc)) x = cps_contains (cs_cps acc) x && forallb (fun it => vm ic it x) l.
  Proof.
    induction l as [|it t IH]; intros acc HF Hg; [split; [exact Hg|intros x _; cbn; rewrite andb_true_r; reflexivity]|].
    inversion HF as [|? ? (Hwf & Hsf & Hm) Ht]; subst. cbn [igo]. fold (igo ic).
    destruct (opnd_spec ic it Hwf Hsf Hm) as [Go Mo]. destruct (intersect_good acc _ Hg Go) as [G U].
    destruct (IH _ Ht G) as [G2 M2]. split; [exact G2|]. intros x Hx. rewrite (M2 x Hx), U, (Mo x Hx). cbn [forallb].
    rewrite andb_assoc. reflexivity.
  Qed.
  Lemma sgo_spec ic : forall l acc, Forall (item_ok ic) l -> good acc ->
    good (sgo ic l acc) /\
    forall x, x <= CODE_POINT_MAX -> cps_contains (cs_cps (sgo ic l acc)) x = cps_contains (cs_cps acc) x && negb (existsb (fun it => vm ic it x) l).
  Proof.
    induction l as [|it t IH]; intros acc HF Hg; [split; [exact Hg|intros x _; cbn; rewrite andb_true_r; reflexivity]|].
    inversion HF as [|? ? (Hwf & Hsf & Hm) Ht]; subst. cbn [sgo]. fold (sgo ic).
    destruct (opnd_spec ic it Hwf Hsf Hm) as [Go Mo]. destruct (subtract_good acc _ Hg Go) as [G U].
    destruct (IH _ Ht G) as [G2 M2]. split; [exact G2|]. intros x Hx. rewrite (M2 x Hx), U, (Mo x Hx). cbn [existsb].
    rewrite negb_orb, andb_assoc. reflexivity.
  Qed.

  Lemma inter_means ic l : Forall (item_ok ic) l -> means ic (VInter l).
  Proof.
    intros HF. destruct l as [|h t]; [split; [exact good_new|intros x _; reflexivity]|].
    inversion HF as [|? ? Hh Ht]; subst. unfold means.
    change (eval ic (VInter (h :: t))) with (close ic (igo ic t (union_operand cs_new (fold_operand ic (opnd ic h))))).
    destruct (ustep ic cs_new h good_new Hh) as [G0 M0]. destruct (igo_spec ic t _ Ht G0) as [G M].
    apply close_means; [exact G|]. intros x Hx. rewrite (M x Hx), (M0 x Hx). cbn [cs_new cs_cps cps_contains existsb orb vmem].
    reflexivity.
  Qed.
  Lemma sub_means ic l : Forall (item_ok ic) l -> means ic (VSub l).
  Proof.
    intros HF. destruct l as [|h t]; [split; [exact good_new|intros x _; reflexivity]|].
    inversion HF as [|? ? Hh Ht]; subst. unfold means.
    change (eval ic (VSub (h :: t))) with (close ic (sgo ic t (union_operand cs_new (fold_operand ic (opnd ic h))))).
    destruct (ustep ic cs_new h good_new Hh) as [G0 M0]. destruct (sgo_spec ic t _ Ht G0) as [G M].
    apply close_means; [exact G|]. intros x Hx. rewrite (M x Hx), (M0 x Hx). cbn [cs_new cs_cps cps_contains existsb orb vmem].
    reflexivity.
  Qed.

  Lemma neg_means ic e : means ic e -> means ic (VNeg e).
  Proof.
    intros [[Ha Hw] M]. unfold means. cbn [eval cs_cps cs_alts]. split; [split; [exact Ha|apply inverted_wf; exact Hw]|].
    intros x Hx. cbn [cs_cps vmem]. rewrite inverted_contains by assumption. rewrite (M x Hx). reflexivity.
  Qed.

  (* a single operand as a class: [c], [\w], ... *)
  Lemma leaf_means ic x o : leaf_operand ic x = Some o -> vwf x = true -> sfree x = true ->
    eval ic x = close ic (union_operand cs_new (fold_operand ic o)) -> means ic x.
  Proof.
    intros Hl Hwf Hsf Ee. unfold means. rewrite Ee.
    assert (Hi : item_ok ic x) by (split; [exact Hwf|split; [exact Hsf|rewrite Hl; discriminate]]).
    destruct (ustep ic cs_new x good_new Hi) as [G M]. unfold opnd in G, M. rewrite Hl in G, M.
    apply close_means; [exact G|]. intros c Hc. rewrite (M c Hc). reflexivity.
  Qed.

  (* ---- the theorem ---- *)
  Theorem eval_means ic : forall e, vwf e = true -> sfree e = true -> means ic e.
  Proof.
    assert (Hitems : forall l, Forall (fun e => vwf e = true -> sfree e = true -> means ic e) l ->
              forallb vwf l = true -> forallb sfree l = true -> Forall (item_ok ic) l).
    { induction 1 as [|x t Hx Ht IH]; intros Hw Hs; [constructor|]. cbn [forallb] in Hw, Hs.
      apply andb_true_iff in Hw as [W1 W2]. apply andb_true_iff in Hs as [S1 S2].
      constructor; [|apply IH; assumption]. split; [exact W1|split; [exact S1|intros _; apply Hx; assumption]]. }
    induction e as [c|a b|n rs|l|l H|l H|l H|e IH] using vexpr_ind2; intros Hwf Hsf.
    - eapply leaf_means; [reflexivity|exact Hwf|exact Hsf|reflexivity].
    - assert (Hu : means ic (VUnion [VRange a b])).
      { apply union_means. constructor; [|constructor]. split; [exact Hwf|split; [reflexivity|exact I]]. }
      destruct Hu as [G M]. change (eval ic (VUnion [VRange a b])) with (eval ic (VRange a b)) in G, M.
      split; [exact G|]. intros x Hx. rewrite (M x Hx). cbn [vmem]. rewrite orb_false_r. reflexivity.
    - eapply leaf_means; [reflexivity|exact Hwf|exact Hsf|reflexivity].
    - discriminate Hsf.
    - cbn [vwf sfree] in Hwf, Hsf. rewrite vwf_list in Hwf. rewrite sfree_list in Hsf.
      apply union_means. pose proof (Hitems l H Hwf Hsf) as HI. clear - HI.
      induction HI as [|x t (W & S & M) Ht IH]; constructor; [|exact IH]. split; [exact W|split; [exact S|destruct x; try exact M; exact I]].
    - cbn [vwf sfree] in Hwf, Hsf. rewrite vwf_list in Hwf. rewrite sfree_list in Hsf. apply inter_means. apply Hitems; assumption.
    - cbn [vwf sfree] in Hwf, Hsf. rewrite vwf_list in Hwf. rewrite sfree_list in Hsf. apply sub_means. apply Hitems; assumption.
    - apply neg_means. apply IH; assumption.
  Qed.

  (* the IR node of the class: one bracket, whose members (with its invert flag) are the reference members *)
  Definition top_neg (e : vexpr) : bool := match e with VNeg _ => true | _ => false end.
  Theorem class_node_meaning ic e : vwf e = true -> sfree e = true ->
    exists cps', class_node ic e = NBracket (mkBracket (top_neg e) cps') /\ cps_wf cps' = true /\
      forall x, x <= CODE_POINT_MAX -> xorb (top_neg e) (cps_contains cps' x) = vm ic e x.
  Proof.
    intros Hwf Hsf.
    assert (Hnode : forall neg e0, means ic e0 ->
              exists cps', cs_node ic neg (eval ic e0) = NBracket (mkBracket neg cps') /\ cps_wf cps' = true /\
                forall x, x <= CODE_POINT_MAX -> cps_contains cps' x = vm ic e0 x).
    { intros neg e0 [[Ha Hw] M]. unfold cs_node. rewrite Ha. cbn [existsb filter app negb andb]. rewrite orb_true_r. cbn [app].
      destruct ic.
      - exists (C (cs_cps (eval true e0))). split; [reflexivity|]. split; [apply C_wf; exact Hw|]. intros x Hx.
        rewrite C_of_closed_bounded; [apply M; exact Hx|exact Hw| |exact Hx].
        intros a b Hab Hb E. rewrite (M a Hab), (M b Hb). apply vm_closed. exact E.
      - exists (cs_cps (eval false e0)). split; [reflexivity|]. split; [exact Hw|exact M]. }
    destruct e as [c|a b|n rs|l|l|l|l|e']; cbn [class_node top_neg];
      try (destruct (Hnode false _ (eval_means ic _ Hwf Hsf)) as (cps' & E & W & M); exists cps'; split; [exact E|split; [exact W|]];
           intros x Hx; rewrite xorb_false_l; apply M; exact Hx).
    cbn [vwf sfree] in Hwf, Hsf. destruct (Hnode true _ (eval_means ic _ Hwf Hsf)) as (cps' & E & W & M). exists cps'.
    split; [exact E|split; [exact W|]]. intros x Hx. rewrite (M x Hx). cbn [vmem]. rewrite xorb_true_l. reflexivity.
  Qed.
End Meaning.
