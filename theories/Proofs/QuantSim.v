(* QuantSim.v — quantifiers over the proved fragment (C01): the optional quantifier r? / r?? over a position-denoting
   factor r (SeqSim.gden) is a position-denoting factor again.  Reference side: RepeatMatcher with min 0, max 1 and the
   empty check; IR side: the Loop node the parser builds (counter k, entry position, the empty-iteration rejection). *)
From RV Require Import Base.
From RV.Model Require Import Utf8 Indexer CodePointSet Insn Fold IR Optimizer Unfold Emit ClassSet.
From RV.Spec Require Import Spec IRSem IRShape.
From RV.Proofs Require Import Utf8Facts Utf8Valid SeqSim.

Section Quant.
  Variable foldf : N -> bool -> N.
  Variables unicode utf16 : bool.
  Variable cs : list (list N).
  Hypothesis Hw : wf_text cs.
  Variable eqclass : N -> list N.
  Notation canon := (fun x => fold_code_point x unicode).
  Notation u8 := (utf8_indexer foldf).
  Notation ES := (es_results canon eqclass (map dec cs)).
  Notation IR := (ir_results u8 unicode utf16 (concat cs)).
  Notation gden := (gden foldf unicode utf16 cs eqclass).
  Local Open Scope nat_scope.

  (* byte offsets of character indices are strictly increasing *)
  Lemma off_step i : i < length cs -> off cs i < off cs (S i).
  Proof.
    intros Hi. destruct (nth_error cs i) as [c|] eqn:E; [|apply nth_error_None in E; lia].
    rewrite (off_S cs i c E). assert (Hc : wf_char c = true) by (unfold wf_text in Hw; rewrite Forall_forall in Hw; apply Hw; eapply nth_error_In; exact E).
    pose proof (wf_len c Hc). lia.
  Qed.
  Lemma off_lt : forall j i, i < j -> j <= length cs -> off cs i < off cs j.
  Proof.
    induction j as [|j IH]; intros i Hij Hj; [lia|]. destruct (Nat.eq_dec i j) as [->|Hne]; [apply off_step; lia|].
    pose proof (IH i ltac:(lia) ltac:(lia)). pose proof (off_step j ltac:(lia)). lia.
  Qed.
  Lemma off_inj i j : i <= length cs -> j <= length cs -> off cs i = off cs j -> i = j.
  Proof.
    intros Hi Hj E. destruct (Nat.lt_trichotomy i j) as [H|[H|H]]; [|exact H|].
    - pose proof (off_lt j i H Hj). lia.
    - pose proof (off_lt i j H Hi). lia.
  Qed.

  (* the positions of r? : the progressing results of r, then (greedy) / after (lazy) the position itself *)
  Definition optP (g : bool) (P : nat -> list nat) (i : nat) : list nat :=
    let it := filter (fun j => negb (j =? i)) (P i) in if g then it ++ [i] else i :: it.

  Lemma es_quant_unfold f body mn mx g gs ge x : ES (S f) (RQuant body mn mx g gs ge) Fwd x =
    if omax_zero mx then Some [x] else
    match ES f body Fwd (fst x, reset_range (snd x) gs (ge - gs) None) with
    | None => None
    | Some qs =>
      match Spec.obind (fun q => if (mn =? 0) && (fst q =? fst x) then Some [] else ES f (RQuant body (pred mn) (opred mx) g gs ge) Fwd q) qs with
      | None => None
      | Some iter => Some (if 0 <? mn then iter else if g then iter ++ [x] else x :: iter)
      end
    end.
  Proof. destruct x; reflexivity. Qed.
  Lemma ir_loop_unfold f b mn mx g egs ege x : IR (S f) (NLoop b mn mx g egs ege) true x =
    loop_results (IR f b true) mn mx g egs ege f 0 (fst x) x.
  Proof. destruct x; reflexivity. Qed.

  Lemma loop_step (bodyf : mst -> option (list mst)) mn mx g egs ege lf k entry y :
    loop_results bodyf mn mx g egs ege (S lf) k entry y =
      if ((0 <? k)%N && (mn <? k)%N && (entry =? fst y))%bool then Some []
      else
        let enter_ok := (k <? max_val mx)%N in
        let skip_ok := (mn <=? k)%N in
        let iterate :=
          match reset_groups (snd y) egs (ege - egs) with
          | None => None
          | Some g1 =>
              match bodyf (fst y, g1) with
              | None => None
              | Some zs => obindm (loop_results bodyf mn mx g egs ege lf (k + 1)%N (fst y)) zs
              end
          end in
        if negb enter_ok && negb skip_ok then Some []
        else if negb enter_ok then Some [y]
        else if negb skip_ok then iterate
        else match iterate with
             | None => None
             | Some it => Some (if g then it ++ [y] else y :: it)
             end.
  Proof. reflexivity. Qed.

  Lemma obind_filter (p : nat) (c : caps) (h : mstate -> option (list mstate)) : forall (l : list nat),
    (forall j, In j l -> j <> p -> h (j, c) = Some [(j, c)]) ->
    Spec.obind (fun q => if (fst q =? p) then Some [] else h q) (map (fun j => (j, c)) l) =
    Some (map (fun j => (j, c)) (filter (fun j => negb (j =? p)) l)).
  Proof.
    induction l as [|j l IH]; intros H; [reflexivity|]. cbn [map Spec.obind filter fst].
    rewrite IH by (intros k Hk; apply H; right; exact Hk).
    destruct (j =? p) eqn:E; cbn [negb]; [reflexivity|]. rewrite (H j (or_introl eq_refl)) by (apply Nat.eqb_neq; exact E). reflexivity.
  Qed.

  Theorem optional_gden kr kn r n P g gs egs : gden r n P kr kn ->
    gden (RQuant r 0 (Some 1) g gs gs) (NLoop n 0%N (Some 1%N) g egs egs) (optP g P) (S kr) (S (S kn)).
  Proof.
    intros [[Hr Hn] Hi]. split; [split|].
    - intros f [p c] Hf. destruct f as [|f']; [lia|]. rewrite es_quant_unfold. cbn [omax_zero fst snd]. rewrite Nat.sub_diag. cbn [reset_range].
      change (list (option (nat * nat))) with caps. rewrite (Hr f' (p, c)) by lia. unfold lift at 1. cbn [fst snd Nat.eqb pred opred andb].
      rewrite (obind_filter p c (ES (S f') (RQuant r 0 (Some 0) g gs gs) Fwd) (P p)).
      + cbn [Nat.ltb Nat.leb]. unfold lift, optP. cbn [fst snd]. destruct g; [rewrite map_app|]; reflexivity.
      + intros j _ _. rewrite es_quant_unfold. reflexivity.
    - intros f i G Hf Hl. destruct f as [|[|f2]]; [lia|lia|]. rewrite ir_loop_unfold. cbn [fst]. rewrite loop_step. cbv zeta.
      change (0 <? 0)%N with false. cbn [andb]. change (0 <? max_val (Some 1%N))%N with true. change (0 <=? 0)%N with true.
      rewrite Nat.sub_diag. cbn [reset_groups negb snd fst andb]. rewrite (Hn (S f2) i G) by (lia || exact Hl).
      unfold lift at 1. cbn [fst snd]. rewrite map_map.
      assert (Hin : Forall (fun j => j <= length cs) (P i)) by (apply Hi; exact Hl).
      assert (E : obindm (loop_results (IR (S (S f2)) n true) 0%N (Some 1%N) g egs egs (S f2) (0 + 1)%N (off cs i))
                    (map (fun j => phi cs (j, G)) (P i)) = Some (map (fun j => phi cs (j, G)) (filter (fun j => negb (j =? i)) (P i)))).
      { clear - Hin Hl Hw. induction (P i) as [|j l IH]; [reflexivity|]. inversion Hin as [|? ? Hj Hin']; subst.
        cbn [map obindm filter]. rewrite (IH Hin'). rewrite loop_step. cbv zeta. unfold phi at 1 2. cbn [fst snd].
        change (0 <? 0 + 1)%N with true. cbn [andb]. destruct (j =? i) eqn:Ej.
        - apply Nat.eqb_eq in Ej. subst j. rewrite Nat.eqb_refl. reflexivity.
        - assert (Eo : (off cs i =? off cs j) = false).
          { apply Nat.eqb_neq. intros Eo. apply Nat.eqb_neq in Ej. apply Ej. symmetry. apply off_inj; assumption. }
          rewrite Eo. change (0 + 1 <? max_val (Some 1%N))%N with false. change (0 <=? 0 + 1)%N with true. cbn [negb andb]. reflexivity. }
      rewrite E. unfold lift, optP. cbn [fst snd]. destruct g; rewrite ?map_app, ?map_map; reflexivity.
    - intros i Hl. unfold optP. specialize (Hi i Hl). assert (Hf : Forall (fun j => j <= length cs) (filter (fun j => negb (j =? i)) (P i))).
      { rewrite Forall_forall in *. intros j Hj. apply filter_In in Hj. apply Hi. apply Hj. }
      destruct g; [apply Forall_app; split; [exact Hf|constructor; [exact Hl|constructor]]|constructor; assumption].
  Qed.

  (* ---- the star: r* / r*? ---- *)
  (* results never move left, and there is no progress from the end of the text on *)
  Definition monoP (P : nat -> list nat) : Prop := forall i j, In j (P i) -> i <= j /\ (length cs <= i -> j = i).

  Fixpoint starF (k : nat) (g : bool) (P : nat -> list nat) (i : nat) : list nat :=
    match k with
    | O => [i]
    | S k' => let it := flat_map (fun j => if j =? i then [] else starF k' g P j) (P i) in if g then it ++ [i] else i :: it
    end.
  Definition starP (g : bool) (P : nat -> list nat) (i : nat) : list nat := starF (S (length cs - i)) g P i.

  Lemma flat_map_ext_in' {A B} (f h : A -> list B) (l : list A) : (forall x, In x l -> f x = h x) -> flat_map f l = flat_map h l.
  Proof. induction l as [|x l IH]; intros H; [reflexivity|]. cbn [flat_map]. rewrite (H x (or_introl eq_refl)), IH; [reflexivity|]. intros y Hy. apply H. right. exact Hy. Qed.

  Lemma starF_stable g P : monoP P -> forall k k' i, length cs - i < k -> length cs - i < k' -> starF k g P i = starF k' g P i.
  Proof.
    intros Hm. induction k as [|k IH]; intros k' i Hk Hk'; [lia|]. destruct k' as [|k']; [lia|]. cbn [starF].
    assert (E : flat_map (fun j => if j =? i then [] else starF k g P j) (P i) = flat_map (fun j => if j =? i then [] else starF k' g P j) (P i)).
    { apply flat_map_ext_in'. intros j Hj. destruct (j =? i) eqn:Ej; [reflexivity|]. apply Nat.eqb_neq in Ej. destruct (Hm i j Hj) as [Hle Hend].
      assert (Hlt : i < length cs) by (destruct (Nat.lt_ge_cases i (length cs)) as [H|H]; [exact H|exfalso; apply Ej; apply Hend; exact H]).
      apply IH; lia. }
    rewrite E. reflexivity.
  Qed.

  Lemma map_flat_map {A B C} (f : B -> C) (h : A -> list B) (l : list A) : map f (flat_map h l) = flat_map (fun x => map f (h x)) l.
  Proof. induction l as [|x l IH]; [reflexivity|]. cbn [flat_map]. rewrite map_app, IH. reflexivity. Qed.

  Lemma obind_progress (p : nat) (c : caps) (h : mstate -> option (list mstate)) (H : nat -> list mstate) : forall (l : list nat),
    (forall j, In j l -> j <> p -> h (j, c) = Some (H j)) ->
    Spec.obind (fun q => if (fst q =? p) then Some [] else h q) (map (fun j => (j, c)) l) =
    Some (flat_map (fun j => if j =? p then [] else H j) l).
  Proof.
    induction l as [|j l IH]; intros Hh; [reflexivity|]. cbn [map Spec.obind flat_map fst].
    rewrite IH by (intros k Hk; apply Hh; right; exact Hk).
    destruct (j =? p) eqn:E; [reflexivity|]. rewrite (Hh j (or_introl eq_refl)) by (apply Nat.eqb_neq; exact E). reflexivity.
  Qed.

  Lemma es_star kr r P g gs : (forall f (x : mstate), kr <= f -> ES (S f) r Fwd x = Some (lift P x)) -> monoP P ->
    forall m f p (c : caps), length cs - p < m -> kr + m <= f ->
    ES (S f) (RQuant r 0 None g gs gs) Fwd (p, c) = Some (lift (starF m g P) (p, c)).
  Proof.
    intros Hr Hm. induction m as [|m IH]; intros f p c Hlen Hf; [lia|]. destruct f as [|f']; [lia|].
    rewrite es_quant_unfold. cbn [omax_zero fst snd]. rewrite Nat.sub_diag. cbn [reset_range].
    change (list (option (nat * nat))) with caps. rewrite (Hr f' (p, c)) by lia. unfold lift at 1. cbn [fst snd Nat.eqb pred opred andb].
    rewrite (obind_progress p c (ES (S f') (RQuant r 0 None g gs gs) Fwd) (fun j => lift (starF m g P) (j, c)) (P p)).
    - cbn [Nat.ltb Nat.leb]. unfold lift. cbn [fst snd starF].
      f_equal. destruct g; [rewrite map_app|]; cbn [map]; f_equal; rewrite map_flat_map; apply flat_map_ext; intros j; destruct (j =? p); reflexivity.
    - intros j Hj Hne. destruct (Hm p j Hj) as [Hle Hend].
      assert (Hlt : p < length cs) by (destruct (Nat.lt_ge_cases p (length cs)) as [H|H]; [exact H|exfalso; apply Hne; apply Hend; exact H]).
      apply IH; lia.
  Qed.

  Lemma obindm_progress (i : nat) (G : list groupdata) (h : mst -> option (list mst)) (H : nat -> list mst) : forall (l : list nat),
    (forall j, In j l -> h (off cs j, G) = Some (H j)) ->
    obindm h (map (fun j => phi cs (j, G)) l) = Some (flat_map H l).
  Proof.
    induction l as [|j l IH]; intros Hh; [reflexivity|]. cbn [map obindm flat_map]. unfold phi at 1. cbn [fst snd].
    rewrite (Hh j (or_introl eq_refl)), IH by (intros k Hk; apply Hh; right; exact Hk). reflexivity.
  Qed.

  Lemma ir_star (bodyf : mst -> option (list mst)) (mn : N) P g egs : insideP cs P -> monoP P ->
    (forall i (G : list groupdata), i <= length cs -> bodyf (off cs i, G) = Some (map (phi cs) (lift P (i, G)))) ->
    forall m lf k e i (G : list groupdata), i <= length cs -> length cs - i < m -> m < lf -> (k + N.of_nat m < USIZE_MAX)%N ->
    (mn <= k)%N -> (k = mn \/ e <> off cs i) ->
    loop_results bodyf mn None g egs egs lf k e (off cs i, G) = Some (map (phi cs) (lift (starF m g P) (i, G))).
  Proof.
    intros Hi Hm HB. induction m as [|m IH]; intros lf k e i G Hl Hlen Hlf Hk Hmk He; [lia|]. destruct lf as [|lf']; [lia|].
    rewrite loop_step. cbv zeta. cbn [fst snd].
    assert (Echk : ((0 <? k)%N && (mn <? k)%N && (e =? off cs i))%bool = false).
    { destruct He as [->|He]; [rewrite N.ltb_irrefl, Bool.andb_false_r; reflexivity|]. apply Nat.eqb_neq in He. rewrite He. rewrite Bool.andb_false_r. reflexivity. }
    rewrite Echk. assert (Eent : (k <? max_val None)%N = true) by (apply N.ltb_lt; unfold max_val; lia). rewrite Eent.
    assert (Eskip : (mn <=? k)%N = true) by (apply N.leb_le; lia). rewrite Eskip. cbn [negb andb].
    rewrite Nat.sub_diag. cbn [reset_groups]. rewrite (HB i G Hl). unfold lift at 1. cbn [fst snd]. rewrite map_map.
    rewrite (obindm_progress i G _ (fun j => if j =? i then [] else map (phi cs) (lift (starF m g P) (j, G))) (P i)).
    - unfold lift. cbn [fst snd starF].
      f_equal. destruct g; [rewrite !map_app|]; cbn [map]; f_equal; rewrite !map_flat_map; apply flat_map_ext; intros j; destruct (j =? i); reflexivity.
    - intros j Hj. pose proof (Hi i Hl) as Hin. rewrite Forall_forall in Hin. specialize (Hin j Hj). destruct (Hm i j Hj) as [Hle Hend].
      destruct (j =? i) eqn:Ej.
      + apply Nat.eqb_eq in Ej. subst j. destruct lf' as [|lf'']; [lia|]. rewrite loop_step. cbn [fst].
        assert (E1 : (0 <? k + 1)%N = true) by (apply N.ltb_lt; lia). assert (E2 : (mn <? k + 1)%N = true) by (apply N.ltb_lt; lia). rewrite E1, E2, Nat.eqb_refl. reflexivity.
      + apply Nat.eqb_neq in Ej. assert (Hlt : i < j) by lia.
        apply IH; [exact Hin|lia|lia|lia|lia|]. right. intros Eo. apply Ej. apply off_inj; [exact Hin|exact Hl|symmetry; exact Eo].
  Qed.

  Lemma starF_inside g P : insideP cs P -> forall m i, i <= length cs -> Forall (fun j => j <= length cs) (starF m g P i).
  Proof.
    intros Hi. induction m as [|m IH]; intros i Hl; [constructor; [exact Hl|constructor]|]. cbn [starF].
    assert (Hf : Forall (fun j => j <= length cs) (flat_map (fun j => if j =? i then [] else starF m g P j) (P i))).
    { rewrite Forall_forall. intros x Hx. apply in_flat_map in Hx as (j & Hj & Hx). destruct (j =? i); [destruct Hx|].
      pose proof (Hi i Hl) as Hin. rewrite Forall_forall in Hin. specialize (IH j (Hin j Hj)). rewrite Forall_forall in IH. apply IH. exact Hx. }
    destruct g; [apply Forall_app; split; [exact Hf|constructor; [exact Hl|constructor]]|constructor; assumption].
  Qed.
  Lemma starF_mono g P : monoP P -> forall m i j, In j (starF m g P i) -> i <= j /\ (length cs <= i -> j = i).
  Proof.
    intros Hm. induction m as [|m IH]; intros i j Hj; [destruct Hj as [<-|[]]; split; [lia|reflexivity]|]. cbn [starF] in Hj.
    assert (Hit : In j (flat_map (fun j0 => if j0 =? i then [] else starF m g P j0) (P i)) -> i <= j /\ (length cs <= i -> j = i)).
    { intros Hx. apply in_flat_map in Hx as (j0 & Hj0 & Hx). destruct (j0 =? i) eqn:E0; [destruct Hx|]. apply Nat.eqb_neq in E0.
      destruct (Hm i j0 Hj0) as [Hle Hend]. destruct (IH j0 j Hx) as [Hle2 Hend2]. split; [lia|]. intros Hge. exfalso. apply E0. apply Hend. exact Hge. }
    destruct g.
    - apply in_app_or in Hj as [Hj|[<-|[]]]; [apply Hit; exact Hj|split; [lia|reflexivity]].
    - destruct Hj as [<-|Hj]; [split; [lia|reflexivity]|apply Hit; exact Hj].
  Qed.

  Hypothesis Hsize : (N.of_nat (S (S (length cs))) < USIZE_MAX)%N.

  Theorem star_gden kr kn r n P g gs egs : gden r n P kr kn -> monoP P ->
    gden (RQuant r 0 None g gs gs) (NLoop n 0%N None g egs egs) (starP g P) (kr + S (length cs)) (kn + S (S (length cs))) /\ monoP (starP g P).
  Proof.
    intros [[Hr Hn] Hi] Hm.
    split; [split; [split|]|].
    - intros f [p c] Hf. unfold lift, starP. cbn [fst snd]. rewrite (es_star kr r P g gs Hr Hm (S (length cs - p)) f p c) by lia. reflexivity.
    - intros f i G Hf Hl. destruct f as [|f0]; [lia|]. rewrite ir_loop_unfold. cbn [fst].
      rewrite (ir_star (IR (S f0) n true) 0%N P g egs Hi Hm (fun i0 G0 Hl0 => Hn f0 i0 G0 ltac:(lia) Hl0) (S (length cs - i)) (S f0) 0%N (off cs i) i G Hl); [reflexivity|lia|lia|lia|lia|left; reflexivity].
    - intros i Hl. apply starF_inside; assumption.
    - intros i j Hj. apply (starF_mono g P Hm _ _ _ Hj).
  Qed.

  (* r+ / r+? : one mandatory iteration (no empty check on it: the rejection applies beyond the minimum only), then the star *)
  Definition plusP (g : bool) (P : nat -> list nat) (i : nat) : list nat := flat_map (starP g P) (P i).

  Theorem plus_gden kr kn r n P g gs egs : gden r n P kr kn -> monoP P ->
    gden (RQuant r 1 None g gs gs) (NLoop n 1%N None g egs egs) (plusP g P) (kr + S (S (length cs))) (kn + S (S (S (length cs)))) /\ monoP (plusP g P).
  Proof.
    intros [[Hr Hn] Hi] Hm. split; [split; [split|]|].
    - intros f [p c] Hf. destruct f as [|f']; [lia|]. rewrite es_quant_unfold. cbn [omax_zero fst snd]. rewrite Nat.sub_diag. cbn [reset_range].
      change (list (option (nat * nat))) with caps. rewrite (Hr f' (p, c)) by lia. cbn [Nat.eqb pred opred andb].
      assert (E : Spec.obind (fun q : nat * caps => ES (S f') (RQuant r 0 None g gs gs) Fwd q) (lift P (p, c)) =
                  Some (flat_map (fun q : nat * caps => lift (starP g P) q) (lift P (p, c)))).
      { apply obind_all. intros [j c']. unfold lift, starP. cbn [fst snd]. rewrite (es_star kr r P g gs Hr Hm (S (length cs - j)) f' j c') by lia. reflexivity. }
      rewrite E. cbn [Nat.ltb Nat.leb]. unfold lift, plusP. cbn [fst snd]. f_equal.
      rewrite map_flat_map. generalize (P p). intros l. induction l as [|j l IH]; [reflexivity|]. cbn [map flat_map fst snd]. rewrite IH. reflexivity.
    - intros f i G Hf Hl. destruct f as [|[|f0]]; [lia|lia|]. rewrite ir_loop_unfold. cbn [fst]. rewrite loop_step. cbv zeta. cbn [fst snd].
      change (0 <? 0)%N with false. cbn [andb]. assert (Eent : (0 <? max_val None)%N = true) by (apply N.ltb_lt; unfold max_val; lia). rewrite Eent.
      change (1 <=? 0)%N with false. cbn [negb andb]. rewrite Nat.sub_diag. cbn [reset_groups]. rewrite (Hn (S f0) i G) by (lia || exact Hl).
      unfold lift at 1. cbn [fst snd]. rewrite map_map.
      rewrite (obindm_progress i G _ (fun j => map (phi cs) (lift (starP g P) (j, G))) (P i)).
      + unfold lift, plusP. cbn [fst snd]. rewrite !map_flat_map. reflexivity.
      + intros j Hj. pose proof (Hi i Hl) as Hin. rewrite Forall_forall in Hin. specialize (Hin j Hj). unfold starP.
        apply (ir_star (IR (S (S f0)) n true) 1%N P g egs Hi Hm (fun i0 G0 Hl0 => Hn (S f0) i0 G0 ltac:(lia) Hl0) (S (length cs - j)) (S f0) (0 + 1)%N (off cs i) j G Hin); [lia|lia|lia|lia|left; reflexivity].
    - intros i Hl. unfold plusP. rewrite Forall_forall. intros x Hx. apply in_flat_map in Hx as (j & Hj & Hx).
      pose proof (Hi i Hl) as Hin. rewrite Forall_forall in Hin. pose proof (starF_inside g P Hi (S (length cs - j)) j (Hin j Hj)) as H. rewrite Forall_forall in H. apply H. exact Hx.
    - intros i x Hx. unfold plusP in Hx. apply in_flat_map in Hx as (j & Hj & Hx). destruct (Hm i j Hj) as [H1 H2].
      destruct (starF_mono g P Hm _ _ _ Hx) as [H3 H4]. split; [lia|]. intros Hge. specialize (H2 Hge). subst j. apply H4. exact Hge.
  Qed.
  (* ---- the general quantifier r{mn,mx} (mx = None: unbounded), greedy or lazy ---- *)
  (* the positions, by the recursion of the reference RepeatMatcher (decreasing min / max, the empty check on optional
     iterations only); m bounds the depth: at most mn iterations without progress, then every iteration progresses *)
  Fixpoint qF (m : nat) (g : bool) (P : nat -> list nat) (mn : nat) (mx : option nat) (i : nat) : list nat :=
    match m with
    | O => [i]
    | S m' =>
      if omax_zero mx then [i] else
      let it := flat_map (fun j => if (mn =? 0) && (j =? i) then [] else qF m' g P (pred mn) (opred mx) j) (P i) in
      if 0 <? mn then it else if g then it ++ [i] else i :: it
    end.
  Definition qP (g : bool) (P : nat -> list nat) (mn : nat) (mx : option nat) (i : nat) : list nat :=
    qF (S (mn + (length cs - i))) g P mn mx i.

  Lemma obind_cond (b : bool) (p : nat) (c : caps) (h : mstate -> option (list mstate)) (H : nat -> list mstate) : forall (l : list nat),
    (forall j, In j l -> b && (j =? p) = false -> h (j, c) = Some (H j)) ->
    Spec.obind (fun q => if b && (fst q =? p) then Some [] else h q) (map (fun j => (j, c)) l) =
    Some (flat_map (fun j => if b && (j =? p) then [] else H j) l).
  Proof.
    induction l as [|j l IH]; intros Hh; [reflexivity|]. cbn [map Spec.obind flat_map fst].
    rewrite IH by (intros k Hk; apply Hh; right; exact Hk).
    destruct (b && (j =? p)) eqn:E; [reflexivity|]. rewrite (Hh j (or_introl eq_refl) E). reflexivity.
  Qed.

  Lemma es_q kr r P g gs : (forall f (x : mstate), kr <= f -> ES (S f) r Fwd x = Some (lift P x)) -> monoP P ->
    forall m f p (c : caps) mn mx, mn + (length cs - p) < m -> kr + m <= f ->
    ES (S f) (RQuant r mn mx g gs gs) Fwd (p, c) = Some (lift (qF m g P mn mx) (p, c)).
  Proof.
    intros Hr Hm. induction m as [|m IH]; intros f p c mn mx Hlen Hf; [lia|]. destruct f as [|f']; [lia|].
    rewrite es_quant_unfold. cbn [fst snd qF]. destruct (omax_zero mx); [reflexivity|]. rewrite Nat.sub_diag. cbn [reset_range].
    change (list (option (nat * nat))) with caps. rewrite (Hr f' (p, c)) by lia. unfold lift at 1. cbn [fst snd].
    rewrite (obind_cond (mn =? 0) p c (ES (S f') (RQuant r (pred mn) (opred mx) g gs gs) Fwd) (fun j => lift (qF m g P (pred mn) (opred mx)) (j, c)) (P p)).
    - unfold lift. cbn [fst snd]. f_equal.
      assert (E : flat_map (fun j => if (mn =? 0) && (j =? p) then [] else map (fun j0 => (j0, c)) (qF m g P (pred mn) (opred mx) j)) (P p) =
                  map (fun j => (j, c)) (flat_map (fun j => if (mn =? 0) && (j =? p) then [] else qF m g P (pred mn) (opred mx) j) (P p))).
      { rewrite map_flat_map. apply flat_map_ext. intros j. destruct ((mn =? 0) && (j =? p)); reflexivity. }
      destruct (0 <? mn); [exact E|]. destruct g; [rewrite map_app|]; cbn [map]; f_equal; exact E.
    - intros j Hj Hc. destruct (Hm p j Hj) as [Hle Hend]. apply IH; [|lia].
      destruct mn as [|mn']; [|cbn [pred]; lia]. cbn [Nat.eqb andb] in Hc. apply Nat.eqb_neq in Hc.
      assert (Hlt : p < length cs) by (destruct (Nat.lt_ge_cases p (length cs)) as [H|H]; [exact H|exfalso; apply Hc; apply Hend; exact H]).
      cbn [pred]. lia.
  Qed.

  Definition omx (MX : option nat) (k : nat) : option nat := match MX with None => None | Some M => Some (M - k) end.

  Lemma ir_q (bodyf : mst -> option (list mst)) (MN : nat) (MX : option nat) P g egs : insideP cs P -> monoP P ->
    (forall i (G : list groupdata), i <= length cs -> bodyf (off cs i, G) = Some (map (phi cs) (lift P (i, G)))) ->
    (forall M, MX = Some M -> MN <= M) ->
    forall m lf k e i (G : list groupdata), i <= length cs -> (MN - k) + (length cs - i) < m -> m < lf -> (N.of_nat k + N.of_nat m < USIZE_MAX)%N ->
    (forall M, MX = Some M -> k <= M) -> (k <= MN \/ e <> off cs i) ->
    loop_results bodyf (N.of_nat MN) (option_map N.of_nat MX) g egs egs lf (N.of_nat k) e (off cs i, G) =
    Some (map (phi cs) (lift (qF m g P (MN - k) (omx MX k)) (i, G))).
  Proof.
    intros Hi Hm HB Hval. induction m as [|m IH]; intros lf k e i G Hl Hlen Hlf Hk HkM He; [lia|]. destruct lf as [|lf']; [lia|].
    rewrite loop_step. cbv zeta. cbn [fst snd].
    assert (Echk : ((0 <? N.of_nat k)%N && (N.of_nat MN <? N.of_nat k)%N && (e =? off cs i))%bool = false).
    { destruct He as [He|He].
      - assert (E : (N.of_nat MN <? N.of_nat k)%N = false) by (apply N.ltb_ge; lia). rewrite E, Bool.andb_false_r. reflexivity.
      - apply Nat.eqb_neq in He. rewrite He, Bool.andb_false_r. reflexivity. }
    rewrite Echk. clear Echk.
    assert (Eskip : (N.of_nat MN <=? N.of_nat k)%N = (MN <=? k)).
    { destruct (Nat.leb_spec MN k); [apply N.leb_le|apply N.leb_gt]; lia. }
    rewrite Eskip. clear Eskip.
    assert (Eent : (N.of_nat k <? max_val (option_map N.of_nat MX))%N = negb (omax_zero (omx MX k))).
    { destruct MX as [M|]; cbn [option_map max_val omx omax_zero].
      - specialize (HkM M eq_refl). destruct (M - k) eqn:EM; cbn [negb]; [apply N.ltb_ge|apply N.ltb_lt]; lia.
      - apply N.ltb_lt. lia. }
    rewrite Eent. clear Eent. cbn [qF].
    destruct (omax_zero (omx MX k)) eqn:Ez; cbn [negb andb].
    - (* the maximum is reached: k = M >= MN, the loop is left *)
      assert (Hs : (MN <=? k) = true).
      { apply Nat.leb_le. destruct MX as [M|]; [|discriminate Ez]. cbn [omx omax_zero] in Ez. specialize (HkM M eq_refl). specialize (Hval M eq_refl).
        destruct (M - k) eqn:EM; [lia|discriminate Ez]. }
      rewrite Hs. cbn [negb]. reflexivity.
    - assert (Hlt : forall M, MX = Some M -> k < M).
      { intros M EM. subst MX. cbn [omx omax_zero] in Ez. specialize (HkM M eq_refl). destruct (M - k) eqn:E; [discriminate Ez|lia]. }
      assert (Eit : match reset_groups G egs (egs - egs) with
                    | None => None
                    | Some g1 => match bodyf (off cs i, g1) with
                                 | None => None
                                 | Some zs => obindm (loop_results bodyf (N.of_nat MN) (option_map N.of_nat MX) g egs egs lf' (N.of_nat k + 1)%N (off cs i)) zs
                                 end
                    end = Some (flat_map (fun j => if (MN - k =? 0) && (j =? i) then [] else map (phi cs) (lift (qF m g P (pred (MN - k)) (opred (omx MX k))) (j, G))) (P i))).
      { rewrite Nat.sub_diag. cbn [reset_groups]. rewrite (HB i G Hl). unfold lift at 1. cbn [fst snd]. rewrite map_map. apply (obindm_progress i G).
        intros j Hj. pose proof (Hi i Hl) as Hin. rewrite Forall_forall in Hin. specialize (Hin j Hj). destruct (Hm i j Hj) as [Hle Hend].
        replace (N.of_nat k + 1)%N with (N.of_nat (S k)) by lia.
        destruct ((MN - k =? 0) && (j =? i)) eqn:Ec.
        * apply andb_prop in Ec as [E1 E2]. apply Nat.eqb_eq in E1, E2. subst j. destruct lf' as [|lf'']; [lia|]. rewrite loop_step. cbn [fst].
          assert (Ea : (0 <? N.of_nat (S k))%N = true) by (apply N.ltb_lt; lia).
          assert (Eb : (N.of_nat MN <? N.of_nat (S k))%N = true) by (apply N.ltb_lt; lia). rewrite Ea, Eb, Nat.eqb_refl. reflexivity.
        * assert (Hc : MN - k <> 0 \/ j <> i).
          { apply Bool.andb_false_iff in Ec as [E1|E2]; [left; apply Nat.eqb_neq; exact E1|right; apply Nat.eqb_neq; exact E2]. }
          assert (Hp : pred (MN - k) = MN - S k) by lia.
          assert (Ho : opred (omx MX k) = omx MX (S k)) by (destruct MX as [M|]; cbn [omx opred]; [f_equal; lia|reflexivity]).
          rewrite Hp, Ho. apply IH; [exact Hin| | lia | lia | | ].
          -- destruct Hc as [Hc|Hc]; [lia|]. assert (i < j) by lia. lia.
          -- intros M EM. specialize (Hlt M EM). lia.
          -- destruct Hc as [Hc|Hc]; [left; lia|]. right. intros Eo. apply Hc. apply off_inj; [exact Hin|exact Hl|symmetry; exact Eo]. }
      rewrite Eit. clear Eit. unfold lift. cbn [fst snd].
      assert (E : flat_map (fun j => if (MN - k =? 0) && (j =? i) then [] else map (phi cs) (map (fun j0 => (j0, G)) (qF m g P (pred (MN - k)) (opred (omx MX k)) j))) (P i) =
                  map (phi cs) (map (fun j => (j, G)) (flat_map (fun j => if (MN - k =? 0) && (j =? i) then [] else qF m g P (pred (MN - k)) (opred (omx MX k)) j) (P i)))).
      { rewrite !map_flat_map. apply flat_map_ext. intros j. destruct ((MN - k =? 0) && (j =? i)); reflexivity. }
      assert (Eb : (0 <? MN - k) = negb (MN <=? k)).
      { destruct (Nat.leb_spec MN k); cbn [negb]; [apply Nat.ltb_ge|apply Nat.ltb_lt]; lia. }
      rewrite Eb. destruct (MN <=? k); cbn [negb].
      * rewrite E. f_equal. destruct g; [rewrite !map_app|]; reflexivity.
      * rewrite E. reflexivity.
  Qed.

  Lemma qF_inside g P : insideP cs P -> forall m mn mx i, i <= length cs -> Forall (fun j => j <= length cs) (qF m g P mn mx i).
  Proof.
    intros Hi. induction m as [|m IH]; intros mn mx i Hl; [constructor; [exact Hl|constructor]|]. cbn [qF].
    destruct (omax_zero mx); [constructor; [exact Hl|constructor]|].
    assert (Hf : Forall (fun j => j <= length cs) (flat_map (fun j => if (mn =? 0) && (j =? i) then [] else qF m g P (pred mn) (opred mx) j) (P i))).
    { rewrite Forall_forall. intros x Hx. apply in_flat_map in Hx as (j & Hj & Hx). destruct ((mn =? 0) && (j =? i)); [destruct Hx|].
      pose proof (Hi i Hl) as Hin. rewrite Forall_forall in Hin. specialize (IH (pred mn) (opred mx) j (Hin j Hj)). rewrite Forall_forall in IH. apply IH. exact Hx. }
    destruct (0 <? mn); [exact Hf|]. destruct g; [apply Forall_app; split; [exact Hf|constructor; [exact Hl|constructor]]|constructor; assumption].
  Qed.
  Lemma qF_mono g P : monoP P -> forall m mn mx i j, In j (qF m g P mn mx i) -> i <= j /\ (length cs <= i -> j = i).
  Proof.
    intros Hm. induction m as [|m IH]; intros mn mx i j Hj; [destruct Hj as [<-|[]]; split; [lia|reflexivity]|]. cbn [qF] in Hj.
    destruct (omax_zero mx); [destruct Hj as [<-|[]]; split; [lia|reflexivity]|].
    assert (Hit : In j (flat_map (fun j0 => if (mn =? 0) && (j0 =? i) then [] else qF m g P (pred mn) (opred mx) j0) (P i)) -> i <= j /\ (length cs <= i -> j = i)).
    { intros Hx. apply in_flat_map in Hx as (j0 & Hj0 & Hx). destruct ((mn =? 0) && (j0 =? i)) eqn:E0; [destruct Hx|].
      destruct (Hm i j0 Hj0) as [Hle Hend]. destruct (IH _ _ j0 j Hx) as [Hle2 Hend2]. split; [lia|]. intros Hge. specialize (Hend Hge). subst j0. apply Hend2. exact Hge. }
    destruct (0 <? mn); [apply Hit; exact Hj|]. destruct g.
    - apply in_app_or in Hj as [Hj|[<-|[]]]; [apply Hit; exact Hj|split; [lia|reflexivity]].
    - destruct Hj as [<-|Hj]; [split; [lia|reflexivity]|apply Hit; exact Hj].
  Qed.

  Theorem quant_gden kr kn r n P g gs egs mn mx : gden r n P kr kn -> monoP P -> (forall M, mx = Some M -> mn <= M) ->
    (N.of_nat (mn + S (S (length cs))) < USIZE_MAX)%N ->
    gden (RQuant r mn mx g gs gs) (NLoop n (N.of_nat mn) (option_map N.of_nat mx) g egs egs) (qP g P mn mx)
         (kr + mn + S (length cs)) (kn + mn + S (S (S (length cs)))) /\ monoP (qP g P mn mx).
  Proof.
    intros [[Hr Hn] Hi] Hm Hval Hsz. split; [split; [split|]|].
    - intros f [p c] Hf. unfold lift, qP. cbn [fst snd]. rewrite (es_q kr r P g gs Hr Hm (S (mn + (length cs - p))) f p c mn mx) by lia. reflexivity.
    - intros f i G Hf Hl. destruct f as [|f0]; [lia|]. rewrite ir_loop_unfold. cbn [fst].
      pose proof (ir_q (IR (S f0) n true) mn mx P g egs Hi Hm (fun i0 G0 Hl0 => Hn f0 i0 G0 ltac:(lia) Hl0) Hval (S (mn + (length cs - i))) (S f0) 0 (off cs i) i G Hl) as H.
      rewrite Nat.sub_0_r in H. change (N.of_nat 0) with 0%N in H. replace (omx mx 0) with mx in H by (destruct mx as [M|]; cbn [omx]; [rewrite Nat.sub_0_r|]; reflexivity).
      rewrite H; [reflexivity|lia|lia|lia|intros M _; lia|left; lia].
    - intros i Hl. apply qF_inside; assumption.
    - intros i j Hj. apply (qF_mono g P Hm _ _ _ _ _ Hj).
  Qed.
End Quant.

Section Mono.
  Variable cs : list (list N).
  Notation monoP := (monoP cs).
  Local Open Scope nat_scope.
  (* the builders of the fragment keep monoP, so that the star applies to every factor of the fragment *)
  Lemma posD_mono t : monoP (posD cs t).
  Proof.
    intros i j Hj. unfold posD in Hj. destruct (nth_error (map dec cs) i) as [d|] eqn:E; [|destruct Hj].
    assert (Hl : i < length (map dec cs)) by (apply nth_error_Some; congruence). rewrite map_length in Hl.
    destruct (t d); [|destruct Hj]. destruct Hj as [<-|[]]. split; lia.
  Qed.
  Lemma assertP_mono cond : monoP (assertP cond).
  Proof. intros i j Hj. unfold assertP in Hj. destruct (cond i); [|destruct Hj]. destruct Hj as [<-|[]]. split; [lia|reflexivity]. Qed.
  Lemma lookP_mono neg P : monoP (lookP neg P).
  Proof. intros i j Hj. unfold lookP in Hj. destruct (P i); destruct neg; try destruct Hj as [<-|[]]; try destruct Hj; split; (lia || reflexivity). Qed.
  Lemma optP_mono g P : monoP P -> monoP (optP g P).
  Proof.
    intros Hm i j Hj. unfold optP in Hj.
    assert (Hf : In j (filter (fun j0 => negb (j0 =? i)) (P i)) -> i <= j /\ (length cs <= i -> j = i)) by (intros H; apply filter_In in H; apply Hm; apply H).
    destruct g; [apply in_app_or in Hj as [Hj|[<-|[]]]|destruct Hj as [<-|Hj]]; try (apply Hf; exact Hj); split; (lia || reflexivity).
  Qed.
  Lemma catP_mono Ps : Forall monoP Ps -> monoP (catP Ps).
  Proof.
    intros HF i j Hj. unfold catP in Hj. apply in_flat_map in Hj as (P & HP & Hj). rewrite Forall_forall in HF. apply (HF P HP i j Hj).
  Qed.
  Lemma gchain_mono Ps : Forall monoP Ps -> forall l i, (forall x, In x l -> i <= x /\ (length cs <= i -> x = i)) ->
    forall j, In j (gchain Ps l) -> i <= j /\ (length cs <= i -> j = i).
  Proof.
    induction 1 as [|P Ps HP _ IH]; intros l i Hl j Hj; cbn [gchain] in Hj; [apply Hl; exact Hj|].
    apply (IH (flat_map P l) i); [|exact Hj]. intros x Hx. apply in_flat_map in Hx as (y & Hy & Hx).
    destruct (Hl y Hy) as [H1 H2]. destruct (HP y x Hx) as [H3 H4]. split; [lia|]. intros Hge. specialize (H2 Hge). subst y. apply H4. exact Hge.
  Qed.
  Lemma term_mono Ps : Forall monoP Ps -> monoP (fun i => gchain Ps [i]).
  Proof. intros HF i j Hj. apply (gchain_mono Ps HF [i] i); [|exact Hj]. intros x [<-|[]]. split; [lia|reflexivity]. Qed.
End Mono.
