(* MayContain.v — the may_contain_strings flag the parser keeps in a ClassSet (src/parse.rs, the flag behind the early
   error "Negated character class may contain strings") is ECMAScript's static MayContainStrings of the expression,
   for every class expression that passes the early error itself. *)
From RV Require Import Base.
From RV.Model Require Import Utf8 CodePointSet Insn Fold IR Optimizer Unfold ClassSet.
From RV.Spec Require Import Spec.
From RV.Proofs Require Import ClassSetProofs.

Lemma is_single_len' (s : list N) : negb (is_single s) = negb (length s =? 1)%nat.
Proof. destruct s as [|a [|b r]]; reflexivity. Qed.

Lemma existsb_ext' {A} (f g : A -> bool) : (forall x, f x = g x) -> forall l, existsb f l = existsb g l.
Proof. intros H l. induction l as [|a l IH]; [reflexivity|]. cbn [existsb]. rewrite H, IH. reflexivity. Qed.

Lemma close_mcs ic s : cs_mcs (close ic s) = cs_mcs s.
Proof. destruct ic; reflexivity. Qed.

(* the operand formed for x carries the flag of x *)
Lemma opnd_mcs ic x : (leaf_operand ic x = None -> cs_mcs (eval ic x) = vmcs x) ->
  op_mcs (fold_operand ic (opnd ic x)) = vmcs x.
Proof.
  intros Hm. unfold opnd. destruct x as [c|a b|n rs|l|l|l|l|e']; cbn [leaf_operand] in *;
    try (rewrite <- (Hm eq_refl); destruct ic; reflexivity).
  - destruct ic; reflexivity.
  - destruct ic; reflexivity.
  - destruct ic; cbn [fold_operand negb op_mcs cs_mcs vmcs]; apply existsb_ext'; intros s; apply is_single_len'.
Qed.

Theorem eval_mcs ic : forall e, vnegok e = true -> cs_mcs (eval ic e) = vmcs e.
Proof.
  induction e as [c|a b|n rs|l|l H|l H|l H|e IH] using vexpr_ind2; intros Hok.
  - cbn [eval]. rewrite close_mcs. destruct ic; reflexivity.
  - cbn [eval]. rewrite close_mcs. reflexivity.
  - cbn [eval]. rewrite close_mcs. destruct ic; reflexivity.
  - cbn [eval]. rewrite close_mcs. destruct ic; cbn [fold_operand negb union_operand cs_mcs cs_new op_mcs orb vmcs]; apply existsb_ext'; intros s; apply is_single_len'.
  - (* union *)
    change (eval ic (VUnion l)) with (close ic (ugo ic l cs_new)). rewrite close_mcs. cbn [vnegok] in Hok. cbn [vmcs].
    assert (G : forall acc, cs_mcs (ugo ic l acc) = cs_mcs acc || (fix go (l : list vexpr) : bool := match l with [] => false | x :: t => vmcs x || go t end) l).
    { induction H as [|x t Hx Ht IHt]; intros acc; [cbn; rewrite orb_false_r; reflexivity|].
      apply andb_true_iff in Hok as [Ox Ot]. cbn [ugo]. fold (ugo ic). rewrite (IHt Ot).
      assert (Es : cs_mcs (match x with
                           | VRange a b => mkCset (cps_add (cs_cps acc) a b) (cs_alts acc) (cs_mcs acc)
                           | _ => union_operand acc (fold_operand ic (opnd ic x))
                           end) = cs_mcs acc || vmcs x).
      { destruct x; try (unfold union_operand; rewrite <- (opnd_mcs ic _ (fun _ => Hx Ox));
                         destruct (fold_operand ic (opnd ic _)); reflexivity).
        cbn [cs_mcs vmcs]. rewrite orb_false_r. reflexivity. }
      rewrite Es, orb_assoc. reflexivity. }
    rewrite G. reflexivity.
  - (* intersection *)
    destruct l as [|h t]; [reflexivity|].
    change (eval ic (VInter (h :: t))) with (close ic (igo ic t (union_operand cs_new (fold_operand ic (opnd ic h))))).
    rewrite close_mcs. cbn [vnegok] in Hok. apply andb_true_iff in Hok as [Oh Ot]. inversion H as [|? ? Hh Ht]; subst.
    assert (E0 : cs_mcs (union_operand cs_new (fold_operand ic (opnd ic h))) = vmcs h).
    { unfold union_operand. rewrite <- (opnd_mcs ic h (fun _ => Hh Oh)). destruct (fold_operand ic (opnd ic h)); reflexivity. }
    assert (G : forall acc, cs_mcs (igo ic t acc) = cs_mcs acc && (fix go (l : list vexpr) : bool := match l with [] => true | x :: t => vmcs x && go t end) t).
    { clear E0 H Hh. induction Ht as [|x t' Hx Ht' IHt]; intros acc; [cbn; rewrite andb_true_r; reflexivity|].
      apply andb_true_iff in Ot as [Ox Ot']. cbn [igo]. fold (igo ic). rewrite (IHt Ot').
      assert (Es : cs_mcs (intersect_operand acc (fold_operand ic (opnd ic x))) = cs_mcs acc && vmcs x).
      { unfold intersect_operand. rewrite <- (opnd_mcs ic x (fun _ => Hx Ox)). destruct (fold_operand ic (opnd ic x)); reflexivity. }
      rewrite Es, andb_assoc. reflexivity. }
    rewrite G, E0. reflexivity.
  - (* subtraction *)
    destruct l as [|h t]; [reflexivity|].
    change (eval ic (VSub (h :: t))) with (close ic (sgo ic t (union_operand cs_new (fold_operand ic (opnd ic h))))).
    rewrite close_mcs. cbn [vnegok] in Hok. apply andb_true_iff in Hok as [Oh Ot]. inversion H as [|? ? Hh Ht]; subst.
    assert (E0 : cs_mcs (union_operand cs_new (fold_operand ic (opnd ic h))) = vmcs h).
    { unfold union_operand. rewrite <- (opnd_mcs ic h (fun _ => Hh Oh)). destruct (fold_operand ic (opnd ic h)); reflexivity. }
    assert (G : forall acc, cs_mcs (sgo ic t acc) = cs_mcs acc).
    { clear. induction t as [|x t' IHt]; intros acc; [reflexivity|]. cbn [sgo]. fold (sgo ic). rewrite IHt.
      unfold subtract_operand. destruct (fold_operand ic (opnd ic x)); reflexivity. }
    rewrite G, E0. reflexivity.
  - (* a negated class that passes the early error *)
    cbn [vnegok] in Hok. apply andb_true_iff in Hok as [Hn Ho]. apply negb_true_iff in Hn.
    cbn [eval cs_mcs vmcs]. rewrite (IH Ho). exact Hn.
Qed.
