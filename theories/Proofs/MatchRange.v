(* MatchRange.v — the match the search reports lies inside the haystack and is not reversed:
   p <= start <= end <= length h, for both concrete indexers. *)
From RV Require Import Base.
From RV.Model Require Import Utf8 Indexer CodePointSet Insn IR Optimizer Unfold Emit Fold.
From RV.Spec Require Import IRSem.
From RV.Gen Require Import FoldTables.
From RV.Proofs Require Import IRRange IRMono IndexerFacts AsciiUtf8.

Lemma u8_dir fold (h : hay) fwd p c p' : cnext (utf8_indexer fold) fwd h p = Ok (Some (c, p')) -> if fwd then (p <= p')%nat else (p' <= p)%nat.
Proof.
  unfold cnext. destruct fwd; simpl.
  - unfold u8_next_right. destruct (p =? length h)%nat; [discriminate|].
    destruct (getb h p) as [e|b0]; cbn [bindR]; [discriminate|].
    destruct (b0 <? 128); [intro H'; inversion H'; subst; lia|].
    destruct (utf8_seq_len b0) as [|[|[|[|[|k]]]]]; try discriminate;
      repeat match goal with |- context [getb h ?q] => destruct (getb h q) as [?|?]; cbn [bindR]; [discriminate|] end;
      unfold decoded; match goal with |- context [is_scalar ?v] => destruct (is_scalar v) end; intro H'; inversion H'; subst; lia.
  - unfold u8_next_left. destruct (p =? 0)%nat; [discriminate|]. unfold psub.
    repeat match goal with
           | |- context [(?k <=? p)%nat] => destruct (k <=? p)%nat; cbn [bindR]; [|discriminate]
           | |- context [getb h ?q] => destruct (getb h q) as [?|?]; cbn [bindR]; [discriminate|]
           | |- context [if ?c <? 128 then _ else _] => destruct (c <? 128); [intro H'; inversion H'; subst; lia|]
           | |- context [if negb ?c then _ else _] => destruct (negb c); [unfold decoded; match goal with |- context [is_scalar ?v] => destruct (is_scalar v) end; intro H'; inversion H'; subst; lia|]
           end.
    unfold decoded; match goal with |- context [is_scalar ?v] => destruct (is_scalar v) end; intro H'; inversion H'; subst; lia.
Qed.

Lemma ascii_dir (h : hay) fwd p c p' : cnext ascii_indexer fwd h p = Ok (Some (c, p')) -> if fwd then (p <= p')%nat else (p' <= p)%nat.
Proof.
  unfold cnext. destruct fwd; simpl.
  - unfold as_next_right. destruct (p =? length h)%nat; [discriminate|]. destruct (getb h p); cbn [bindR]; [discriminate|].
    intro H; inversion H; subst; lia.
  - unfold as_next_left. destruct (p =? 0)%nat; [discriminate|]. unfold psub. destruct (1 <=? p)%nat; cbn [bindR]; [|discriminate].
    destruct (getb h (p - 1)); cbn [bindR]; [discriminate|]. intro H; inversion H; subst; lia.
Qed.

Lemma ascii_cursor (h : hay) fwd p c p' : (p <= length h)%nat -> cnext ascii_indexer fwd h p = Ok (Some (c, p')) -> (p' <= length h)%nat.
Proof.
  intro Hp. unfold cnext. destruct fwd; simpl.
  - unfold as_next_right. destruct (p =? length h)%nat eqn:E; [discriminate|]. apply Nat.eqb_neq in E.
    destruct (getb h p); cbn [bindR]; [discriminate|]. intro H; inversion H; subst; lia.
  - unfold as_next_left. destruct (p =? 0)%nat; [discriminate|]. unfold psub. destruct (1 <=? p)%nat; cbn [bindR]; [|discriminate].
    destruct (getb h (p - 1)); cbn [bindR]; [discriminate|]. intro H; inversion H; subst; lia.
Qed.

Section R.
  Variable ix : indexer.
  Variable unicode utf16 : bool.
  Variable h : hay.
  Hypothesis Hcur : forall (h' : hay) fwd p c p', (p <= length h')%nat -> cnext ix fwd h' p = Ok (Some (c, p')) -> (p' <= length h')%nat.
  Hypothesis Hdir : forall (h' : hay) fwd p c p', cnext ix fwd h' p = Ok (Some (c, p')) -> if fwd then (p <= p')%nat else (p' <= p)%nat.
  Hypothesis Hgt : forall q q', ix_next_right_pos ix h q = Ok (Some q') -> (q < q')%nat.

  Theorem ir_search_match_range fuel n ngroups : forall tries p p0 e gs,
    walk_ok ix h tries p = true ->
    ir_search ix unicode utf16 h fuel n ngroups tries p = Some (Some (p0, e, gs)) ->
    (p <= p0)%nat /\ (p0 <= e)%nat /\ (e <= length h)%nat.
  Proof.
    induction tries as [|t IH]; intros p p0 e gs Hw H; [discriminate|]. cbn [ir_search] in H.
    cbn [walk_ok] in Hw. apply andb_true_iff in Hw as [Hp Hw]. apply Nat.leb_le in Hp.
    destruct (ir_results ix unicode utf16 h fuel n true (p, repeat gd_empty ngroups)) as [[|y l]|] eqn:Er; [| |discriminate].
    - destruct (ix_next_right_pos ix h p) as [er|[p'|]] eqn:En; try discriminate.
      destruct (IH p' p0 e gs Hw H) as (A & B & C). pose proof (Hgt p p' En). lia.
    - inversion H; subst p0 e gs.
      pose proof (ir_range ix unicode utf16 h Hcur fuel n true p _ _ Hp Er) as Hr. inversion Hr; subst.
      pose proof (ir_mono ix unicode utf16 h Hdir fuel n true p _ _ Er) as Hm. inversion Hm; subst.
      unfold dir in *. simpl in *. lia.
  Qed.
End R.
