(* OptMono.v — the IR semantics is monotone in its fuel and in the definedness of its parts; on that rests the
   refinement relation between IR nodes used to state that an optimizer pass keeps the meaning of a node:
   [ref fwd n n']: wherever the semantics of n is defined (with some fuel), the semantics of n' is defined with
   the same ordered list of results (with at most K more fuel), and the same for the single-step reading of a
   node as the body of a one-character loop.  The relation is a preorder and a congruence for every node
   constructor. *)
From RV Require Import Base.
From RV.Model Require Import Utf8 Indexer CodePointSet Insn IR Optimizer Unfold Emit.
From RV.Spec Require Import IRSem.
From RV.Proofs Require Import OptDD.

Definition fle {A B} (f g : A -> option B) : Prop := forall x r, f x = Some r -> g x = Some r.

Lemma fle_refl {A B} (f : A -> option B) : fle f f.
Proof. intros x r E. exact E. Qed.
Lemma fle_trans {A B} (f g k : A -> option B) : fle f g -> fle g k -> fle f k.
Proof. intros H1 H2 x r E. apply H2, H1, E. Qed.

Lemma Forall2_imp {A B} (P Q : A -> B -> Prop) : (forall a b, P a b -> Q a b) ->
  forall l l', Forall2 P l l' -> Forall2 Q l l'.
Proof. intros H l l'. induction 1; constructor; auto. Qed.

Lemma obindm_fle {A} (f g : A -> option (list mst)) : fle f g -> fle (obindm f) (obindm g).
Proof.
  intros Hfg xs. induction xs as [|x xs IH]; intros r E; [exact E|]. cbn [obindm] in *.
  destruct (f x) as [a|] eqn:Ef; [|discriminate].
  destruct (obindm f xs) as [b|] eqn:Eb; [|discriminate].
  rewrite (Hfg x a Ef), (IH b eq_refl). exact E.
Qed.

Lemma cat_fle2 (rf rf' : node -> mst -> option (list mst)) : forall l l',
  Forall2 (fun c c' => fle (rf c) (rf' c')) l l' -> fle (cat_results rf l) (cat_results rf' l').
Proof.
  induction 1 as [|c c' l l' Hc Hl IH]; intros xs r E; [exact E|]. cbn [cat_results] in *.
  destruct (obindm (rf c) xs) as [ys|] eqn:Eb; [|discriminate].
  rewrite (obindm_fle _ _ Hc xs ys Eb). apply IH. exact E.
Qed.

Lemma loop_fle (bodyf bodyf' : mst -> option (list mst)) mn mx gr egs ege : fle bodyf bodyf' ->
  forall lf lf', (lf <= lf')%nat -> forall k entry,
  fle (loop_results bodyf mn mx gr egs ege lf k entry) (loop_results bodyf' mn mx gr egs ege lf' k entry).
Proof.
  intros Hb. induction lf as [|lf IH]; intros lf' Hle k entry y r E; [discriminate|].
  destruct lf' as [|lf']; [lia|]. cbn [loop_results] in *.
  destruct ((0 <? k) && (mn <? k) && (entry =? fst y)%nat); [exact E|].
  assert (Hit : forall it,
    match reset_groups (snd y) egs (ege - egs) with
    | None => None
    | Some g1 => match bodyf (fst y, g1) with
                 | None => None
                 | Some zs => obindm (loop_results bodyf mn mx gr egs ege lf (k + 1) (fst y)) zs
                 end
    end = Some it ->
    match reset_groups (snd y) egs (ege - egs) with
    | None => None
    | Some g1 => match bodyf' (fst y, g1) with
                 | None => None
                 | Some zs => obindm (loop_results bodyf' mn mx gr egs ege lf' (k + 1) (fst y)) zs
                 end
    end = Some it).
  { intros it Ei. destruct (reset_groups (snd y) egs (ege - egs)) as [g1|]; [|discriminate].
    destruct (bodyf (fst y, g1)) as [zs|] eqn:Ez; [|discriminate]. rewrite (Hb _ _ Ez).
    eapply obindm_fle; [|exact Ei]. apply IH. lia. }
  destruct (negb (k <? max_val mx) && negb (mn <=? k)); [exact E|].
  destruct (negb (k <? max_val mx)); [exact E|].
  destruct (negb (mn <=? k)); [apply Hit; exact E|].
  match type of E with match ?itx with _ => _ end = _ => destruct itx as [it|] eqn:Ei; [|discriminate] end.
  rewrite (Hit it eq_refl). exact E.
Qed.

Lemma l1_fle (s s' : nat -> option (option nat)) chk gs mn mx gr : fle s s' ->
  forall lf lf', (lf <= lf')%nat -> forall k,
  fle (l1_results s chk gs mn mx gr lf k) (l1_results s' chk gs mn mx gr lf' k).
Proof.
  intros Hs. induction lf as [|lf IH]; intros lf' Hle k q r E; [discriminate|].
  destruct lf' as [|lf']; [lia|]. cbn [l1_results] in *.
  assert (Ht : forall t, (if k <? max_val mx then s q else Some None) = Some t ->
                         (if k <? max_val mx then s' q else Some None) = Some t).
  { intros t Et. destruct (k <? max_val mx); [apply Hs; exact Et|exact Et]. }
  destruct (if k <? max_val mx then s q else Some None) as [[q'|]|] eqn:Et; try discriminate.
  - rewrite (Ht _ eq_refl). destruct (chk q q'); [|discriminate].
    destruct (l1_results s chk gs mn mx gr lf (k + 1) q') as [it|] eqn:Ei; [|discriminate].
    rewrite (IH lf' ltac:(lia) (k + 1) q' it Ei). exact E.
  - rewrite (Ht _ eq_refl). exact E.
Qed.

Lemma fle_frelP {A} (P : A -> Prop) (f g : A -> option (list mst)) : fle f g -> frelP P f g.
Proof. intros H x r _ E. exists r. split; [apply H; exact E|apply dd_refl]. Qed.

Section Guarded.
  (* the positions at which the text is known to be well-formed (character boundaries); everything below is relative
     to states at such positions, and needs the functions involved to stay among them *)
  Variable okp : nat -> Prop.
  (* a state is well-formed when its position is, and so is every position recorded in its capture slots *)
  Definition gdok (gd : groupdata) : Prop :=
    (forall p, gd_start gd = Some p -> okp p) /\ (forall p, gd_end gd = Some p -> okp p).
  Definition gok (G : list groupdata) : Prop := Forall gdok G.
  Definition oks (x : mst) : Prop := okp (fst x) /\ gok (snd x).

  Lemma oks_move q G q' : oks (q, G) -> okp q' -> oks (q', G).
  Proof. intros [_ HG] Hq. split; assumption. Qed.

  Lemma gdok_empty : gdok gd_empty.
  Proof. split; intros p E; discriminate E. Qed.

  Lemma gok_set_nth : forall G g gd, gok G -> gdok gd -> gok (set_nth g gd G).
  Proof.
    induction G as [|x G IH]; intros g gd HG Hgd; [destruct g; constructor|]. inversion HG; subst.
    destruct g as [|g]; cbn [set_nth]; constructor; auto. apply IH; assumption.
  Qed.

  Lemma gok_upd g f G G' : upd_group g f G = Some G' -> gok G -> (forall gd, gdok gd -> gdok (f gd)) -> gok G'.
  Proof.
    unfold upd_group. intros E HG Hf. destruct (nth_error G g) as [gd|] eqn:En; [|discriminate]. inversion E; subst.
    apply gok_set_nth; [exact HG|]. apply Hf. unfold gok in HG. rewrite Forall_forall in HG. apply HG. eapply nth_error_In; eauto.
  Qed.

  Lemma gok_reset : forall n G lo G', reset_groups G lo n = Some G' -> gok G -> gok G'.
  Proof.
    induction n as [|n IH]; intros G lo G' E HG; cbn [reset_groups] in E; [inversion E; subst; exact HG|].
    destruct (upd_group lo (fun _ => gd_empty) G) as [G1|] eqn:E1; [|discriminate].
    eapply IH; [exact E|]. eapply gok_upd; [exact E1|exact HG|]. intros gd _. apply gdok_empty.
  Qed.

  Lemma gdok_start fwd p gd : okp p -> gdok gd -> gdok (set_group_start fwd p gd).
  Proof.
    intros Hp [H1 H2]. unfold set_group_start. destruct fwd; split; cbn [gd_start gd_end]; intros q E;
      try (inversion E; subst; exact Hp); auto.
  Qed.
  Lemma gdok_end fwd p gd : okp p -> gdok gd -> gdok (set_group_end fwd p gd).
  Proof.
    intros Hp [H1 H2]. unfold set_group_end. destruct fwd; split; cbn [gd_start gd_end]; intros q E;
      try (inversion E; subst; exact Hp); auto.
  Qed.
  Definition okl (l : list mst) : Prop := Forall oks l.
  Definition clo (f : mst -> option (list mst)) : Prop := forall x r, oks x -> f x = Some r -> okl r.
  Definition frelO := @frelP mst oks.
  Definition fleO (s s' : nat -> option (option nat)) : Prop := forall q o, okp q -> s q = Some o -> s' q = Some o.
  Definition sclo (s : nat -> option (option nat)) : Prop := forall q q', okp q -> s q = Some (Some q') -> okp q'.

  Lemma fleO_refl s : fleO s s.
  Proof. intros q o _ E. exact E. Qed.
  Lemma fleO_trans a b c : fleO a b -> fleO b c -> fleO a c.
  Proof. intros H1 H2 q o Hq E. apply H2; [exact Hq|]. apply H1; assumption. Qed.

  Lemma obindm_okl {A} (P : A -> Prop) (f : A -> option (list mst)) :
    (forall x r, P x -> f x = Some r -> okl r) -> forall xs ys, Forall P xs -> obindm f xs = Some ys -> okl ys.
  Proof.
    intro Hc. induction xs as [|x xs IH]; intros ys Hx E; cbn [obindm] in E; [inversion E; constructor|].
    destruct (f x) as [a|] eqn:Ea; [|discriminate]. destruct (obindm f xs) as [b|] eqn:Eb; [|discriminate].
    inversion E; subst. inversion Hx; subst. apply Forall_app. split; [eapply Hc; eauto|apply IH; auto].
  Qed.

  Lemma cat_okl (rf : node -> mst -> option (list mst)) : forall l, Forall (fun c => clo (rf c)) l ->
    forall xs r, okl xs -> cat_results rf l xs = Some r -> okl r.
  Proof.
    induction 1 as [|c l Hc Hl IH]; intros xs r Hx E; cbn [cat_results] in E; [inversion E; subst; exact Hx|].
    destruct (obindm (rf c) xs) as [ys|] eqn:Eb; [|discriminate].
    eapply IH; [|exact E]. eapply (obindm_okl oks); [exact Hc|exact Hx|exact Eb].
  Qed.

  Lemma cat_frelO (rf rf' : node -> mst -> option (list mst)) : forall l l',
    Forall2 (fun c c' => frelO (rf c) (rf' c') /\ clo (rf c)) l l' ->
    forall xs xs' r, okl xs -> dd xs xs' -> cat_results rf l xs = Some r ->
    exists r', cat_results rf' l' xs' = Some r' /\ dd r r'.
  Proof.
    induction 1 as [|c c' l l' [Hc Hcl] Hl IH]; intros xs xs' r Hx Hd E; cbn [cat_results] in *.
    - inversion E; subst. exists xs'. split; [reflexivity|exact Hd].
    - destruct (obindm (rf c) xs) as [ys|] eqn:Eb; [|discriminate].
      destruct (obindm_frelP oks _ _ Hc xs xs' ys Hx Hd Eb) as [ys' [Eb' Dy]]. rewrite Eb'.
      eapply IH; [|exact Dy|exact E]. eapply (obindm_okl oks); [exact Hcl|exact Hx|exact Eb].
  Qed.

  Lemma loop_okl (bodyf : mst -> option (list mst)) mn mx gr egs ege : clo bodyf ->
    forall lf k entry, clo (loop_results bodyf mn mx gr egs ege lf k entry).
  Proof.
    intro Hb. induction lf as [|lf IH]; intros k entry y r Hy E; [discriminate|]. cbn [loop_results] in E.
    destruct ((0 <? k) && (mn <? k) && (entry =? fst y)%nat); [inversion E; constructor|].
    assert (Hit : forall it,
      match reset_groups (snd y) egs (ege - egs) with
      | None => None
      | Some g1 => match bodyf (fst y, g1) with
                   | None => None
                   | Some zs => obindm (loop_results bodyf mn mx gr egs ege lf (k + 1) (fst y)) zs
                   end
      end = Some it -> okl it).
    { intros it Ei. destruct (reset_groups (snd y) egs (ege - egs)) as [g1|] eqn:Er; [|discriminate].
      destruct (bodyf (fst y, g1)) as [zs|] eqn:Ez; [|discriminate].
      assert (Hyy : oks (fst y, g1)) by (split; [exact (proj1 Hy)|eapply gok_reset; [exact Er|exact (proj2 Hy)]]).
      assert (Hz : okl zs) by (eapply Hb; [|exact Ez]; exact Hyy).
      eapply (obindm_okl oks); [|exact Hz|exact Ei]. intros x r0 Hx Er0. eapply IH; eauto. }
    destruct (negb (k <? max_val mx) && negb (mn <=? k)); [inversion E; constructor|].
    destruct (negb (k <? max_val mx)); [inversion E; subst; constructor; [exact Hy|constructor]|].
    destruct (negb (mn <=? k)); [apply Hit; exact E|].
    match type of E with match ?itx with _ => _ end = _ => destruct itx as [it|] eqn:Ei; [|discriminate] end.
    pose proof (Hit it eq_refl) as Hi. inversion E; subst.
    destruct gr; [apply Forall_app; split; [exact Hi|constructor; [exact Hy|constructor]]|constructor; [exact Hy|exact Hi]].
  Qed.

  Lemma loop_frelO (bodyf bodyf' : mst -> option (list mst)) mn mx gr egs ege : frelO bodyf bodyf' -> clo bodyf ->
    forall lf lf', (lf <= lf')%nat -> forall k entry,
    frelO (loop_results bodyf mn mx gr egs ege lf k entry) (loop_results bodyf' mn mx gr egs ege lf' k entry).
  Proof.
    intros Hb Hcl. induction lf as [|lf IH]; intros lf' Hle k entry y r Hy E; [discriminate|].
    destruct lf' as [|lf']; [lia|]. cbn [loop_results] in *.
    destruct ((0 <? k) && (mn <? k) && (entry =? fst y)%nat); [exists r; split; [exact E|apply dd_refl]|].
    assert (Hit : forall it,
      match reset_groups (snd y) egs (ege - egs) with
      | None => None
      | Some g1 => match bodyf (fst y, g1) with
                   | None => None
                   | Some zs => obindm (loop_results bodyf mn mx gr egs ege lf (k + 1) (fst y)) zs
                   end
      end = Some it ->
      exists it',
      match reset_groups (snd y) egs (ege - egs) with
      | None => None
      | Some g1 => match bodyf' (fst y, g1) with
                   | None => None
                   | Some zs => obindm (loop_results bodyf' mn mx gr egs ege lf' (k + 1) (fst y)) zs
                   end
      end = Some it' /\ dd it it').
    { intros it Ei. destruct (reset_groups (snd y) egs (ege - egs)) as [g1|] eqn:Er; [|discriminate].
      destruct (bodyf (fst y, g1)) as [zs|] eqn:Ez; [|discriminate].
      assert (Hyy : oks (fst y, g1)) by (split; [exact (proj1 Hy)|eapply gok_reset; [exact Er|exact (proj2 Hy)]]).
      destruct (Hb _ _ Hyy Ez) as [zs' [Ez' Dz]]. rewrite Ez'.
      eapply (obindm_frelP oks); [|eapply Hcl; [exact Hyy|exact Ez]|exact Dz|exact Ei]. apply IH. lia. }
    destruct (negb (k <? max_val mx) && negb (mn <=? k)); [exists r; split; [exact E|apply dd_refl]|].
    destruct (negb (k <? max_val mx)); [exists r; split; [exact E|apply dd_refl]|].
    destruct (negb (mn <=? k)); [apply Hit; exact E|].
    match type of E with match ?itx with _ => _ end = _ => destruct itx as [it|] eqn:Ei; [|discriminate] end.
    destruct (Hit it eq_refl) as [it' [Ei' Di]]. rewrite Ei'. inversion E; subst.
    eexists. split; [reflexivity|]. destruct gr; [apply dd_app; [exact Di|apply dd_refl]|apply dd_cons; exact Di].
  Qed.

  Lemma l1_okl (s : nat -> option (option nat)) chk gs mn mx gr : sclo s -> gok gs ->
    forall lf k q r, okp q -> l1_results s chk gs mn mx gr lf k q = Some r -> okl r.
  Proof.
    intros Hs Hg. induction lf as [|lf IH]; intros k q r Hq E; [discriminate|]. cbn [l1_results] in E.
    assert (Hqg : oks (q, gs)) by (split; assumption).
    destruct (if k <? max_val mx then s q else Some None) as [[q'|]|] eqn:Et; try discriminate.
    - destruct (chk q q'); [|discriminate].
      destruct (l1_results s chk gs mn mx gr lf (k + 1) q') as [it|] eqn:Ei; [|discriminate].
      assert (Hq' : okp q') by (destruct (k <? max_val mx); [eapply Hs; eauto|discriminate]).
      pose proof (IH (k + 1) q' it Hq' Ei) as Hi. inversion E; subst.
      destruct (mn <=? k); [|exact Hi].
      destruct gr; [apply Forall_app; split; [exact Hi|constructor; [exact Hqg|constructor]]|constructor; [exact Hqg|exact Hi]].
    - inversion E; subst. destruct (mn <=? k); [constructor; [exact Hqg|constructor]|constructor].
  Qed.

  Lemma l1_fleO (s s' : nat -> option (option nat)) chk gs mn mx gr : fleO s s' -> sclo s ->
    forall lf lf', (lf <= lf')%nat -> forall k q r, okp q ->
    l1_results s chk gs mn mx gr lf k q = Some r -> l1_results s' chk gs mn mx gr lf' k q = Some r.
  Proof.
    intros Hs Hc. induction lf as [|lf IH]; intros lf' Hle k q r Hq E; [discriminate|].
    destruct lf' as [|lf']; [lia|]. cbn [l1_results] in *.
    assert (Ht : forall t, (if k <? max_val mx then s q else Some None) = Some t ->
                           (if k <? max_val mx then s' q else Some None) = Some t).
    { intros t Et. destruct (k <? max_val mx); [apply Hs; [exact Hq|exact Et]|exact Et]. }
    destruct (if k <? max_val mx then s q else Some None) as [[q'|]|] eqn:Et; try discriminate.
    - rewrite (Ht _ eq_refl). destruct (chk q q'); [|discriminate].
      destruct (l1_results s chk gs mn mx gr lf (k + 1) q') as [it|] eqn:Ei; [|discriminate].
      assert (Hq' : okp q') by (destruct (k <? max_val mx); [eapply Hc; eauto|discriminate]).
      rewrite (IH lf' ltac:(lia) (k + 1) q' it Hq' Ei). exact E.
    - rewrite (Ht _ eq_refl). exact E.
  Qed.
End Guarded.

Section Mono.
  Variable ix : indexer.
  Variables unicode utf16 : bool.
  Variable h : hay.
  Notation IR := (ir_results ix unicode utf16 h).

  Theorem ir_fuel_mono : forall f f', (f <= f')%nat -> forall n fwd, fle (IR f n fwd) (IR f' n fwd).
  Proof.
    induction f as [|f IHf]; intros f' Hle n fwd [p G] r E; [discriminate|].
    destruct f' as [|f']; [lia|]. assert (Hff : (f <= f')%nat) by lia.
    destruct n as [ | |c|bs|bs|cs|l0|a b| | |sol ml|inv ui|id c nm|g ic|b|alts icase|ng bw sg' eg' c|body mn mx gr egs ege|body mn mx gr];
      cbn [ir_results] in *; try exact E.
    - (* Cat *) eapply cat_fle2; [|exact E].
      clear E. induction l0 as [|c l0 IHl]; constructor; [apply IHf; exact Hff|exact IHl].
    - (* Alt *)
      destruct (IR f a fwd (p, G)) as [u|] eqn:Eu; [|discriminate].
      destruct (IR f b fwd (p, G)) as [v|] eqn:Ev; [|discriminate].
      rewrite (IHf f' Hff a fwd _ _ Eu), (IHf f' Hff b fwd _ _ Ev). exact E.
    - (* CaptureGroup *)
      destruct (upd_group id (set_group_start fwd p) G) as [G1|]; [|discriminate].
      destruct (IR f c fwd (p, G1)) as [lc|] eqn:Ec; [|discriminate].
      rewrite (IHf f' Hff c fwd _ _ Ec). exact E.
    - (* Lookaround *)
      destruct (IR f c (negb bw) (p, G)) as [lc|] eqn:Ec; [|discriminate].
      rewrite (IHf f' Hff c (negb bw) _ _ Ec). exact E.
    - (* Loop *)
      eapply loop_fle; [|exact Hff|exact E]. apply IHf. exact Hff.
    - (* Loop1CharBody *)
      destruct (single_step ix unicode h (negb fwd) body fwd) as [s|]; [|discriminate].
      eapply l1_fle; [apply fle_refl|exact Hff|exact E].
  Qed.

  (* ---- the positions at which the text is well-formed, and nodes that stay among them ---- *)
  Variable okp : nat -> Prop.
  Notation oks := (oks okp).
  Notation gok := (gok okp).
  Notation okl := (okl okp).
  Notation clo := (clo okp).
  Notation frelO := (frelO okp).
  Notation fleO := (fleO okp).
  Notation sclo := (sclo okp).

  (* a leaf stays among the good positions, as a node and as the body of a one-character loop *)
  Definition lclo (n : node) : Prop :=
    (forall f fwd, clo (IR f n fwd)) /\
    (forall fwd s, single_step ix unicode h (negb fwd) n fwd = Some s -> sclo s).

  Fixpoint al (n : node) : Prop :=
    match n with
    | NCat l => (fix go (l : list node) : Prop := match l with [] => True | x :: t => al x /\ go t end) l
    | NAlt a b => al a /\ al b
    | NCaptureGroup _ c _ => al c
    | NLookaround _ _ _ _ c => al c
    | NLoop b _ _ _ _ _ => al b
    | NLoop1CharBody b _ _ _ => al b
    | leaf => lclo leaf
    end.

  Lemma al_cat l : al (NCat l) <-> Forall al l.
  Proof.
    cbn [al]. induction l as [|x l IH]; split; intro H.
    - constructor.
    - exact I.
    - destruct H as [Hx Hl]. constructor; [exact Hx|apply IH; exact Hl].
    - inversion H; subst. split; [assumption|apply IH; assumption].
  Qed.

  Lemma al_step n fwd s : al n -> single_step ix unicode h (negb fwd) n fwd = Some s -> sclo s.
  Proof.
    intros Ha Es. destruct n; cbn [al] in Ha; try (exact (proj2 Ha fwd s Es)); discriminate Es.
  Qed.

  Theorem closed_al : forall f n fwd, al n -> clo (IR f n fwd).
  Proof.
    induction f as [|f IHf]; intros n fwd Ha [p G] r Hx E; [discriminate|].
    destruct n as [ | |c|bs|bs|cs|l0|a b| | |sol ml|inv ui|id c nm|g ic|b|alts icase|ng bw sg' eg' c|body mn mx gr egs ege|body mn mx gr];
      cbn [al] in Ha; try (exact (proj1 Ha (S f) fwd (p, G) r Hx E)); cbn [ir_results] in E.
    - (* Cat *) eapply (cat_okl okp); [|constructor; [exact Hx|constructor]|exact E].
      apply al_cat in Ha. eapply Forall_impl; [|exact Ha]. intros c Hc. apply IHf. exact Hc.
    - (* Alt *)
      destruct (IR f a fwd (p, G)) as [u|] eqn:Eu; [|discriminate].
      destruct (IR f b fwd (p, G)) as [v|] eqn:Ev; [|discriminate]. inversion E; subst.
      apply Forall_app. split; [eapply (IHf a fwd (proj1 Ha)); eauto|eapply (IHf b fwd (proj2 Ha)); eauto].
    - (* CaptureGroup *)
      destruct (upd_group id (set_group_start fwd p) G) as [G1|] eqn:Eg1; [|discriminate].
      destruct (IR f c fwd (p, G1)) as [lc|] eqn:Ec; [|discriminate].
      assert (Hx1 : oks (p, G1)).
      { split; [exact (proj1 Hx)|]. eapply (gok_upd okp); [exact Eg1|exact (proj2 Hx)|]. intros gd Hgd. apply gdok_start; [exact (proj1 Hx)|exact Hgd]. }
      assert (Hlc : okl lc) by (eapply (IHf c fwd Ha); [|exact Ec]; exact Hx1).
      eapply (obindm_okl okp oks); [|exact Hlc|exact E].
      intros y r0 Hy Er. cbn beta in Er. destruct (upd_group id (set_group_end fwd (fst y)) (snd y)) as [g2|] eqn:Eg2; [|discriminate Er].
      inversion Er; subst. constructor; [|constructor]. split; [exact (proj1 Hy)|].
      eapply (gok_upd okp); [exact Eg2|exact (proj2 Hy)|]. intros gd Hgd. apply gdok_end; [exact (proj1 Hy)|exact Hgd].
    - (* Lookaround *)
      destruct (IR f c (negb bw) (p, G)) as [[|y lc]|] eqn:Ec; [| |discriminate].
      + inversion E; subst. destruct ng; [constructor; [exact Hx|constructor]|constructor].
      + inversion E; subst. destruct ng; [constructor|].
        pose proof (IHf c (negb bw) Ha (p, G) (y :: lc) Hx Ec) as Hc. inversion Hc as [|y0 l0 Hy _]; subst.
        constructor; [|constructor]. split; [exact (proj1 Hx)|exact (proj2 Hy)].
    - (* Loop *) eapply (loop_okl okp); [|exact Hx|exact E]. apply IHf. exact Ha.
    - (* Loop1CharBody *)
      destruct (single_step ix unicode h (negb fwd) body fwd) as [s|] eqn:Es; [|discriminate].
      eapply (l1_okl okp); [eapply al_step; eauto|exact (proj2 Hx)|exact (proj1 Hx)|exact E].
  Qed.

  (* ---- the refinement relation ---- *)
  Definition rres (fwd : bool) (n n' : node) : Prop :=
    exists K, forall f, frelO (IR f n fwd) (IR (f + K) n' fwd).
  (* the reading of a node as the body of a one-character loop *)
  Definition rstep (fwd : bool) (n n' : node) : Prop :=
    l1_body_ok n = true ->
    l1_body_ok n' = true /\
    forall s, single_step ix unicode h (negb fwd) n fwd = Some s ->
      exists s', single_step ix unicode h (negb fwd) n' fwd = Some s' /\ fleO s s'.
  Definition ref (fwd : bool) (n n' : node) : Prop := rres fwd n n' /\ rstep fwd n n'.

  Lemma ref_refl fwd n : ref fwd n n.
  Proof.
    split.
    - exists 0%nat. intro f. rewrite Nat.add_0_r. apply frelP_refl.
    - intro Hl. split; [exact Hl|]. intros s Es. exists s. split; [exact Es|apply fleO_refl].
  Qed.

  Lemma ref_trans fwd a b c : ref fwd a b -> ref fwd b c -> ref fwd a c.
  Proof.
    intros [[K1 H1] S1] [[K2 H2] S2]. split.
    - exists (K1 + K2)%nat. intro f. rewrite Nat.add_assoc. eapply frelP_trans; [apply H1|apply H2].
    - intro Hl. destruct (S1 Hl) as [Hl1 T1]. destruct (S2 Hl1) as [Hl2 T2]. split; [exact Hl2|].
      intros s Es. destruct (T1 s Es) as [s1 [E1 L1]]. destruct (T2 s1 E1) as [s2 [E2 L2]].
      exists s2. split; [exact E2|eapply fleO_trans; eauto].
  Qed.

  (* rres with more slack *)
  Lemma rres_at fwd n n' K : (forall f, frelO (IR f n fwd) (IR (f + K) n' fwd)) ->
    forall K', (K <= K')%nat -> forall f, frelO (IR f n fwd) (IR (f + K') n' fwd).
  Proof.
    intros H K' Hle f. eapply frelP_trans; [apply H|]. apply fle_frelP. apply ir_fuel_mono. lia.
  Qed.

  (* a node that is not a one-character leaf has no obligation as a loop body *)
  Lemma rstep_nol1 fwd n n' : l1_body_ok n = false -> rstep fwd n n'.
  Proof. intros Hn Hl. rewrite Hn in Hl. discriminate. Qed.

  Lemma forall2_slack fwd : forall l l', Forall2 (rres fwd) l l' ->
    exists K, Forall2 (fun c c' => forall f, frelO (IR f c fwd) (IR (f + K) c' fwd)) l l'.
  Proof.
    induction 1 as [|c c' l l' [K1 H1] Hl [K2 IH]]; [exists 0%nat; constructor|].
    exists (Nat.max K1 K2). constructor.
    - apply (rres_at fwd c c' K1 H1). lia.
    - eapply Forall2_imp; [|exact IH]. intros a b Hab. apply (rres_at fwd a b K2 Hab). lia.
  Qed.

  Lemma Forall2_and_left {A B} (P : A -> B -> Prop) (Q : A -> Prop) : forall l l',
    Forall2 P l l' -> Forall Q l -> Forall2 (fun a b => P a b /\ Q a) l l'.
  Proof. induction 1; intro HQ; inversion HQ; subst; constructor; auto. Qed.

  Lemma ref_cat fwd l l' : Forall al l -> Forall2 (ref fwd) l l' -> ref fwd (NCat l) (NCat l').
  Proof.
    intros Hal HF. split; [|apply rstep_nol1; reflexivity].
    assert (HF' : Forall2 (rres fwd) l l') by (eapply Forall2_imp; [|exact HF]; intros a b [Hab _]; exact Hab).
    destruct (forall2_slack fwd l l' HF') as [K HK]. exists K. intros [|f] [p G] r Hx E; [discriminate|].
    cbn [Nat.add ir_results] in *.
    eapply (cat_frelO okp); [|constructor; [exact Hx|constructor]|apply dd_refl|exact E].
    eapply Forall2_imp; [|apply (Forall2_and_left _ al _ _ HK Hal)].
    intros a b [Hab Ha]. split; [apply Hab|apply closed_al; exact Ha].
  Qed.

  Lemma ref_alt fwd a a' b b' : ref fwd a a' -> ref fwd b b' -> ref fwd (NAlt a b) (NAlt a' b').
  Proof.
    intros [[K1 H1] _] [[K2 H2] _]. split; [|apply rstep_nol1; reflexivity].
    exists (Nat.max K1 K2). intros [|f] [p G] r Hx E; [discriminate|].
    cbn [Nat.add ir_results] in *.
    destruct (IR f a fwd (p, G)) as [u|] eqn:Eu; [|discriminate].
    destruct (IR f b fwd (p, G)) as [v|] eqn:Ev; [|discriminate].
    destruct (rres_at fwd a a' K1 H1 (Nat.max K1 K2) ltac:(lia) f _ _ Hx Eu) as [u' [Eu' Du]].
    destruct (rres_at fwd b b' K2 H2 (Nat.max K1 K2) ltac:(lia) f _ _ Hx Ev) as [v' [Ev' Dv]].
    rewrite Eu', Ev'. inversion E; subst. eexists. split; [reflexivity|apply dd_app; assumption].
  Qed.

  Lemma ref_cg fwd id nm c c' : al c -> ref fwd c c' -> ref fwd (NCaptureGroup id c nm) (NCaptureGroup id c' nm).
  Proof.
    intros Ha [[K H1] _]. split; [|apply rstep_nol1; reflexivity].
    exists K. intros [|f] [p G] r Hx E; [discriminate|].
    cbn [Nat.add ir_results] in *.
    destruct (upd_group id (set_group_start fwd p) G) as [G1|] eqn:Eg1; [|discriminate].
    destruct (IR f c fwd (p, G1)) as [lc|] eqn:Ec; [|discriminate].
    assert (Hx1 : oks (p, G1)).
    { split; [exact (proj1 Hx)|]. eapply (gok_upd okp); [exact Eg1|exact (proj2 Hx)|]. intros gd Hgd. apply gdok_start; [exact (proj1 Hx)|exact Hgd]. }
    destruct (H1 f _ _ Hx1 Ec) as [lc' [Ec' Dc]]. rewrite Ec'.
    eapply (obindm_frelP oks); [apply frelP_refl|eapply closed_al; [exact Ha|exact Hx1|exact Ec]|exact Dc|exact E].
  Qed.

  Lemma ref_look fwd ng bw sg eg c c' : ref (negb bw) c c' ->
    ref fwd (NLookaround ng bw sg eg c) (NLookaround ng bw sg eg c').
  Proof.
    intros [[K H1] _]. split; [|apply rstep_nol1; reflexivity].
    exists K. intros [|f] [p G] r Hx E; [discriminate|].
    cbn [Nat.add ir_results] in *.
    destruct (IR f c (negb bw) (p, G)) as [lc|] eqn:Ec; [|discriminate].
    destruct (H1 f _ _ Hx Ec) as [lc' [Ec' Dc]]. rewrite Ec'. pose proof (dd_head _ _ Dc) as Hh.
    exists r. split; [|apply dd_refl].
    destruct lc as [|y lc]; destruct lc' as [|y' lc']; try contradiction; [exact E|subst y'; exact E].
  Qed.

  Lemma ref_loop fwd body body' mn mx gr egs ege : al body -> ref fwd body body' ->
    ref fwd (NLoop body mn mx gr egs ege) (NLoop body' mn mx gr egs ege).
  Proof.
    intros Ha [[K H1] _]. split; [|apply rstep_nol1; reflexivity].
    exists K. intros [|f] [p G] r Hx E; [discriminate|].
    cbn [Nat.add ir_results] in *.
    eapply (loop_frelO okp); [apply H1|apply closed_al; exact Ha| |exact Hx|exact E]. lia.
  Qed.

  Lemma ref_l1 fwd body body' mn mx gr : l1_body_ok body = true -> al body -> ref fwd body body' ->
    ref fwd (NLoop1CharBody body mn mx gr) (NLoop1CharBody body' mn mx gr).
  Proof.
    intros Hl Ha [_ S1]. split; [|apply rstep_nol1; reflexivity].
    exists 0%nat. intros [|f] [p G] r Hx E; [discriminate|]. rewrite Nat.add_0_r. cbn [ir_results] in *.
    destruct (single_step ix unicode h (negb fwd) body fwd) as [s|] eqn:Es; [|discriminate].
    destruct (S1 Hl) as [_ T1]. destruct (T1 s Es) as [s2 [Es2 Hss]]. rewrite Es2.
    exists r. split; [|apply dd_refl].
    eapply (l1_fleO okp); [exact Hss|eapply al_step; eauto| |exact (proj1 Hx)|exact E]. lia.
  Qed.
End Mono.
