(* OptTextAscii.v — the text hypotheses of the optimizer theorems (OptTop.text_ok) hold of every byte string when
   the input is read through the ASCII indexer (the *_ascii entry points): the element at a position is the byte
   there, and every one-character step moves by exactly one byte inside the text. *)
From RV Require Import Base.
From RV.Model Require Import Utf8 Indexer CodePointSet Insn IR Optimizer Unfold Emit.
From RV.Spec Require Import IRSem IRShape.
From RV.Proofs Require Import NodeInd IndexerFacts OptDD OptMono OptWalk OptRel OptTop.

Section AsciiText.
  Variable h : hay.
  Hypothesis Hb : bytes_ok h.
  Variable unicode : bool.
  Notation ix := ascii_indexer.

  Lemma as_cnext_byte fwd q : cnext ix fwd h q = next_byte fwd h q.
  Proof.
    unfold cnext, next_byte. destruct fwd; cbn [ix_next_right ix_next_left ascii_indexer].
    - unfold as_next_right, peek_byte_right. destruct (q =? length h)%nat; [reflexivity|].
      destruct (getb h q); reflexivity.
    - unfold as_next_left, peek_byte_left. destruct (q =? 0)%nat eqn:E0; [reflexivity|].
      unfold psub. apply Nat.eqb_neq in E0. replace (1 <=? q)%nat with true by (symmetry; apply Nat.leb_le; lia).
      cbn [bindR]. destruct (getb h (q - 1)); reflexivity.
  Qed.

  Lemma as_byte_step (fwd : bool) (q : nat) b (q1 : nat) : next_byte fwd h q = Ok (Some (b, q1)) ->
    b < 256 /\ if fwd then q1 = S q /\ (q1 <= length h)%nat else q = S q1 /\ (q <= length h)%nat.
  Proof.
    unfold next_byte. destruct fwd.
    - unfold peek_byte_right. destruct (q =? length h)%nat; cbn [bindR]; [discriminate|].
      destruct (getb h q) as [e|x] eqn:Eg; cbn [bindR]; [discriminate|]. intro H. inversion H; subst.
      split; [apply N.ltb_lt; eapply getb_ok; eauto|]. split; [reflexivity|].
      unfold getb in Eg. destruct (nth_error h q) eqn:En; [|discriminate].
      assert (q < length h)%nat by (apply nth_error_Some; congruence). lia.
    - unfold peek_byte_left. destruct (q =? 0)%nat eqn:E0; cbn [bindR]; [discriminate|]. apply Nat.eqb_neq in E0.
      unfold psub. replace (1 <=? q)%nat with true by (symmetry; apply Nat.leb_le; lia). cbn [bindR].
      destruct (getb h (q - 1)) as [e|x] eqn:Eg; cbn [bindR]; [discriminate|]. intro H. inversion H; subst.
      split; [apply N.ltb_lt; eapply getb_ok; eauto|]. split; [lia|].
      unfold getb in Eg. destruct (nth_error h (q - 1)) eqn:En; [|discriminate].
      assert (q - 1 < length h)%nat by (apply nth_error_Some; congruence). lia.
  Qed.

  Lemma as_step_inv (fwd : bool) (q q' : nat) : (if fwd then q' = S q /\ (q' <= length h)%nat else q = S q' /\ (q <= length h)%nat) ->
    step_inv ix h fwd q q' = true.
  Proof.
    intro H. unfold step_inv. cbn [ix_next_left_pos ix_next_right_pos ascii_indexer].
    unfold as_next_left_pos, as_next_right_pos, try_move_left, try_move_right. destruct fwd.
    - destruct H as [-> Hle].
      replace (S q <? 1)%nat with false by (symmetry; apply Nat.ltb_ge; lia).
      replace (q <=? length h)%nat with true by (symmetry; apply Nat.leb_le; lia). cbn [bindR].
      replace (length h - q <? 1)%nat with false by (symmetry; apply Nat.ltb_ge; lia).
      replace (S q - 1)%nat with q by lia. replace (q + 1)%nat with (S q) by lia.
      rewrite !Nat.eqb_refl. cbn [andb].
      replace (q <=? length h)%nat with true by (symmetry; apply Nat.leb_le; lia).
      replace (S q <=? length h)%nat with true by (symmetry; apply Nat.leb_le; lia).
      replace (q <? S q)%nat with true by (symmetry; apply Nat.ltb_lt; lia). reflexivity.
    - destruct H as [-> Hle].
      replace (q' <=? length h)%nat with true by (symmetry; apply Nat.leb_le; lia). cbn [bindR].
      replace (length h - q' <? 1)%nat with false by (symmetry; apply Nat.ltb_ge; lia).
      replace (S q' <? 1)%nat with false by (symmetry; apply Nat.ltb_ge; lia).
      replace (q' + 1)%nat with (S q') by lia. replace (S q' - 1)%nat with q' by lia.
      rewrite !Nat.eqb_refl. cbn [andb].
      replace (S q' <=? length h)%nat with true by (symmetry; apply Nat.leb_le; lia).
      replace (q' <=? length h)%nat with true by (symmetry; apply Nat.leb_le; lia).
      replace (q' <? S q')%nat with true by (symmetry; apply Nat.ltb_lt; lia). reflexivity.
  Qed.

  Lemma as_next_if_step fwd q t q' : next_if ix fwd h q t = Ok (Some q') -> step_inv ix h fwd q q' = true.
  Proof.
    unfold next_if. rewrite as_cnext_byte. destruct (next_byte fwd h q) as [e|[[b q1]|]] eqn:En; cbn [bindR]; try discriminate.
    destruct (t b); [|discriminate]. intro H. inversion H; subst. apply as_step_inv. apply (as_byte_step fwd q b q' En).
  Qed.

  Lemma as_byte_if_step fwd q t q' : byte_if fwd h q t = Ok (Some q') -> step_inv ix h fwd q q' = true.
  Proof.
    unfold byte_if. destruct (next_byte fwd h q) as [e|[[b q1]|]] eqn:En; cbn [bindR]; try discriminate.
    destruct (t b); [|discriminate]. intro H. inversion H; subst. apply as_step_inv. apply (as_byte_step fwd q b q' En).
  Qed.

  (* every position counts as well-formed *)
  Theorem text_ok_ascii : text_ok ix unicode h (fun _ => True).
  Proof.
    split; [intros; exact I|]. split; [intros; exact I|]. split; [|split; [|split]].
    - intros fwd p c p' _ E. rewrite as_cnext_byte in E. destruct (as_byte_step fwd p c p' E) as [Hc _].
      unfold CODE_POINT_MAX. lia.
    - intros fwd q _. rewrite as_cnext_byte. destruct (next_byte fwd h q) as [e|[[b q1]|]] eqn:En; [exact I| |reflexivity].
      destruct (b <? 128) eqn:E128; [reflexivity|]. exists b, q1. split; [reflexivity|]. apply N.ltb_ge. exact E128.
    - intros fwd q _. rewrite as_cnext_byte. destruct (next_byte fwd h q) as [e|[[b q1]|]] eqn:En; [exact I| |reflexivity].
      destruct (b <? 128) eqn:E128; [reflexivity|]. exists b, q1. split; [reflexivity|]. apply N.ltb_ge. exact E128.
    - intros body fwd s q q' H1 _ Es Esq.
      destruct body; try discriminate H1; unfold single_step, leaf_code in Es.
      + (* Char *)
        inversion Es; subst s. cbn [run_insns] in Esq. unfold char_pike in Esq.
        destruct (next_if ix fwd h q (N.eqb c)) as [e|[p1|]] eqn:En; try discriminate.
        cbn [run_insns] in Esq. inversion Esq; subst. eapply as_next_if_step; eauto.
      + (* CharSet *)
        unfold emit_char_set in Es. destruct cs as [|c0 cs]; [discriminate H1|].
        destruct (4 <? length (c0 :: cs))%nat; [discriminate|]. inversion Es; subst s.
        cbn [run_insns match1] in Esq.
        match type of Esq with context [next_if ?a ?b ?c ?d ?t] => destruct (next_if a b c d t) as [e|[p1|]] eqn:En end; try discriminate.
        cbn [run_insns] in Esq. inversion Esq; subst. eapply as_next_if_step; eauto.
      + (* MatchAny *)
        inversion Es; subst s. cbn [run_insns match1] in Esq.
        match type of Esq with context [next_if ?a ?b ?c ?d ?t] => destruct (next_if a b c d t) as [e|[p1|]] eqn:En end; try discriminate.
        cbn [run_insns] in Esq. inversion Esq; subst. eapply as_next_if_step; eauto.
      + inversion Es; subst s. cbn [run_insns match1] in Esq.
        match type of Esq with context [next_if ?a ?b ?c ?d ?t] => destruct (next_if a b c d t) as [e|[p1|]] eqn:En end; try discriminate.
        cbn [run_insns] in Esq. inversion Esq; subst. eapply as_next_if_step; eauto.
      + (* Bracket *)
        destruct (bracket_as_ascii b) as [bm|].
        * inversion Es; subst s. cbn [run_insns match1] in Esq.
          destruct (byte_if fwd h q (ascii_bitmap_contains bm)) as [e|[p1|]] eqn:En; try discriminate.
          cbn [run_insns] in Esq. inversion Esq; subst. eapply as_byte_if_step; eauto.
        * inversion Es; subst s.
          destruct (next_if ix fwd h q (bracket_matches b)) as [e|[p1|]] eqn:En; try discriminate.
          inversion Esq; subst. eapply as_next_if_step; eauto.
  Qed.

  (* and every node stays among them *)
  Lemma al_all_ascii : forall utf16 n, al ix unicode utf16 h (fun _ => True) n.
  Proof.
    intros utf16. induction n as [n Hleaf|l H|a b IHa IHb|id c nm IHc|neg bw sg eg c IHc|b mn mx g egs ege IHb|b mn mx g IHb] using node_ind2.
    - destruct n; try contradiction; (split; [intros f fwd x r _ _; apply Forall_forall; intros; exact I|intros lb fwd s _ q q' _ _; exact I]).
    - apply al_cat. exact H.
    - split; assumption.
    - exact IHc.
    - exact IHc.
    - exact IHb.
    - exact IHb.
  Qed.
End AsciiText.
