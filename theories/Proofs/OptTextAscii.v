(* OptTextAscii.v — the text hypotheses of the optimizer theorems (OptTop.text_ok, text_enc) are discharged where no
   UTF-8 theory is needed: for an indexer that reads the text bytewise (the element at a position is the byte there,
   every step moves by one byte): the ASCII indexer on every byte string (the *_ascii entry points), and the UTF-8
   indexer on ASCII text.  The well-formed positions are all positions of the text; every node stays among them
   (IRRange.ir_range).  text_enc (a literal is its UTF-8 bytes) needs the text to be ASCII in both cases: through the
   ASCII indexer a non-ASCII literal is compared with a single byte. *)
From RV Require Import Base.
From RV.Model Require Import Utf8 Indexer CodePointSet Insn IR Optimizer Unfold Emit.
From RV.Spec Require Import IRSem IRShape.
From RV.Proofs Require Import NodeInd IndexerFacts IRRange MatchRange AsciiUtf8 OptDD OptMono OptWalk OptRel OptBrackets OptBytes OptTop.

Section Bytewise.
  Variable ix : indexer.
  Variable h : hay.
  Variable unicode : bool.
  Notation len := (length h).
  Hypothesis Hb : bytes_ok h.
  Hypothesis HA1 : forall fwd q, cnext ix fwd h q = next_byte fwd h q.
  Hypothesis HA2r : forall q, (q <= len)%nat -> ix_next_right_pos ix h q = try_move_right h q 1.
  Hypothesis HA2l : forall q, (q <= len)%nat -> ix_next_left_pos ix h q = try_move_left h q 1.
  Hypothesis Hcur : forall (h' : hay) fwd p c p', (p <= length h')%nat -> cnext ix fwd h' p = Ok (Some (c, p')) -> (p' <= length h')%nat.
  Definition inside (q : nat) : Prop := (q <= len)%nat.

  Lemma bw_byte_step (fwd : bool) (q : nat) b (q1 : nat) : next_byte fwd h q = Ok (Some (b, q1)) ->
    b < 256 /\ if fwd then q1 = S q /\ (q1 <= len)%nat else q = S q1 /\ (q <= len)%nat.
  Proof.
    unfold next_byte. destruct fwd.
    - unfold peek_byte_right. destruct (q =? len)%nat; cbn [bindR]; [discriminate|].
      destruct (getb h q) as [e|x] eqn:Eg; cbn [bindR]; [discriminate|]. intro H. inversion H; subst.
      split; [apply N.ltb_lt; eapply getb_ok; eauto|]. split; [reflexivity|].
      unfold getb in Eg. destruct (nth_error h q) eqn:En; [|discriminate].
      assert (q < len)%nat by (apply nth_error_Some; congruence). lia.
    - unfold peek_byte_left. destruct (q =? 0)%nat eqn:E0; cbn [bindR]; [discriminate|]. apply Nat.eqb_neq in E0.
      unfold psub. replace (1 <=? q)%nat with true by (symmetry; apply Nat.leb_le; lia). cbn [bindR].
      destruct (getb h (q - 1)) as [e|x] eqn:Eg; cbn [bindR]; [discriminate|]. intro H. inversion H; subst.
      split; [apply N.ltb_lt; eapply getb_ok; eauto|]. split; [lia|].
      unfold getb in Eg. destruct (nth_error h (q - 1)) eqn:En; [|discriminate].
      assert (q - 1 < len)%nat by (apply nth_error_Some; congruence). lia.
  Qed.

  Lemma bw_step_inv (fwd : bool) (q q' : nat) : (if fwd then q' = S q /\ (q' <= len)%nat else q = S q' /\ (q <= len)%nat) ->
    step_inv ix h fwd q q' = true.
  Proof.
    intro H. unfold step_inv. destruct fwd.
    - destruct H as [-> Hle]. rewrite (HA2l (S q) Hle), (HA2r q ltac:(lia)). unfold try_move_left, try_move_right.
      replace (S q <? 1)%nat with false by (symmetry; apply Nat.ltb_ge; lia).
      replace (q <=? len)%nat with true by (symmetry; apply Nat.leb_le; lia). cbn [bindR].
      replace (len - q <? 1)%nat with false by (symmetry; apply Nat.ltb_ge; lia).
      replace (S q - 1)%nat with q by lia. replace (q + 1)%nat with (S q) by lia.
      rewrite !Nat.eqb_refl. cbn [andb].
      replace (q <=? len)%nat with true by (symmetry; apply Nat.leb_le; lia).
      replace (S q <=? len)%nat with true by (symmetry; apply Nat.leb_le; lia).
      replace (q <? S q)%nat with true by (symmetry; apply Nat.ltb_lt; lia). reflexivity.
    - destruct H as [-> Hle]. rewrite (HA2r q' ltac:(lia)), (HA2l (S q') Hle). unfold try_move_left, try_move_right.
      replace (q' <=? len)%nat with true by (symmetry; apply Nat.leb_le; lia). cbn [bindR].
      replace (len - q' <? 1)%nat with false by (symmetry; apply Nat.ltb_ge; lia).
      replace (S q' <? 1)%nat with false by (symmetry; apply Nat.ltb_ge; lia).
      replace (q' + 1)%nat with (S q') by lia. replace (S q' - 1)%nat with q' by lia.
      rewrite !Nat.eqb_refl. cbn [andb].
      replace (S q' <=? len)%nat with true by (symmetry; apply Nat.leb_le; lia).
      replace (q' <=? len)%nat with true by (symmetry; apply Nat.leb_le; lia).
      replace (q' <? S q')%nat with true by (symmetry; apply Nat.ltb_lt; lia). reflexivity.
  Qed.

  Lemma bw_next_if_step fwd q t q' : next_if ix fwd h q t = Ok (Some q') -> step_inv ix h fwd q q' = true.
  Proof.
    unfold next_if. rewrite HA1. destruct (next_byte fwd h q) as [e|[[b q1]|]] eqn:En; cbn [bindR]; try discriminate.
    destruct (t b); [|discriminate]. intro H. inversion H; subst. apply bw_step_inv. apply (bw_byte_step fwd q b q' En).
  Qed.

  Lemma bw_byte_if_step fwd q t q' : byte_if fwd h q t = Ok (Some q') -> step_inv ix h fwd q q' = true.
  Proof.
    unfold byte_if. destruct (next_byte fwd h q) as [e|[[b q1]|]] eqn:En; cbn [bindR]; try discriminate.
    destruct (t b); [|discriminate]. intro H. inversion H; subst. apply bw_step_inv. apply (bw_byte_step fwd q b q' En).
  Qed.

  Theorem text_ok_bytewise : text_ok ix unicode h inside.
  Proof.
    split; [intros q Hq; exact Hq|]. split; [|split; [|split; [|split; [|split; [|split]]]]].
    - intros fwd p c p' Hp E. eapply Hcur; eauto.
    - intros p p' Hp E. rewrite (HA2r p Hp) in E. unfold try_move_right in E. unfold inside in *.
      replace (p <=? len)%nat with true in E by (symmetry; apply Nat.leb_le; lia). cbn [bindR] in E.
      destruct (Nat.ltb_spec (len - p) 1); inversion E; subst. lia.
    - (* replaying a capture stays inside the text *)
      intros fwd p rs re e Hp _ _ E. unfold inside in *. unfold subrange_eq in E.
      destruct (re <? rs)%nat; [discriminate|]. destruct (len <? re)%nat; [discriminate|]. destruct fwd.
      + unfold try_move_right in E. destruct (p <=? len)%nat; cbn [bindR] in E; [|discriminate].
        destruct (Nat.ltb_spec (len - p) (re - rs)); cbn [bindR] in E; [discriminate|].
        destruct (bytes_eqb _ _); [|discriminate]. injection E as He. lia.
      + unfold try_move_left in E. destruct (Nat.ltb_spec p (re - rs)); cbn [bindR] in E; [discriminate|].
        destruct (bytes_eqb _ _); [|discriminate]. injection E as He. lia.
    - intros fwd p c p' _ E. rewrite HA1 in E. destruct (bw_byte_step fwd p c p' E) as [Hc _].
      unfold CODE_POINT_MAX. lia.
    - intros fwd q _. rewrite HA1. destruct (next_byte fwd h q) as [e|[[b q1]|]] eqn:En; [exact I| |reflexivity].
      destruct (b <? 128) eqn:E128; [reflexivity|]. exists b, q1. split; [reflexivity|]. apply N.ltb_ge. exact E128.
    - intros fwd q _. rewrite HA1. destruct (next_byte fwd h q) as [e|[[b q1]|]] eqn:En; [exact I| |reflexivity].
      destruct (b <? 128) eqn:E128; [reflexivity|]. exists b, q1. split; [reflexivity|]. apply N.ltb_ge. exact E128.
    - intros body fwd s q q' H1 _ Es Esq.
      destruct body; try discriminate H1; unfold single_step, leaf_code in Es.
      + inversion Es; subst s. cbn [run_insns] in Esq. unfold char_pike in Esq.
        destruct (next_if ix fwd h q (N.eqb c)) as [e|[p1|]] eqn:En; try discriminate.
        cbn [run_insns] in Esq. inversion Esq; subst. eapply bw_next_if_step; eauto.
      + unfold emit_char_set in Es. destruct cs as [|c0 cs]; [discriminate H1|].
        destruct (4 <? length (c0 :: cs))%nat; [discriminate|]. inversion Es; subst s.
        cbn [run_insns match1] in Esq.
        match type of Esq with context [next_if ?a ?b ?c ?d ?t] => destruct (next_if a b c d t) as [e|[p1|]] eqn:En end; try discriminate.
        cbn [run_insns] in Esq. inversion Esq; subst. eapply bw_next_if_step; eauto.
      + inversion Es; subst s. cbn [run_insns match1] in Esq.
        match type of Esq with context [next_if ?a ?b ?c ?d ?t] => destruct (next_if a b c d t) as [e|[p1|]] eqn:En end; try discriminate.
        cbn [run_insns] in Esq. inversion Esq; subst. eapply bw_next_if_step; eauto.
      + inversion Es; subst s. cbn [run_insns match1] in Esq.
        match type of Esq with context [next_if ?a ?b ?c ?d ?t] => destruct (next_if a b c d t) as [e|[p1|]] eqn:En end; try discriminate.
        cbn [run_insns] in Esq. inversion Esq; subst. eapply bw_next_if_step; eauto.
      + destruct (bracket_as_ascii b) as [bm|].
        * inversion Es; subst s. cbn [run_insns match1] in Esq.
          destruct (byte_if fwd h q (ascii_bitmap_contains bm)) as [e|[p1|]] eqn:En; try discriminate.
          cbn [run_insns] in Esq. inversion Esq; subst. eapply bw_byte_if_step; eauto.
        * inversion Es; subst s.
          destruct (next_if ix fwd h q (bracket_matches b)) as [e|[p1|]] eqn:En; try discriminate.
          inversion Esq; subst. eapply bw_next_if_step; eauto.
  Qed.

  (* a leaf does not touch the capture slots *)
  Definition is_leaf (n : node) : Prop :=
    match n with
    | NCat _ | NAlt _ _ | NCaptureGroup _ _ _ | NLookaround _ _ _ _ _ | NLoop _ _ _ _ _ _ | NLoop1CharBody _ _ _ _ => False
    | _ => True
    end.

  Lemma obindm_same_groups {A} (g : A -> option (list mst)) G : (forall a r, g a = Some r -> Forall (fun y => snd y = G) r) ->
    forall xs ys, obindm g xs = Some ys -> Forall (fun y => snd y = G) ys.
  Proof.
    intro Hg. induction xs as [|x xs IH]; intros ys E; cbn [obindm] in E; [inversion E; constructor|].
    destruct (g x) as [a|] eqn:Ea; [|discriminate]. destruct (obindm g xs) as [b|] eqn:Eb; [|discriminate].
    inversion E; subst. apply Forall_app. split; [eapply Hg; eauto|apply IH; reflexivity].
  Qed.

  Lemma results_of_groups x r l : results_of x r = Some l -> Forall (fun y => snd y = snd x) l.
  Proof. destruct r as [[p'|]|]; intro E; inversion E; subst; repeat constructor. Qed.

  Lemma leaf_groups utf16 n : is_leaf n -> forall f fwd p G r,
    ir_results ix unicode utf16 h f n fwd (p, G) = Some r -> Forall (fun y => snd y = G) r.
  Proof.
    intros Hl [|f] fwd p G r E; [discriminate|].
    destruct n; try contradiction; cbn [ir_results] in E;
      try (apply (results_of_groups (p, G) _ r) in E; exact E);
      try (destruct (leaf_code (negb fwd) _) as [code|]; [apply (results_of_groups (p, G) _ r) in E; exact E|discriminate]).
    - inversion E; subst. repeat constructor.
    - inversion E; subst. repeat constructor.
    - unfold cond_results in E. match type of E with match ?c with _ => _ end = _ => destruct c as [e|[|]] end; inversion E; subst; repeat constructor.
    - unfold cond_results in E. match type of E with match ?c with _ => _ end = _ => destruct c as [e|[|]] end; inversion E; subst; repeat constructor.
    - destruct (group =? 0); [discriminate|]. destruct (nth_error G (N.to_nat (group - 1))) as [gd|]; [|discriminate].
      destruct (gd_range gd) as [[rs re]|]; [|inversion E; subst; repeat constructor].
      destruct (backref_match ix (dummy_prog unicode) icase fwd h p rs re) as [e|[p'|]]; inversion E; subst; repeat constructor.
    - destruct (bracket_as_ascii b); [apply (results_of_groups (p, G) _ r) in E; exact E|].
      destruct (next_if ix fwd h p (bracket_matches b)) as [e|[p'|]]; inversion E; subst; repeat constructor.
    - unfold strset_results in E. eapply (obindm_same_groups _ G); [|exact E]. intros a r0 Ea. cbn beta in Ea.
      destruct (if utf16 then None else lower_code_point_sequence a icase unicode) as [pieces|]; [|discriminate].
      apply (results_of_groups (p, G) _ r0) in Ea. exact Ea.
  Qed.

  (* every node stays inside the text *)
  Lemma lclo_range utf16 n : is_leaf n -> lclo ix unicode utf16 h inside n.
  Proof.
    intro Hl. split.
    - intros f fwd [p G] r [Hp HG] E. cbn [fst snd] in Hp, HG.
      pose proof (ir_range ix unicode utf16 h Hcur f n fwd p G r Hp E) as Hr.
      pose proof (leaf_groups utf16 n Hl f fwd p G r E) as Hg. unfold okpos in Hr. unfold okl. rewrite Forall_forall in *.
      intros y Hy. split; [apply Hr; exact Hy|rewrite (Hg y Hy); exact HG].
    - intros fwd s Es q q' Hq E. unfold single_step in Es. destruct (leaf_code (negb fwd) n) as [code|] eqn:Ec.
      + injection Es as Hs. subst s. eapply (run_insns_range ix unicode h Hcur code fwd q q' Hq E).
      + destruct n; try discriminate Es. injection Es as Hs. subst s. cbn beta in E.
        destruct (next_if ix fwd h q (bracket_matches b)) as [e|[q1|]] eqn:En; inversion E; subst.
        eapply (next_if_range ix h Hcur); eauto.
  Qed.

  Lemma al_range utf16 : forall n, al ix unicode utf16 h inside n.
  Proof.
    induction n as [n Hleaf|l H|a b IHa IHb|id c nm IHc|neg bw sg eg c IHc|b mn mx g egs ege IHb|b mn mx g IHb] using node_ind2.
    - destruct n; try contradiction; apply lclo_range; exact I.
    - apply al_cat. exact H.
    - split; assumption.
    - exact IHc.
    - exact IHc.
    - exact IHb.
    - exact IHb.
  Qed.

  (* ---- a literal is its UTF-8 bytes: on ASCII text ---- *)
  Hypothesis Hascii : Forall (fun b => b < 128) h.

  Lemma bit7_low b : b < 128 -> N.testbit b 7 = false.
  Proof.
    intro Hlt. destruct (N.eq_dec b 0) as [->|Hne]; [reflexivity|].
    apply N.bits_above_log2. apply N.log2_lt_pow2; [lia|exact Hlt].
  Qed.

  Lemma enc_head_high c : 128 <= c -> exists x t, utf8_encode c = x :: t /\ N.testbit x 7 = true.
  Proof.
    intro Hc. unfold utf8_encode. replace (c <? 128) with false by (symmetry; apply N.ltb_ge; exact Hc).
    destruct (c <? 2048); [|destruct (c <? 65536)]; eexists; eexists; (split; [reflexivity|]); rewrite N.lor_spec; reflexivity.
  Qed.

  Lemma nth_ascii q b : nth_error h q = Some b -> b < 128.
  Proof. intro E. rewrite Forall_forall in Hascii. apply Hascii. eapply nth_error_In; eauto. Qed.

  (* a byte string that starts with a byte from 128 up is nowhere in ASCII text *)
  Lemma high_not_in_text x t a e : N.testbit x 7 = true -> (a < e)%nat -> (e <= len)%nat ->
    bytes_eqb (x :: t) (slice h a e) = false.
  Proof.
    intros Hx Hae He. unfold slice. destruct (skipn a h) as [|y r] eqn:Es.
    - exfalso. assert (length (skipn a h) = len - a)%nat by apply skipn_length. rewrite Es in H. cbn in H. lia.
    - replace (e - a)%nat with (S (e - a - 1)) by lia. cbn [firstn]. unfold bytes_eqb. cbn [list_eqb].
      assert (Hy : nth_error h a = Some y).
      { rewrite <- (firstn_skipn a h) at 1. rewrite nth_error_app2 by (rewrite firstn_length; lia).
        rewrite firstn_length. replace (a - Nat.min a len)%nat with 0%nat by lia. rewrite Es. reflexivity. }
      pose proof (bit7_low y (nth_ascii a y Hy)) as Hy7.
      destruct (N.eqb_spec x y) as [->|Hne]; [congruence|reflexivity].
  Qed.

  Theorem text_enc_bytewise : text_enc ix h inside.
  Proof.
    split.
    - intros fwd q c Hq Hs. unfold next_if. rewrite HA1.
      destruct (N.ltb_spec c 128) as [Hc|Hc].
      + (* an ASCII literal: one byte *)
        assert (He : utf8_encode c = [c]) by (unfold utf8_encode; replace (c <? 128) with true by (symmetry; apply N.ltb_lt; exact Hc); reflexivity).
        rewrite He. unfold inside in Hq.
        pose proof (mbs_single h inside (fun q0 H0 => H0) fwd c q Hq) as Hm. unfold mbs, bytestep, byte_if in Hm.
        destruct (next_byte fwd h q) as [e|[[b q1]|]]; cbn [bindR] in *; [exact I| |].
        * unfold list_contains in Hm. cbn [existsb] in Hm. rewrite orb_false_r in Hm. rewrite (N.eqb_sym c b).
          destruct (match_bytes fwd h q [c]) as [e|r]; [discriminate|]. inversion Hm; subst. reflexivity.
        * destruct (match_bytes fwd h q [c]) as [e|r]; [discriminate|]. inversion Hm; subst. reflexivity.
      + (* a non-ASCII literal never matches ASCII text, as an element or as bytes *)
        destruct (enc_head_high c Hc) as (x & t & He & Hx). rewrite He. unfold inside in Hq.
        assert (Hmb : match_bytes fwd h q (x :: t) = Ok None).
        { destruct fwd.
          - rewrite (mb_fwd_unfold h q (x :: t) Hq). destruct (Nat.ltb_spec (len - q) (length (x :: t))); [reflexivity|].
            rewrite high_not_in_text; [reflexivity|exact Hx|cbn [length]; lia|lia].
          - rewrite (mb_bwd_unfold h q (x :: t)). destruct (Nat.ltb_spec q (length (x :: t))); [reflexivity|].
            rewrite high_not_in_text; [reflexivity|exact Hx|cbn [length] in *; lia|lia]. }
        rewrite Hmb.
        destruct (next_byte fwd h q) as [e|[[b q1]|]] eqn:En; cbn [bindR]; [exact I| |reflexivity].
        assert (Hb128 : b < 128).
        { unfold next_byte in En. destruct fwd.
          - unfold peek_byte_right in En. destruct (q =? len)%nat; cbn [bindR] in En; [discriminate|].
            unfold getb in En. destruct (nth_error h q) eqn:Eq; cbn [bindR] in En; [|discriminate]. inversion En; subst.
            eapply nth_ascii; eauto.
          - unfold peek_byte_left in En. destruct (q =? 0)%nat; cbn [bindR] in En; [discriminate|].
            destruct (psub q 1) as [e|pq]; cbn [bindR] in En; [discriminate|].
            unfold getb in En. destruct (nth_error h pq) eqn:Eq; cbn [bindR] in En; [|discriminate]. inversion En; subst.
            eapply nth_ascii; eauto. }
        replace (c =? b) with false by (symmetry; apply N.eqb_neq; lia). reflexivity.
    - intros fwd q c e Hq Hs E. unfold inside in *. destruct fwd.
      + destruct (mb_fwd_le h q _ e Hq E) as [_ Hle]. exact Hle.
      + pose proof (mb_bwd_le h q _ e E). lia.
  Qed.
End Bytewise.

(* ---- the ASCII indexer, on every byte string ---- *)
Section AsciiIndexer.
  Variable h : hay.
  Hypothesis Hb : bytes_ok h.

  Lemma as_cnext_byte fwd q : cnext ascii_indexer fwd h q = next_byte fwd h q.
  Proof.
    unfold cnext, next_byte. destruct fwd; cbn [ix_next_right ix_next_left ascii_indexer].
    - unfold as_next_right, peek_byte_right. destruct (q =? length h)%nat; [reflexivity|].
      destruct (getb h q); reflexivity.
    - unfold as_next_left, peek_byte_left. destruct (q =? 0)%nat eqn:E0; [reflexivity|].
      unfold psub. apply Nat.eqb_neq in E0. replace (1 <=? q)%nat with true by (symmetry; apply Nat.leb_le; lia).
      cbn [bindR]. destruct (getb h (q - 1)); reflexivity.
  Qed.

  Theorem text_ok_ascii unicode : text_ok ascii_indexer unicode h (inside h).
  Proof. apply text_ok_bytewise; [exact Hb|exact as_cnext_byte|reflexivity|reflexivity|exact ascii_cursor]. Qed.

  Theorem al_all_ascii unicode utf16 n : al ascii_indexer unicode utf16 h (inside h) n.
  Proof. apply al_range. exact ascii_cursor. Qed.

  Theorem text_enc_ascii : Forall (fun b => b < 128) h -> text_enc ascii_indexer h (inside h).
  Proof. intro Ha. apply text_enc_bytewise; [exact as_cnext_byte|exact Ha]. Qed.
End AsciiIndexer.

(* ---- the UTF-8 indexer, on ASCII text ---- *)
Section Utf8OnAscii.
  Variable fold : N -> bool -> N.
  Variable h : hay.
  Hypothesis Ha : Forall (fun b => b < 128) h.
  Notation u8 := (utf8_indexer fold).

  Lemma ascii_bytes_ok : bytes_ok h.
  Proof. unfold bytes_ok. eapply Forall_impl; [|exact Ha]. intros b Hb. cbn beta in *. lia. Qed.

  Lemma getb_low q b : getb h q = Ok b -> b <? 128 = true.
  Proof.
    unfold getb. destruct (nth_error h q) eqn:E; [|discriminate]. intro H. inversion H; subst.
    apply N.ltb_lt. rewrite Forall_forall in Ha. apply Ha. eapply nth_error_In; eauto.
  Qed.

  Lemma u8_cnext_byte fwd q : cnext u8 fwd h q = next_byte fwd h q.
  Proof.
    unfold cnext, next_byte. destruct fwd; cbn [ix_next_right ix_next_left utf8_indexer].
    - unfold u8_next_right, peek_byte_right. destruct (q =? length h)%nat; [reflexivity|].
      destruct (getb h q) as [e|b] eqn:Eg; cbn [bindR]; [reflexivity|]. rewrite (getb_low q b Eg). reflexivity.
    - unfold u8_next_left, peek_byte_left. destruct (q =? 0)%nat; [reflexivity|].
      unfold psub. destruct (1 <=? q)%nat; cbn [bindR]; [|reflexivity].
      destruct (getb h (q - 1)) as [e|b] eqn:Eg; cbn [bindR]; [reflexivity|]. rewrite (getb_low (q - 1) b Eg). reflexivity.
  Qed.

  Lemma u8_right_pos q : (q <= length h)%nat -> ix_next_right_pos u8 h q = try_move_right h q 1.
  Proof.
    intro Hq. cbn [ix_next_right_pos utf8_indexer]. unfold u8_next_right_pos, try_move_right.
    replace (q <=? length h)%nat with true by (symmetry; apply Nat.leb_le; exact Hq). cbn [bindR].
    destruct (Nat.eqb_spec q (length h)) as [->|Hne].
    - rewrite Nat.sub_diag. reflexivity.
    - replace (length h - q <? 1)%nat with false by (symmetry; apply Nat.ltb_ge; lia).
      destruct (getb h q) as [e|b] eqn:Eg; cbn [bindR].
      + unfold getb in Eg. destruct (nth_error h q) eqn:En; [discriminate|]. apply nth_error_None in En. lia.
      + rewrite (getb_low q b Eg). f_equal. f_equal. lia.
  Qed.

  Lemma u8_left_pos q : (q <= length h)%nat -> ix_next_left_pos u8 h q = try_move_left h q 1.
  Proof.
    intro Hq. cbn [ix_next_left_pos utf8_indexer]. unfold u8_next_left_pos, try_move_left.
    destruct (Nat.eqb_spec q 0) as [->|Hne]; [reflexivity|].
    replace (q <? 1)%nat with false by (symmetry; apply Nat.ltb_ge; lia).
    unfold psub. replace (1 <=? q)%nat with true by (symmetry; apply Nat.leb_le; lia). cbn [bindR].
    destruct (getb h (q - 1)) as [e|b] eqn:Eg; cbn [bindR].
    - unfold getb in Eg. destruct (nth_error h (q - 1)) eqn:En; [discriminate|]. apply nth_error_None in En. lia.
    - rewrite (getb_low (q - 1) b Eg). reflexivity.
  Qed.

  Theorem text_ok_utf8_on_ascii unicode : text_ok u8 unicode h (inside h).
  Proof.
    apply text_ok_bytewise; [exact ascii_bytes_ok|exact u8_cnext_byte|exact u8_right_pos|exact u8_left_pos|].
    intros h' fwd p c p'. apply u8_cursor.
  Qed.

  Theorem al_all_utf8_on_ascii unicode utf16 n : al u8 unicode utf16 h (inside h) n.
  Proof. apply al_range. intros h' fwd p c p'. apply u8_cursor. Qed.

  Theorem text_enc_utf8_on_ascii : text_enc u8 h (inside h).
  Proof. apply text_enc_bytewise; [exact u8_cnext_byte|exact Ha]. Qed.
End Utf8OnAscii.
