(* IRLen.v — every result of the IR semantics has as many capture slots as the input. *)
From RV Require Import Base.
From RV.Model Require Import Utf8 Indexer CodePointSet Insn IR Optimizer Unfold Emit.
From RV.Spec Require Import IRSem.

Section L.
  Variable ix : indexer.
  Variable unicode utf16 : bool.
  Variable h : hay.

  Lemma len_upd G g f G' : upd_group g f G = Some G' -> length G' = length G.
  Proof. unfold upd_group. destruct (nth_error G g); [|discriminate]. intro H; inversion H; subst. apply set_nth_length. Qed.

  Lemma len_reset : forall n lo G G', reset_groups G lo n = Some G' -> length G' = length G.
  Proof.
    induction n as [|n IH]; intros lo G G' Hr; simpl in Hr.
    - inversion Hr; subst. reflexivity.
    - destruct (upd_group lo (fun _ => gd_empty) G) as [G1|] eqn:Eu; [|discriminate].
      rewrite (IH _ _ _ Hr). eapply len_upd; eauto.
  Qed.

  Definition oklen (k : nat) (l : list mst) : Prop := Forall (fun y => length (snd y) = k) l.

  Lemma oklen_obindm {A} (rf : A -> option (list mst)) (P : A -> Prop) k : forall xs ys,
    Forall P xs -> (forall x r, P x -> rf x = Some r -> oklen k r) -> obindm rf xs = Some ys -> oklen k ys.
  Proof.
    induction xs as [|x xs IH]; intros ys HP Hk Hb; simpl in Hb.
    - inversion Hb; subst. constructor.
    - destruct (rf x) as [r|] eqn:Er; [|discriminate]. destruct (obindm rf xs) as [r2|] eqn:E2; [|discriminate].
      inversion Hb; subst. inversion HP; subst. apply Forall_app. split; [eapply Hk; eauto | eapply IH; eauto].
  Qed.

  Lemma oklen_results_of G p r l : results_of (p, G) r = Some l -> oklen (length G) l.
  Proof. destruct r as [[q|]|]; simpl; intro H; inversion H; subst; repeat constructor. Qed.
  Lemma oklen_cond G p r l : cond_results (p, G) r = Some l -> oklen (length G) l.
  Proof. destruct r as [e|[|]]; simpl; intro H; inversion H; subst; repeat constructor. Qed.

  Lemma oklen_l1 stepf chk G mn mx gr : forall lf k q l, l1_results stepf chk G mn mx gr lf k q = Some l -> oklen (length G) l.
  Proof.
    induction lf as [|lf IH]; intros k q l H; [discriminate|]. cbn [l1_results] in H.
    destruct (if k <? max_val mx then stepf q else Some None) as [[q'|]|]; [| |discriminate].
    - destruct (chk q q'); [|discriminate]. destruct (l1_results stepf chk G mn mx gr lf (k + 1) q') as [it|] eqn:Ei; [|discriminate].
      apply IH in Ei. inversion H; subst. destruct (mn <=? k); [|exact Ei].
      destruct gr; [apply Forall_app; split; auto|constructor; auto]; repeat constructor.
    - inversion H; subst. destruct (mn <=? k); repeat constructor.
  Qed.

  Definition node_len (f : nat) : Prop := forall n fwd p G l,
    ir_results ix unicode utf16 h f n fwd (p, G) = Some l -> oklen (length G) l.

  Lemma cat_len f (IHf : node_len f) fwd k : forall l xs ys,
    oklen k xs -> cat_results (fun c => ir_results ix unicode utf16 h f c fwd) l xs = Some ys -> oklen k ys.
  Proof.
    induction l as [|c l IH]; intros xs ys Hx Hr; simpl in Hr.
    - inversion Hr; subst. exact Hx.
    - destruct (obindm (fun x => ir_results ix unicode utf16 h f c fwd x) xs) as [ys1|] eqn:Eb; [|discriminate].
      apply (IH ys1 ys); [|exact Hr].
      eapply (oklen_obindm _ (fun y => length (snd y) = k)); [exact Hx| |exact Eb].
      intros [q Gq] r Hq Hrr. simpl in Hq. rewrite <- Hq. eapply IHf; eauto.
  Qed.

  Lemma loop_len f (IHf : node_len f) body fwd mn mx gr egs ege :
    forall lf k entry q Gq l,
      loop_results (ir_results ix unicode utf16 h f body fwd) mn mx gr egs ege lf k entry (q, Gq) = Some l -> oklen (length Gq) l.
  Proof.
    induction lf as [|lf IH]; intros k entry q Gq l Hr; [discriminate|].
    cbn [loop_results] in Hr.
    destruct ((0 <? k) && (mn <? k) && (entry =? fst (q, Gq))%nat); [inversion Hr; constructor|].
    assert (Hy : oklen (length Gq) [(q, Gq)]) by (repeat constructor).
    assert (Hit : forall it,
              match reset_groups (snd (q, Gq)) egs (ege - egs) with
              | None => None
              | Some g1 => match ir_results ix unicode utf16 h f body fwd (fst (q, Gq), g1) with
                           | None => None
                           | Some zs => obindm (loop_results (ir_results ix unicode utf16 h f body fwd) mn mx gr egs ege lf (k + 1) (fst (q, Gq))) zs
                           end
              end = Some it -> oklen (length Gq) it).
    { intros it Hi. simpl in Hi.
      destruct (reset_groups Gq egs (ege - egs)) as [g1|] eqn:Er; [|discriminate].
      destruct (ir_results ix unicode utf16 h f body fwd (q, g1)) as [zs|] eqn:Ez; [|discriminate].
      pose proof (len_reset _ _ _ _ Er) as Hg1.
      pose proof (IHf body fwd q g1 zs Ez) as Hz. rewrite Hg1 in Hz.
      eapply (oklen_obindm _ (fun y => length (snd y) = length Gq)); [exact Hz| |exact Hi].
      intros [q' Gq'] r Hq' Hrr. simpl in Hq'. rewrite <- Hq'. eapply (IH (k + 1) q q' Gq' r). exact Hrr. }
    destruct (negb (k <? max_val mx) && negb (mn <=? k)); [inversion Hr; constructor|].
    destruct (negb (k <? max_val mx)); [inversion Hr; subst; exact Hy|].
    destruct (negb (mn <=? k)); [apply Hit; exact Hr|].
    match type of Hr with match ?itx with _ => _ end = _ => destruct itx as [it|] eqn:Eit; [|discriminate] end.
    specialize (Hit it eq_refl). inversion Hr; subst.
    destruct gr; [apply Forall_app; split; auto|constructor; auto; inversion Hy; auto].
  Qed.

  Theorem ir_len : forall f, node_len f.
  Proof.
    induction f as [|f IHf]; intros n fwd p G l Hr; [discriminate|].
    destruct n as [ | |c|bs|bs|cs|l0|a b| | |sol ml|inv ui|id c nm|g ic|b|alts icase|ng bw sg' eg' c|body mn mx gr egs ege|body mn mx gr];
      cbn [ir_results] in Hr; try (eapply oklen_results_of; exact Hr); try (eapply oklen_cond; exact Hr); try discriminate.
    - inversion Hr; subst. repeat constructor.
    - inversion Hr; subst. repeat constructor.
    - destruct (leaf_code (negb fwd) (NByteSet bs)); [eapply oklen_results_of; exact Hr|discriminate].
    - destruct (leaf_code (negb fwd) (NCharSet cs)); [eapply oklen_results_of; exact Hr|discriminate].
    - eapply (cat_len f IHf fwd (length G) l0 [(p, G)]); eauto; try (repeat constructor).
    - destruct (ir_results ix unicode utf16 h f a fwd (p, G)) as [u|] eqn:Eu; [|discriminate].
      destruct (ir_results ix unicode utf16 h f b fwd (p, G)) as [v|] eqn:Ev; [|discriminate].
      inversion Hr; subst. apply Forall_app. split; [eapply (IHf a); eauto | eapply (IHf b); eauto].
    - (* CaptureGroup *)
      destruct (upd_group id (set_group_start fwd p) G) as [G1|] eqn:E1; [|discriminate].
      destruct (ir_results ix unicode utf16 h f c fwd (p, G1)) as [lc|] eqn:Ec; [|discriminate].
      pose proof (len_upd _ _ _ _ E1) as Hg1.
      pose proof (IHf c fwd p G1 lc Ec) as Hlc. rewrite Hg1 in Hlc.
      eapply (oklen_obindm _ (fun y => length (snd y) = length G)); [exact Hlc| |exact Hr].
      intros [q Gq] r Hq Hrr. simpl in Hq, Hrr.
      destruct (upd_group id (set_group_end fwd q) Gq) as [G2|] eqn:E2; [|discriminate]. inversion Hrr; subst.
      constructor; [|constructor]. simpl. rewrite (len_upd _ _ _ _ E2). exact Hq.
    - (* BackRef *)
      destruct (g =? 0); [discriminate|]. destruct (nth_error G (N.to_nat (g - 1))) as [gd|]; [|discriminate].
      destruct (gd_range gd) as [[rs re]|]; [|inversion Hr; subst; repeat constructor].
      destruct (backref_match ix (dummy_prog unicode) ic fwd h p rs re) as [e|[q|]]; inversion Hr; subst; repeat constructor.
    - (* Bracket *)
      destruct (bracket_as_ascii b); [eapply oklen_results_of; exact Hr|].
      destruct (next_if ix fwd h p (bracket_matches b)) as [e|[q|]]; inversion Hr; subst; repeat constructor.
    - (* StringSet *)
      unfold strset_results in Hr.
      eapply (oklen_obindm _ (fun _ => True)); [| |exact Hr].
      + apply Forall_forall. auto.
      + intros a r _ Ha. cbv beta in Ha. destruct (if utf16 then None else lower_code_point_sequence a icase unicode); [|discriminate Ha].
        eapply oklen_results_of; exact Ha.
    - (* Lookaround *)
      destruct (ir_results ix unicode utf16 h f c (negb bw) (p, G)) as [[|y rest]|] eqn:Ec; [| |discriminate].
      + inversion Hr; subst. destruct ng; repeat constructor.
      + pose proof (IHf c (negb bw) p G _ Ec) as Hy. inversion Hy as [|? ? Hy1 Hy2]; subst.
        inversion Hr; subst. destruct ng; [constructor|constructor; [exact Hy1|constructor]].
    - (* Loop *)
      eapply (loop_len f IHf body fwd mn mx gr egs ege f 0 p p G l). exact Hr.
    - (* Loop1CharBody *)
      destruct (single_step ix unicode h (negb fwd) body fwd) as [stepf|]; [|discriminate].
      eapply oklen_l1; exact Hr.
  Qed.
End L.
