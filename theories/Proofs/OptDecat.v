(* OptDecat.v — the decat pass (flatten nested concatenations, drop the empty one, unwrap the singleton) keeps the
   meaning of every node. *)
From RV Require Import Base.
From RV.Model Require Import Utf8 Indexer CodePointSet Insn IR Optimizer Unfold Emit.
From RV.Spec Require Import IRSem IRShape.
From RV.Proofs Require Import NodeInd OptDD OptMono OptWalk OptRel.

Definition spl (x : node) : list node := match x with NCat l' => l' | _ => [x] end.

Lemma qok_flat : forall l, forallb qok l = true -> forallb qok (flat_map spl l) = true.
Proof.
  induction l as [|c l IH]; intro H; [reflexivity|]. cbn [forallb] in H. apply andb_true_iff in H as [Hc Hl].
  cbn [flat_map]. rewrite forallb_app, (IH Hl), andb_true_r.
  destruct c; try (cbn [spl forallb]; rewrite Hc; reflexivity). exact Hc.
Qed.

Lemma ng_flat : forall l, list_sum (map ng (flat_map spl l)) = list_sum (map ng l).
Proof.
  induction l as [|c l IH]; [reflexivity|]. cbn [flat_map map]. rewrite map_app, list_sum_app, IH, list_sum_cons.
  f_equal. destruct c; try (cbn [spl map]; rewrite list_sum_cons; cbn [list_sum fold_right]; lia). reflexivity.
Qed.

Section Decat.
  Variable ix : indexer.
  Variables unicode utf16 : bool.
  Variable h : hay.
  Variable okp : nat -> Prop.
  Notation IR := (ir_results ix unicode utf16 h).
  Notation ref := (ref ix unicode utf16 h okp).
  Notation al := (al ix unicode utf16 h okp).
  Notation PRel := (PRel ix unicode utf16 h okp).

  Lemma flatten_fle f fwd : forall l,
    fle (cat_results (fun c => IR f c fwd) l) (cat_results (fun c => IR f c fwd) (flat_map spl l)).
  Proof.
    induction l as [|c l IHl]; intros xs r E; [exact E|]. cbn [cat_results] in E. cbn [flat_map].
    destruct (obindm (IR f c fwd) xs) as [ys|] eqn:Eb; [|discriminate]. rewrite cat_app_l.
    assert (Hc : cat_results (fun c => IR f c fwd) (spl c) xs = Some ys).
    { destruct c; try (cbn [spl cat_results]; rewrite Eb; reflexivity).
      cbn [spl]. destruct f as [|f1].
      - destruct xs as [|x xs]; [cbn in Eb; inversion Eb; apply cat_nil|cbn in Eb; discriminate].
      - rewrite <- cat_obindm. eapply obindm_fle; [|exact Eb]. intros x r0 Ex. rewrite ir_cat_eq in Ex.
        eapply cat_fle2; [|exact Ex]. apply Forall2_same. intro a. apply ir_fuel_mono. lia. }
    rewrite Hc. apply IHl. exact E.
  Qed.

  Lemma ref_flatten fwd l : ref fwd (NCat l) (NCat (flat_map spl l)).
  Proof.
    split; [|apply rstep_nol1; reflexivity].
    apply (rres_fle ix unicode utf16 h okp fwd _ _ 0%nat). intros [|f] x r E; [discriminate|]. rewrite Nat.add_0_r. rewrite ir_cat_eq in *.
    apply flatten_fle. exact E.
  Qed.

  Lemma ref_cat_nil fwd : ref fwd (NCat []) NEmpty.
  Proof.
    split; [|apply rstep_nol1; reflexivity].
    apply (rres_fle ix unicode utf16 h okp fwd _ _ 0%nat). intros [|f] x r E; [discriminate|]. rewrite Nat.add_0_r. rewrite ir_cat_eq in E.
    rewrite ir_empty_eq. exact E.
  Qed.

  Lemma ref_cat_single fwd c : ref fwd (NCat [c]) c.
  Proof.
    split; [|apply rstep_nol1; reflexivity].
    apply (rres_fle ix unicode utf16 h okp fwd _ _ 0%nat). intros [|f] x r E; [discriminate|]. rewrite Nat.add_0_r. rewrite ir_cat_eq in E.
    cbn [cat_results] in E. rewrite obindm_single in E.
    destruct (IR f c fwd x) as [ys|] eqn:Ec; [|discriminate]. inversion E; subst.
    eapply ir_fuel_mono; [|exact Ec]. lia.
  Qed.

  Lemma al_flat : forall l, Forall al l -> Forall al (flat_map spl l).
  Proof.
    induction 1 as [|c l Hc Hl IH]; [constructor|]. cbn [flat_map]. apply Forall_app. split; [|exact IH].
    destruct c; try (constructor; [exact Hc|constructor]). apply al_cat. exact Hc.
  Qed.

  Lemma decat_sound lb n a : decat lb n = Ok a -> PRel lb n (act_node a n).
  Proof.
    intros E. destruct n; try (inversion E; subst; apply PRel_refl).
    destruct l as [|x [|y t]]; cbn [decat] in E.
    - inversion E; subst. intros Hq Ha. split; [apply ref_cat_nil|]. split; [reflexivity|]. split; [apply al_empty|reflexivity].
    - inversion E; subst. intros Hq Ha. cbn [act_node]. split; [apply ref_cat_single|].
      cbn [qok forallb] in Hq. rewrite andb_true_r in Hq. split; [exact Hq|].
      split; [apply al_cat in Ha; inversion Ha; assumption|].
      cbn [ng map]. rewrite list_sum_cons. cbn [list_sum fold_right]. lia.
    - destruct (existsb is_cat (x :: y :: t)); inversion E; subst; [|apply PRel_refl].
      intros Hq Ha. cbn [act_node]. split; [apply (ref_flatten (negb lb) (x :: y :: t))|].
      split; [apply (qok_flat (x :: y :: t)); exact Hq|].
      split; [apply al_cat; apply (al_flat (x :: y :: t)); apply al_cat; exact Ha|apply (ng_flat (x :: y :: t))].
  Qed.

  Theorem decat_pass_sound fuel n n' : run_to_fixpoint decat fuel n = Ok n' -> PRel false n n'.
  Proof. apply pass_sound. exact decat_sound. Qed.
End Decat.
