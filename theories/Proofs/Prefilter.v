(* Prefilter.v — C04 for the backtracking model: next_match with the start predicate emit computes returns the
   match of the IR semantics, i.e. what the prefilter-free search returns. *)
From RV Require Import Base.
From RV.Model Require Import Utf8 Indexer CodePointSet Insn IR Optimizer Unfold Emit Pike BT Exec.
From RV.Spec Require Import IRSem IRShape.
From RV.Proofs Require Import NodeInd PikeDen PikeCorrect PikeTop BTDen BTShape BTCorrect BTTop StartPred.

Section P.
  Variable ix : indexer.
  Variable h : hay.
  Variable test : list N -> bool.

  Lemma fb_ok_sound p : fb_ok ix h p = true -> first_byte_at ix h p.
  Proof.
    unfold fb_ok, first_byte_at. intros H c p' Hc. rewrite Hc in H.
    destruct (nth_error h p) as [b|]; [|discriminate]. apply andb_true_iff in H as [H1 H2].
    apply N.eqb_eq in H1. apply N.leb_le in H2. subst b. auto.
  Qed.

  Lemma pref_walk_sound : forall fuel p, pref_walk_ok ix h test fuel p = true ->
    (forall q, on_walk ix h fuel p q -> first_byte_at ix h q) /\
    (forall q q' i, on_walk ix h fuel p q -> test (skipn q h) = false -> ix_next_right_pos ix h q = Ok (Some q') -> (q < i < q')%nat -> test (skipn i h) = false) /\
    (forall q, on_walk ix h fuel p q -> ix_next_right_pos ix h q = Ok None -> q = length h) /\
    (forall q q', on_walk ix h fuel p q -> ix_next_right_pos ix h q = Ok (Some q') -> (q < q')%nat).
  Proof.
    induction fuel as [|f IH]; intros p H.
    - split; [|split; [|split]]; intros; contradiction.
    - cbn [pref_walk_ok] in H. apply andb_true_iff in H as [Hfb Hrest].
      assert (Hsub : forall q, on_walk ix h (S f) p q -> q = p \/ exists p', ix_next_right_pos ix h p = Ok (Some p') /\ on_walk ix h f p' q).
      { intros q Hq. cbn [on_walk] in Hq. destruct Hq as [->|Hq]; [left; reflexivity|].
        destruct (ix_next_right_pos ix h p) as [e|[p'|]]; try contradiction. right. eauto. }
      destruct (ix_next_right_pos ix h p) as [e|[p'|]] eqn:En.
      + split; [|split; [|split]]; intros q; intros; destruct (Hsub q ltac:(assumption)) as [->|(p' & Hp' & _)]; try congruence.
        apply fb_ok_sound. exact Hfb.
      + apply andb_true_iff in Hrest as [Hrest Hw]. apply andb_true_iff in Hrest as [Hlt Hall].
        apply Nat.ltb_lt in Hlt.
        destruct (IH p' Hw) as (I1 & I2 & I3 & I4).
        split; [|split; [|split]].
        * intros q Hq. destruct (Hsub q Hq) as [->|(p2 & Hp2 & Hq2)]; [apply fb_ok_sound; exact Hfb|].
          inversion Hp2; subst p2. apply I1. exact Hq2.
        * intros q q' i Hq Htf Hn Hi. destruct (Hsub q Hq) as [->|(p2 & Hp2 & Hq2)].
          -- rewrite En in Hn. inversion Hn; subst q'. rewrite Htf in Hall. simpl in Hall. rewrite forallb_forall in Hall. apply negb_true_iff. apply Hall. apply in_seq. lia.
          -- inversion Hp2; subst p2. eapply I2; eauto.
        * intros q Hq Hn. destruct (Hsub q Hq) as [->|(p2 & Hp2 & Hq2)]; [congruence|].
          inversion Hp2; subst p2. apply I3; assumption.
        * intros q q' Hq Hn. destruct (Hsub q Hq) as [->|(p2 & Hp2 & Hq2)].
          -- rewrite En in Hn. inversion Hn; subst q'. exact Hlt.
          -- inversion Hp2; subst p2. eapply I4; eauto.
      + apply Nat.eqb_eq in Hrest.
        split; [|split; [|split]]; intros q; intros; destruct (Hsub q ltac:(assumption)) as [->|(p' & Hp' & _)]; try congruence.
        apply fb_ok_sound. exact Hfb.
  Qed.
End P.

(* the predicate computed for the whole pattern and the one of its body resolve to the same searcher *)
Lemma compute_cat_snoc_goal body :
  match compute_start_predicate (NCat (body ++ [NGoal])) with
  | Ok r => Ok (resolve_to_insn (match r with Some p => p | None => AArbitrary end))
  | Err e => Err e
  end =
  match compute_start_predicate (NCat body) with
  | Ok r => Ok (resolve_to_insn (match r with Some p => p | None => AArbitrary end))
  | Err e => Err e
  end.
Proof.
  induction body as [|x t IH].
  - reflexivity.
  - change (compute_start_predicate (NCat ((x :: t) ++ [NGoal])))
      with (do r <- compute_start_predicate x; match r with Some p => Ok (Some p) | None => compute_start_predicate (NCat (t ++ [NGoal])) end).
    change (compute_start_predicate (NCat (x :: t)))
      with (do r <- compute_start_predicate x; match r with Some p => Ok (Some p) | None => compute_start_predicate (NCat t) end).
    destruct (compute_start_predicate x) as [e|[p|]]; cbn [bindR]; try reflexivity. exact IH.
Qed.

Lemma shape_predicate n body : top_shape n body ->
  match compute_start_predicate n with
  | Ok r => Ok (resolve_to_insn (match r with Some p => p | None => AArbitrary end))
  | Err e => Err e
  end =
  match compute_start_predicate (NCat body) with
  | Ok r => Ok (resolve_to_insn (match r with Some p => p | None => AArbitrary end))
  | Err e => Err e
  end.
Proof.
  intros [-> | [[-> ->] | [-> ->]]]; [apply compute_cat_snoc_goal|reflexivity|reflexivity].
Qed.

(* next_match of the backtracker when the start predicate is a search (not StartAnchored) *)
Theorem bt_next_match_search ix h utf16 unicode ml n body prog names fuel p r test :
  (forall fwd p c p', cnext ix fwd h p = Ok (Some (c, p')) -> ix_elem_of_u32 ix c = true) ->
  top_shape n body ->
  emit utf16 unicode ml n = Ok (prog, names) ->
  bt_wf (p_groups prog) (NCat body) = true -> brackets_wf (NCat body) = true ->
  searcher_test (p_start_pred prog) = Some test ->
  walk_ok ix h (S (S (length h))) p = true -> pref_walk_ok ix h test (S (S (length h))) p = true ->
  ir_search ix unicode utf16 h fuel (NCat body) (p_groups prog) (S (S (length h))) p = Some r ->
  exists f0 k st', forall pfuel n budget, (f0 <= pfuel)%nat -> n + k <= budget ->
    bt_next_match ix prog h budget pfuel (bt_init prog) p n = (bt_result_of ix h r st', n + k).
Proof.
  intros Hel Hshape He Hwf Hbw Htest Hwalk Hpw Hs.
  pose proof Hshape as Hshape0.
  unfold emit in He.
  destruct (predicate_for_re n ml) as [e|sp] eqn:Epred; cbn [bindR] in He; [discriminate|].
  (* the program: code of the body followed by Goal (or JustFail alone), as in bt_emit_correct *)
  assert (Hprog : exists c es' rest,
            emit_node utf16 unicode (NCat body) 0 false (mkES [] 0 0 []) = Ok (c, es') /\
            p_insns prog = c ++ rest /\ p_brackets prog = es_brackets es' /\ p_unicode prog = unicode /\
            p_start_pred prog = sp /\ p_groups prog = es_groups es' /\ p_loops prog = es_next_loop es' /\
            (nth_error rest 0 = Some Goal \/
             (forall f x y l, ir_results ix unicode utf16 h f (NCat body) true x <> Some (y :: l)))).
  { destruct Hshape as [Hn | [[Hn Hb] | [Hn Hb]]].
    - subst n. rewrite emit_cat_snoc in He.
      destruct (emit_node utf16 unicode (NCat body) 0 false (mkES [] 0 0 [])) as [e|[c es']] eqn:Eb; cbn [bindR] in He; [discriminate|].
      cbn [fst snd] in He. inversion He; subst prog names. exists c, es', [Goal]. simpl. repeat split; auto.
    - subst n body. simpl in He. inversion He; subst prog names. exists [], (mkES [] 0 0 []), [Goal]. simpl. repeat split; auto.
    - subst n body. simpl in He. inversion He; subst prog names. exists [JustFail], (mkES [] 0 0 []), []. simpl. repeat split; auto.
      right. intros f x y l Hr. destruct f as [|f]; [discriminate|]. destruct x as [p0 gs0]. cbn [ir_results cat_results obindm] in Hr.
      destruct f as [|f]; [discriminate|]. cbn [ir_results leaf_code emit_char_set run_insns results_of] in Hr. discriminate. }
  destruct Hprog as (c & es' & rest & Eb & Hi & Hbr & Hu & Hsp & Hgr & Hlo & Hgoal).
  (* the predicate *)
  unfold predicate_for_re in Epred.
  destruct (is_start_anchored n && negb ml).
  { inversion Epred as [Hq]. rewrite Hsp, <- Hq in Htest. discriminate. }
  assert (Hres : match compute_start_predicate (NCat body) with
                 | Ok r0 => Ok (resolve_to_insn (match r0 with Some p0 => p0 | None => AArbitrary end))
                 | Err e => Err e end = Ok sp).
  { rewrite <- (shape_predicate n body Hshape0). destruct (compute_start_predicate n) as [e|r0]; cbn [bindR] in Epred; [discriminate|]. exact Epred. }
  destruct (pref_walk_sound ix h test _ p Hpw) as (W1 & W2 & W3 & W4).
  assert (Hpref : pref_ok ix prog h utf16 (NCat body) test fuel (S (S (length h))) p).
  { repeat split; auto.
    - intros q G l Hq Hr Hne. rewrite Hu in Hr.
      destruct (compute_start_predicate (NCat body)) as [e|[spx|]] eqn:Ec; [discriminate| |].
      + inversion Hres as [Hsp']. rewrite Hsp in Htest. rewrite <- Hsp' in Htest.
        pose proof (ir_sp ix unicode utf16 h fuel (NCat body) q G l spx (W1 q Hq) Hbw Ec Hr Hne) as Ht.
        apply asp_test_resolve in Ht. rewrite Htest in Ht. exact Ht.
      + inversion Hres as [Hsp']. rewrite Hsp in Htest. rewrite <- Hsp' in Htest. simpl in Htest. inversion Htest. reflexivity. }
  unfold bt_next_match. rewrite Htest.
  rewrite <- Hu in Eb, Hs, Hgoal.
  destruct (bt_search_pref ix prog h utf16 Hel (NCat body) c es' rest (p_groups prog) Hwf Eb Hi Hgoal Hbr test fuel (p_groups prog)
                           (S (S (length h))) p r (bt_init prog) Hs (Nat.le_refl _) Hwalk Hpref) as (f0 & k & st' & Hrun).
  - reflexivity.
  - simpl. rewrite repeat_length. lia.
  - exists f0, k, st'. intros pfuel n0 budget Hf Hb. apply Hrun; auto.
Qed.

(* ---- StartAnchored: a single attempt at the start position ---- *)
Section Anchored.
  Variable ix : indexer.
  Variable h : hay.
  Variable unicode utf16 : bool.
  Hypothesis Hright_gt : forall q q', ix_next_right_pos ix h q = Ok (Some q') -> (q < q')%nat.
  Hypothesis Hleft_some : forall q, (0 < q)%nat -> ix_next_left ix h q <> Ok None.

  (* beyond the start position an anchored pattern has no success; so the search result is the attempt at p *)
  Lemma anchored_search fuel n ngroups : is_start_anchored n = true -> forall tries p r,
    ir_search ix unicode utf16 h fuel n ngroups tries p = Some r ->
    (0 < p)%nat -> r = None.
  Proof.
    intro Ha. induction tries as [|t IH]; intros p r Hs Hp; [discriminate|]. cbn [ir_search] in Hs.
    destruct (ir_results ix unicode utf16 h fuel n true (p, repeat gd_empty ngroups)) as [[|y l]|] eqn:Er; [| |discriminate].
    - destruct (ix_next_right_pos ix h p) as [e|[p'|]] eqn:En; [discriminate| |inversion Hs; reflexivity].
      eapply IH; [exact Hs|]. pose proof (Hright_gt p p' En). lia.
    - exfalso. pose proof (ir_anchored ix unicode utf16 h fuel n p _ _ Ha Er ltac:(discriminate)) as Hsol.
      unfold start_of_line, peek_left in Hsol.
      destruct (ix_next_left ix h p) as [e|[[c q]|]] eqn:El; cbn [bindR option_map] in Hsol; simpl in Hsol; try discriminate Hsol.
      exact (Hleft_some p Hp El).
  Qed.

  Lemma anchored_first fuel n ngroups tries p r : is_start_anchored n = true ->
    ir_search ix unicode utf16 h fuel n ngroups (S tries) p = Some r ->
    exists l, ir_results ix unicode utf16 h fuel n true (p, repeat gd_empty ngroups) = Some l /\
              r = match l with [] => None | y :: _ => Some (p, fst y, snd y) end.
  Proof.
    intros Ha Hs. cbn [ir_search] in Hs.
    destruct (ir_results ix unicode utf16 h fuel n true (p, repeat gd_empty ngroups)) as [[|y l]|] eqn:Er; [| |discriminate].
    - exists []. split; [reflexivity|].
      destruct (ix_next_right_pos ix h p) as [e|[p'|]] eqn:En; [discriminate| |inversion Hs; reflexivity].
      eapply (anchored_search fuel n ngroups Ha tries p' r Hs). pose proof (Hright_gt p p' En). lia.
    - exists (y :: l). split; [reflexivity|]. inversion Hs. reflexivity.
  Qed.
End Anchored.

Lemma anchored_cat_snoc body : is_start_anchored (NCat (body ++ [NGoal])) = is_start_anchored (NCat body).
Proof. destruct body as [|x t]; reflexivity. Qed.

Theorem bt_next_match_anchored ix h utf16 unicode ml n body prog names fuel tries p r :
  (forall fwd p c p', cnext ix fwd h p = Ok (Some (c, p')) -> ix_elem_of_u32 ix c = true) ->
  (forall q q', ix_next_right_pos ix h q = Ok (Some q') -> (q < q')%nat) ->
  (forall q, (0 < q)%nat -> ix_next_left ix h q <> Ok None) ->
  top_shape n body ->
  emit utf16 unicode ml n = Ok (prog, names) ->
  bt_wf (p_groups prog) (NCat body) = true ->
  searcher_test (p_start_pred prog) = None ->
  ir_search ix unicode utf16 h fuel (NCat body) (p_groups prog) (S tries) p = Some r ->
  exists f0 k st', forall pfuel n budget, (f0 <= pfuel)%nat -> n + k <= budget ->
    bt_next_match ix prog h budget pfuel (bt_init prog) p n = (bt_result_of ix h r st', n + k).
Proof.
  intros Hel Hgt Hleft Hshape He Hwf Htest Hs.
  unfold emit in He.
  destruct (predicate_for_re n ml) as [e|sp] eqn:Epred; cbn [bindR] in He; [discriminate|].
  unfold predicate_for_re in Epred.
  destruct (is_start_anchored n && negb ml) eqn:Eanch.
  2: { exfalso. destruct (compute_start_predicate n) as [e|r0]; cbn [bindR] in Epred; [discriminate|]. inversion Epred; subst sp.
       assert (Hsp : p_start_pred prog = resolve_to_insn match r0 with Some p0 => p0 | None => AArbitrary end).
       { destruct (emit_node utf16 unicode n 0 false (mkES [] 0 0 [])) as [e|[c es]]; cbn [bindR] in He; [discriminate|]. inversion He; reflexivity. }
       rewrite Hsp in Htest. destruct r0 as [[|bs|ms]|]; simpl in Htest; try discriminate.
       - destruct bs as [|b [|b2 t]]; discriminate.
       - destruct (length ms) as [|[|[|[|k]]]]; discriminate. }
  apply andb_true_iff in Eanch as [Hanch _].
  destruct Hshape as [Hn | [[Hn Hb] | [Hn Hb]]]; [|subst n; discriminate|subst n; discriminate].
  subst n. rewrite anchored_cat_snoc in Hanch. rewrite emit_cat_snoc in He.
  destruct (emit_node utf16 unicode (NCat body) 0 false (mkES [] 0 0 [])) as [e|[c es']] eqn:Eb; cbn [bindR] in He; [discriminate|].
  cbn [fst snd] in He. inversion He; subst prog names. clear He. cbn [p_groups p_start_pred] in *.
  destruct (anchored_first ix h unicode utf16 Hgt Hleft fuel (NCat body) (es_groups es') tries p r Hanch Hs) as (l & Er & ->).
  set (prog := mkProgram (c ++ [Goal]) (es_brackets es') (es_next_loop es') (es_groups es') sp unicode).
  assert (Hng : (es_groups es' <= length (repeat gd_empty (es_groups es')))%nat) by (rewrite repeat_length; lia).
  destruct (bt_attempt ix prog h utf16 Hel (NCat body) c es' [Goal] (es_groups es') Hwf Eb eq_refl (or_introl eq_refl) eq_refl
                       fuel p (repeat gd_empty (es_groups es')) l (repeat (mkLD 0 0) (es_next_loop es')) Er Hng
                       ltac:(rewrite repeat_length; lia)) as (o & Hd & Ho).
  destruct (bden_bt_run ix prog h true _ o Hd) as (f1 & k1 & Hrun).
  unfold bt_next_match. cbn [p_start_pred prog]. rewrite Htest. unfold bt_try, bt_init. cbn [bx_loops bx_groups p_loops p_groups prog].
  destruct l as [|y l'].
  - destruct Ho as (L' & -> & HL'). exists f1, k1, (mkBX L' (repeat gd_empty (es_groups es'))). intros pfuel n budget Hf Hb.
    rewrite (Hrun pfuel n budget) by lia. reflexivity.
  - destruct Ho as (L1 & -> & HL1). exists f1, k1, (mkBX L1 (repeat gd_empty (length (snd y)))). intros pfuel n budget Hf Hb.
    rewrite (Hrun pfuel n budget) by lia. unfold bt_success, bt_result_of.
    destruct (next_start_after ix h p (fst y)); reflexivity.
Qed.

(* ---- next_match of the PikeVM: no prefilter, only the StartAnchored shortcut ---- *)
Theorem pk_next_match_correct ix h utf16 unicode ml n body prog names fuel p r :
  (forall q q', ix_next_right_pos ix h q = Ok (Some q') -> (q < q')%nat) ->
  (forall q, (0 < q)%nat -> ix_next_left ix h q <> Ok None) ->
  top_shape n body ->
  emit utf16 unicode ml n = Ok (prog, names) ->
  ir_wf (NCat body) = true ->
  ir_search ix unicode utf16 h fuel (NCat body) (p_groups prog) (S (S (length h))) p = Some r ->
  exists f0 k, forall pfuel n budget, (f0 <= pfuel)%nat -> n + k <= budget ->
    pk_next_match ix prog h budget pfuel tt p n = (result_of ix h r, n + k).
Proof.
  intros Hgt Hleft Hshape He Hwf Hs.
  destruct (p_start_pred prog) eqn:Esp;
    try (destruct (pike_emit_correct ix h utf16 unicode ml n body prog names fuel _ p r Hshape He Hwf Hs) as (f0 & k & Hrun);
         exists f0, k; intros pfuel n0 budget Hf Hb; unfold pk_next_match; rewrite Esp; apply Hrun; assumption).
  (* StartAnchored *)
  unfold emit in He.
  destruct (predicate_for_re n ml) as [e|sp] eqn:Epred; cbn [bindR] in He; [discriminate|].
  unfold predicate_for_re in Epred.
  destruct (is_start_anchored n && negb ml) eqn:Eanch.
  2: { exfalso. destruct (compute_start_predicate n) as [e|r0]; cbn [bindR] in Epred; [discriminate|]. inversion Epred; subst sp.
       assert (Hsp : p_start_pred prog = resolve_to_insn match r0 with Some p0 => p0 | None => AArbitrary end).
       { destruct (emit_node utf16 unicode n 0 false (mkES [] 0 0 [])) as [e|[c es]]; cbn [bindR] in He; [discriminate|]. inversion He; reflexivity. }
       rewrite Hsp in Esp. destruct r0 as [[|bs|ms]|]; simpl in Esp; try discriminate.
       - destruct bs as [|b [|b2 t]]; discriminate.
       - destruct (length ms) as [|[|[|[|k]]]]; discriminate. }
  apply andb_true_iff in Eanch as [Hanch _].
  destruct Hshape as [Hn | [[Hn Hb] | [Hn Hb]]]; [|subst n; discriminate|subst n; discriminate].
  subst n. rewrite anchored_cat_snoc in Hanch. rewrite emit_cat_snoc in He.
  destruct (emit_node utf16 unicode (NCat body) 0 false (mkES [] 0 0 [])) as [e|[c es']] eqn:Eb; cbn [bindR] in He; [discriminate|].
  cbn [fst snd] in He. inversion He; subst prog names. clear He. cbn [p_groups p_start_pred] in *.
  destruct (anchored_first ix h unicode utf16 Hgt Hleft fuel (NCat body) (es_groups es') _ p r Hanch Hs) as (l & Er & ->).
  set (prog := mkProgram (c ++ [Goal]) (es_brackets es') (es_next_loop es') (es_groups es') sp unicode).
  destruct (pike_run ix prog h utf16 (NCat body) c es' [Goal] Hwf Eb eq_refl (or_introl eq_refl) eq_refl fuel _ l (pk_init_state prog p) Er)
    as (o & f1 & k1 & Ho & Hrun); try reflexivity.
  { simpl. rewrite repeat_length. lia. }
  exists f1, k1. intros pfuel n budget Hf Hb. unfold pk_next_match. cbn [p_start_pred prog]. rewrite Esp.
  rewrite (Hrun pfuel n budget) by lia.
  destruct l as [|y l']; destruct o as [sy|]; try discriminate; cbn [out_of].
  - reflexivity.
  - simpl in Ho. inversion Ho as [Hy]. unfold pk_success, result_of, obs. simpl.
    destruct (next_start_after ix h p (ps_pos sy)); reflexivity.
Qed.
