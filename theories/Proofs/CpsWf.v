(* CpsWf.v — CodePointSet::intersect and CodePointSet::remove keep the representation invariant (sorted, disjoint,
   non-abutting, inside 0..=0x10FFFF): what CpsProofs.v shows for add / add_set / inverted. *)
From RV Require Import Base.
From RV.Model Require Import CodePointSet.
From RV.Proofs Require Import CpsProofs.

Local Ltac wfc := apply wf_cons; split; [|split; [|split]].

(* every interval lies at or below hi *)
Definition below (hi : N) (s : cps) : Prop := Forall (fun i => snd i <= hi) s.

Lemma wf_app lo a b hi : cps_wf_from lo a = true -> below hi a -> cps_wf_from (N.max lo (hi + 2)) b = true ->
  cps_wf_from lo (a ++ b) = true.
Proof.
  revert lo. induction a as [|[f l] a IH]; intros lo Ha Hb Hw; cbn [app].
  - eapply wf_from_weaken; [|exact Hw]. lia.
  - apply wf_cons in Ha as (A1 & A2 & A3 & A4). inversion Hb as [|? ? B1 B2]; subst. cbn [snd] in B1.
    wfc; try assumption. apply IH; [exact A4|exact B2|].
    eapply wf_from_weaken; [|exact Hw]. lia.
Qed.

(* ---- intersect ---- *)
Definition pieces (i : iv) (s : cps) : cps :=
  flat_map (fun si => if iv_overlaps i si then [(N.max (fst i) (fst si), N.min (snd i) (snd si))] else []) s.

Lemma pieces_wf i : fst i <= snd i -> forall s lo, cps_wf_from lo s = true ->
  cps_wf_from (N.max lo (fst i)) (pieces i s) = true /\ below (snd i) (pieces i s).
Proof.
  intros Hi. induction s as [|[sf sl] s IH]; intros lo Hw; [split; [reflexivity|constructor]|].
  apply wf_cons in Hw as (H1 & H2 & H3 & H4). destruct (IH _ H4) as [W B]. unfold pieces. cbn [flat_map]. fold (pieces i s).
  destruct (iv_overlaps i (sf, sl)) eqn:Eo; cbn [app].
  - unfold iv_overlaps in Eo. cbn [fst snd] in Eo. apply andb_true_iff in Eo as [E1 E2].
    apply negb_true_iff, N.ltb_ge in E1, E2. split.
    + cbn [fst snd]. wfc; try lia. eapply wf_from_weaken; [|exact W]. lia.
    + constructor; [cbn [snd]; lia|exact B].
  - split; [eapply wf_from_weaken; [|exact W]; lia|exact B].
Qed.

Lemma intersect_wf_from s : cps_wf s = true -> forall r lo, cps_wf_from lo r = true -> cps_wf_from lo (cps_intersect s r) = true.
Proof.
  intros Hs. unfold cps_intersect. induction r as [|[rf rl] r IH]; intros lo Hr; [reflexivity|].
  apply wf_cons in Hr as (R1 & R2 & R3 & R4). cbn [flat_map]. fold (pieces (rf, rl) s).
  destruct (pieces_wf (rf, rl) R2 s 0 Hs) as [W B]. cbn [fst snd] in *.
  eapply wf_app with (hi := rl).
  - eapply wf_from_weaken; [|exact W]. lia.
  - exact B.
  - apply IH. eapply wf_from_weaken; [|exact R4]. lia.
Qed.
Lemma intersect_wf s r : cps_wf s = true -> cps_wf r = true -> cps_wf (cps_intersect s r) = true.
Proof. intros Hs Hr. apply intersect_wf_from; assumption. Qed.

(* ---- remove ---- *)
Lemma remove_go_wf : forall fuel f l rest rem lo lr,
  (length rest + length rem < fuel)%nat ->
  lo <= f -> f <= l -> l <= CODE_POINT_MAX -> cps_wf_from (l + 2) rest = true -> cps_wf_from lr rem = true ->
  cps_wf_from lo (cps_remove_go fuel (f, l) rest rem) = true.
Proof.
  induction fuel as [|k IH]; intros f l rest rem lo lr Hfuel Hlo Hfl Hmax Hrest Hrem; [lia|].
  cbn [cps_remove_go]. cbv zeta. destruct rem as [|[rf rl] rem'].
  - wfc; assumption.
  - pose proof Hrem as Hrem0. apply wf_cons in Hrem as (R1 & R2 & R3 & R4). cbn [fst snd].
    destruct (N.ltb_spec rl f).
    + eapply IH; eauto. cbn [length] in Hfuel. lia.
    + assert (Hnext : forall rm lrm lo', lo' <= l + 2 -> (length rm <= S (length rem'))%nat -> cps_wf_from lrm rm = true ->
                cps_wf_from lo' (match rest with [] => [] | i :: rest' => cps_remove_go k i rest' rm end) = true).
      { intros rm lrm lo' Hl Hlen Hw. destruct rest as [|[f2 l2] rest']; [reflexivity|].
        apply wf_cons in Hrest as (S1 & S2 & S3 & S4). eapply IH; eauto; cbn [length] in *; lia. }
      destruct (N.ltb_spec l rf).
      * wfc; try assumption. eapply Hnext; [lia|cbn [length]; lia|exact Hrem0].
      * assert (Htail : cps_wf_from (N.max lo (rf + 1))
                  (if rl <? l then cps_remove_go k (rl + 1, l) rest rem'
                   else match rest with [] => [] | i :: rest' => cps_remove_go k i rest' ((rf, rl) :: rem') end) = true).
        { destruct (N.ltb_spec rl l).
          - eapply IH; eauto; cbn [length] in *; lia.
          - eapply Hnext; [lia|cbn [length]; lia|exact Hrem0]. }
        destruct (N.ltb_spec f rf).
        -- cbn [app]. wfc; try lia. eapply wf_from_weaken; [|exact Htail]. lia.
        -- cbn [app]. eapply wf_from_weaken; [|exact Htail]. lia.
Qed.

Lemma remove_wf s r : cps_wf s = true -> cps_wf r = true -> cps_wf (cps_remove s r) = true.
Proof.
  intros Hs Hr. unfold cps_remove. destruct s as [|[f l] rest]; [reflexivity|].
  apply wf_cons in Hs as (S1 & S2 & S3 & S4). eapply remove_go_wf; eauto; cbn [length]; lia.
Qed.
