(* ClassSetFull.v — ClassSetProofs.v with \q strings: the class set the parser builds for any v-mode class expression
   (negation only over string-free contents, as the syntax demands) has the code points and the strings ECMAScript
   gives the expression.  A string of one code point counts as that code point; the other strings are compared as
   sets (the order in which they are tried is fixed later, by length, in ClassSet::node). *)
From RV Require Import Base.
From RV.Model Require Import Utf8 CodePointSet Insn Fold IR Optimizer Unfold ClassSet.
From RV.Spec Require Import Spec.
From RV.Proofs Require Import CpsProofs CpsWf FoldRefProofs Closure ClassSetProofs.
From Coq Require Import Btauto.

(* ---- strings ---- *)
Lemma str_eqb_eq : forall a b, str_eqb a b = true <-> a = b.
Proof.
  induction a as [|x a IH]; destruct b as [|y b]; cbn [str_eqb]; try (split; [discriminate|discriminate]); [split; reflexivity|].
  rewrite andb_true_iff, N.eqb_eq, IH. split; [intros [-> ->]; reflexivity|intros E; inversion E; auto].
Qed.
Lemma list_N_eqb_eq : forall a b, list_N_eqb a b = true <-> a = b.
Proof.
  induction a as [|x a IH]; destruct b as [|y b]; cbn [list_N_eqb]; try (split; [discriminate|discriminate]); [split; reflexivity|].
  rewrite andb_true_iff, N.eqb_eq, IH. split; [intros [-> ->]; reflexivity|intros E; inversion E; auto].
Qed.
Lemma str_mem_in s l : str_mem s l = true <-> In s l.
Proof.
  unfold str_mem. rewrite existsb_exists. split.
  - intros (x & Hx & E). apply str_eqb_eq in E. subst. exact Hx.
  - intros H. exists s. split; [exact H|apply str_eqb_eq; reflexivity].
Qed.
Lemma str_in_in s l : str_in s l = true <-> In s l.
Proof.
  unfold str_in. rewrite existsb_exists. split.
  - intros (x & Hx & E). apply list_N_eqb_eq in E. subst. exact Hx.
  - intros H. exists s. split; [exact H|apply list_N_eqb_eq; reflexivity].
Qed.

Definition single_mem (alts : list (list N)) (x : N) : bool :=
  existsb (fun a : list N => match a with [c] => c =? x | _ => false end) alts.
Definition multis (alts : list (list N)) : list (list N) := filter (fun a => negb (is_single a)) alts.

Lemma single_mem_in alts x : single_mem alts x = true <-> In [x] alts.
Proof.
  unfold single_mem. rewrite existsb_exists. split.
  - intros (a & Ha & E). destruct a as [|c [|d r]]; try discriminate. apply N.eqb_eq in E. subst. exact Ha.
  - intros H. exists [x]. split; [exact H|apply N.eqb_refl].
Qed.
Lemma in_multis s alts : In s (multis alts) <-> In s alts /\ is_single s = false.
Proof. unfold multis. rewrite filter_In, negb_true_iff. reflexivity. Qed.

(* the code points of the one-code-point strings that satisfy p *)
Lemma singles_cps_contains (p : N -> bool) : forall (alts : list (list N)) (acc : cps) x,
  cps_contains (fold_left (fun (acc : cps) (a : list N) => match a with [c] => if p c then cps_add_one acc c else acc | _ => acc end) alts acc) x
  = cps_contains acc x || existsb (fun a : list N => match a with [c] => p c && (c =? x) | _ => false end) alts.
Proof.
  induction alts as [|a alts IH]; intros acc x; cbn [fold_left existsb]; [rewrite orb_false_r; reflexivity|].
  rewrite IH. destruct a as [|c [|d r]]; try reflexivity. destruct (p c); [rewrite add_one_contains, orb_assoc; reflexivity|reflexivity].
Qed.
Lemma singles_cps_wf (p : N -> bool) : forall (alts : list (list N)) (acc : cps), cps_wf acc = true -> Forall (Forall (fun c => c <= CODE_POINT_MAX)) alts ->
  cps_wf (fold_left (fun (acc : cps) (a : list N) => match a with [c] => if p c then cps_add_one acc c else acc | _ => acc end) alts acc) = true.
Proof.
  induction alts as [|a alts IH]; intros acc Hw Hb; [exact Hw|]. cbn [fold_left]. inversion Hb as [|? ? Ha Hb']; subst.
  apply IH; [|exact Hb']. destruct a as [|c [|d r]]; try exact Hw. destruct (p c); [|exact Hw].
  inversion Ha; subst. apply add_wf; [exact Hw|lia|lia|assumption].
Qed.


Lemma single_mem_app a b x : single_mem (a ++ b) x = single_mem a x || single_mem b x.
Proof. unfold single_mem. apply existsb_app. Qed.
Lemma multis_app a b : multis (a ++ b) = multis a ++ multis b.
Proof. unfold multis. apply filter_app. Qed.
Lemma single_mem_filter (q : list N -> bool) alts x : single_mem (filter q alts) x = single_mem alts x && q [x].
Proof.
  unfold single_mem. induction alts as [|a alts IH]; [reflexivity|]. cbn [filter].
  assert (Hm : (match a with [c] => c =? x | _ => false end) = true -> q a = q [x]).
  { intros H. destruct a as [|c [|d r]]; try discriminate. apply N.eqb_eq in H. subst. reflexivity. }
  destruct (q a) eqn:Eq; cbn [existsb]; rewrite IH; destruct (match a with [c] => c =? x | _ => false end) eqn:Em.
  - rewrite <- (Hm eq_refl). generalize (existsb (fun a0 : list N => match a0 with [c] => c =? x | _ => false end) alts). intro. btauto.
  - reflexivity.
  - rewrite <- (Hm eq_refl). generalize (existsb (fun a0 : list N => match a0 with [c] => c =? x | _ => false end) alts). intro. btauto.
  - reflexivity.
Qed.
Lemma str_mem_single x l : str_mem [x] l = single_mem l x.
Proof.
  unfold str_mem, single_mem. induction l as [|a l IH]; [reflexivity|]. cbn [existsb]. rewrite IH. f_equal.
  destruct a as [|c [|d r]]; cbn [str_eqb]; try reflexivity; [rewrite andb_true_r; apply N.eqb_sym|rewrite andb_false_r; reflexivity].
Qed.
Lemma singles_in_single_mem alts p x : single_mem (singles_in alts p) x = single_mem alts x && p x.
Proof. unfold singles_in. apply single_mem_filter. Qed.
Lemma multis_singles_in alts p : multis (singles_in alts p) = [].
Proof.
  unfold multis, singles_in. induction alts as [|a alts IH]; [reflexivity|]. cbn [filter].
  destruct a as [|c [|d r]]; try exact IH. destruct (p c); [cbn [filter is_single negb]; exact IH|exact IH].
Qed.
Lemma singles_cps_mem alts p x : cps_contains (singles_cps alts p) x = single_mem alts x && p x.
Proof.
  unfold singles_cps. rewrite singles_cps_contains. cbn [cps_contains existsb orb]. unfold single_mem.
  induction alts as [|a alts IH]; [reflexivity|]. cbn [existsb]. rewrite IH.
  generalize (existsb (fun a0 : list N => match a0 with [c] => c =? x | _ => false end) alts). intro b.
  destruct a as [|c [|d r]]; try reflexivity.
  destruct (N.eqb_spec c x) as [->|Hne]; [destruct (p x), b; reflexivity|destruct (p c), b; reflexivity].
Qed.
Lemma in_multis_filter (q : list N -> bool) alts s : In s (multis (filter q alts)) <-> In s (multis alts) /\ q s = true.
Proof. rewrite !in_multis, filter_In. tauto. Qed.
Lemma nonsingle_not_in_singles s alts p : is_single s = false -> str_mem s (singles_in alts p) = false.
Proof.
  intros Hs. destruct (str_mem s (singles_in alts p)) eqn:E; [|reflexivity]. apply str_mem_in in E. unfold singles_in in E.
  apply filter_In in E as [_ E]. destruct s as [|c [|d r]]; try discriminate.
Qed.

Lemma goodop_esc_inv s : goodop (OEsc s) -> cps_wf s = true.
Proof. intros H. inversion H; subst. assumption. Qed.

Section Full.
  Variable eqclass : N -> list N.
  Hypothesis Hec : forall c a, In a (eqclass c) <-> fold a = fold c.
  Notation vm := (vmem fold eqclass).
  Notation C := add_icase_code_points.

  Definition cpmem (s : cset) (x : N) : bool := cps_contains (cs_cps s) x || single_mem (cs_alts s) x.
  Definition chars_ok (alts : list (list N)) : Prop := Forall (Forall (fun c => c <= CODE_POINT_MAX)) alts.
  Definition alts_ok (ic : bool) (alts : list (list N)) : Prop :=
    if ic then Forall (fun a => is_single a = false) alts else chars_ok alts.
  Definition inv (ic : bool) (s : cset) : Prop := cps_wf (cs_cps s) = true /\ alts_ok ic (cs_alts s).

  Definition ocp (o : operand) (x : N) : bool :=
    match o with OChar c => c =? x | OEsc e => cps_contains e x | OClass c => cpmem c x | OStrs l => single_mem l x end.
  Definition ostr (o : operand) : list (list N) :=
    match o with OClass c => multis (cs_alts c) | OStrs l => multis l | _ => [] end.
  Inductive gop (ic : bool) : operand -> Prop :=
  | GoChar c : ic = false -> c <= CODE_POINT_MAX -> gop ic (OChar c)
  | GoEsc e : cps_wf e = true -> gop ic (OEsc e)
  | GoClass c : inv ic c -> gop ic (OClass c)
  | GoStrs l : ic = false -> chars_ok l -> gop ic (OStrs l).

  Lemma alts_ok_app ic a b : alts_ok ic a -> alts_ok ic b -> alts_ok ic (a ++ b).
  Proof. destruct ic; cbn [alts_ok]; unfold chars_ok; intros; apply Forall_app; auto. Qed.
  Lemma alts_ok_filter ic (q : list N -> bool) a : alts_ok ic a -> alts_ok ic (filter q a).
  Proof.
    destruct ic; cbn [alts_ok]; unfold chars_ok; intros H; rewrite Forall_forall in *; intros x Hx; apply filter_In in Hx as [Hx _]; auto.
  Qed.
  Lemma singles_wf ic alts p : alts_ok ic alts -> cps_wf (singles_cps alts p) = true.
  Proof.
    unfold singles_cps. destruct ic; cbn [alts_ok]; intros H.
    - assert (E : forall acc, fold_left (fun (acc : cps) (a : list N) => match a with [c] => if p c then cps_add_one acc c else acc | _ => acc end) alts acc = acc).
      { induction H as [|a alts Ha Hl IH]; intros acc; [reflexivity|]. cbn [fold_left].
        destruct a as [|c [|d r]]; try apply IH. discriminate. }
      rewrite E. reflexivity.
    - apply singles_cps_wf; [reflexivity|exact H].
  Qed.

  Local Ltac bt :=
    repeat match goal with
           | |- context [cps_contains ?a ?b] => generalize (cps_contains a b); intro
           | |- context [single_mem ?a ?b] => generalize (single_mem a b); intro
           | |- context [N.eqb ?a ?b] => generalize (N.eqb a b); intro
           end; btauto.

  Lemma union_full ic s o : inv ic s -> gop ic o ->
    inv ic (union_operand s o) /\
    (forall x, cpmem (union_operand s o) x = cpmem s x || ocp o x) /\
    (forall str, In str (multis (cs_alts (union_operand s o))) <-> In str (multis (cs_alts s)) \/ In str (ostr o)).
  Proof.
    intros [Hw Ha] Ho. destruct Ho as [c Hic Hc|e He|c [Hcw Hca]|l Hic Hl]; unfold cpmem; cbn [union_operand cs_cps cs_alts ocp ostr].
    - split; [split; [apply add_wf; [exact Hw|lia|lia|exact Hc]|exact Ha]|]. split; [|intros str; cbn [In]; tauto].
      intros x. rewrite add_one_contains. bt.
    - split; [split; [apply add_set_wf; assumption|exact Ha]|]. split; [|intros str; cbn [In]; tauto].
      intros x. rewrite add_set_contains by assumption. bt.
    - split; [split; [apply add_set_wf; assumption|apply alts_ok_app; assumption]|]. split.
      + intros x. rewrite add_set_contains by assumption. rewrite single_mem_app. unfold cpmem. bt.
      + intros str. rewrite multis_app, in_app_iff. reflexivity.
    - split; [split; [exact Hw|apply alts_ok_app; [exact Ha|subst ic; exact Hl]]|]. split.
      + intros x. rewrite single_mem_app. bt.
      + intros str. rewrite multis_app, in_app_iff. reflexivity.
  Qed.

  Lemma wf_single' c : c <= CODE_POINT_MAX -> cps_wf [(c, c)] = true.
  Proof. intros H. unfold cps_wf. apply wf_cons. repeat split; [lia|lia|exact H]. Qed.
  Lemma contains_single' c x : cps_contains [(c, c)] x = (c =? x).
  Proof.
    unfold cps_contains, iv_contains. cbn [existsb fst snd]. rewrite orb_false_r.
    destruct (N.eqb_spec c x) as [->|Hne]; [rewrite N.leb_refl; reflexivity|].
    destruct (N.leb_spec c x), (N.leb_spec x c); try reflexivity; lia.
  Qed.
  Lemma add_set_nil' s : cps_add_set s [] = s.
  Proof. unfold cps_add_set. cbn [length]. destruct (length s <? 0)%nat eqn:E; [apply Nat.ltb_lt in E; lia|reflexivity]. Qed.

  Lemma intersect_full ic s o : inv ic s -> gop ic o ->
    inv ic (intersect_operand s o) /\
    (forall x, cpmem (intersect_operand s o) x = cpmem s x && ocp o x) /\
    (forall str, In str (multis (cs_alts (intersect_operand s o))) <-> In str (multis (cs_alts s)) /\ In str (ostr o)).
  Proof.
    intros [Hw Ha] Ho. destruct Ho as [c Hic Hc|e He|c [Hcw Hca]|l Hic Hl]; unfold cpmem; cbn [intersect_operand cs_cps cs_alts ocp ostr].
    - subst ic. fold (single_mem (cs_alts s) c). split; [|split].
      + split; [destruct (cps_contains (cs_cps s) c); [apply wf_single'; exact Hc|reflexivity]|].
        destruct (single_mem (cs_alts s) c); cbn [alts_ok]; unfold chars_ok; [repeat constructor; exact Hc|constructor].
      + intros x. destruct (N.eqb_spec c x) as [->|Hne].
        * destruct (cps_contains (cs_cps s) x), (single_mem (cs_alts s) x); rewrite ?contains_single'; cbn [single_mem existsb cps_contains]; rewrite ?N.eqb_refl; reflexivity.
        * assert (E1 : cps_contains (if cps_contains (cs_cps s) c then [(c, c)] else []) x = false).
          { destruct (cps_contains (cs_cps s) c); [rewrite contains_single'; apply N.eqb_neq; exact Hne|reflexivity]. }
          assert (E2 : single_mem (if single_mem (cs_alts s) c then [[c]] else []) x = false).
          { destruct (single_mem (cs_alts s) c); [cbn; apply N.eqb_neq in Hne; rewrite Hne; reflexivity|reflexivity]. }
          rewrite E1, E2, andb_false_r. reflexivity.
      + intros str. destruct (single_mem (cs_alts s) c); cbn; tauto.
    - split; [split; [apply intersect_wf; assumption|unfold singles_in; apply alts_ok_filter; exact Ha]|]. split.
      + intros x. rewrite intersect_contains, singles_in_single_mem. bt.
      + intros str. rewrite multis_singles_in. cbn [In]. tauto.
    - split; [|split].
      + split; [apply add_set_wf; [apply intersect_wf; assumption|apply (singles_wf ic); exact Hca]|].
        apply alts_ok_app; [apply alts_ok_filter; exact Ha|unfold singles_in; apply alts_ok_filter; exact Ha].
      + intros x. rewrite add_set_contains by (try (apply intersect_wf; assumption); apply (singles_wf ic); exact Hca).
        rewrite intersect_contains, singles_cps_mem, single_mem_app, single_mem_filter, singles_in_single_mem, str_mem_single.
        unfold cpmem. bt.
      + intros str. rewrite multis_app, in_app_iff, multis_singles_in, in_multis_filter, str_mem_in, !in_multis. cbn [In]. tauto.
    - subst ic. split; [|split].
      + split; [apply (singles_wf false); exact Hl|apply alts_ok_filter; exact Ha].
      + intros x. rewrite singles_cps_mem, single_mem_filter, str_mem_single. bt.
      + intros str. rewrite in_multis_filter, str_mem_in, !in_multis. tauto.
  Qed.

  Lemma remove_nil s : cps_remove s [] = s.
  Proof. unfold cps_remove. destruct s as [|i rest]; [reflexivity|]. cbn [cps_remove_go]. reflexivity. Qed.
  Lemma nonsingle_str_mem_single str c : is_single str = false -> str_mem str [[c]] = false.
  Proof. intros H. destruct str as [|a [|b r]]; try discriminate; unfold str_mem; cbn [existsb str_eqb]; rewrite ?andb_false_r; reflexivity. Qed.

  Lemma subtract_full ic s o : inv ic s -> gop ic o ->
    inv ic (subtract_operand s o) /\
    (forall x, cpmem (subtract_operand s o) x = cpmem s x && negb (ocp o x)) /\
    (forall str, In str (multis (cs_alts (subtract_operand s o))) <-> In str (multis (cs_alts s)) /\ ~ In str (ostr o)).
  Proof.
    intros [Hw Ha] Ho. destruct Ho as [c Hic Hc|e He|c [Hcw Hca]|l Hic Hl]; unfold cpmem; cbn [subtract_operand cs_cps cs_alts ocp ostr].
    - split; [split; [apply remove_wf; [exact Hw|apply wf_single'; exact Hc]|apply alts_ok_filter; exact Ha]|]. split.
      + intros x. rewrite remove_contains by (try exact Hw; apply wf_single'; exact Hc). rewrite contains_single', single_mem_filter.
        rewrite str_mem_single. cbn [single_mem existsb]. rewrite orb_false_r, (N.eqb_sym c x). bt.
      + intros str. rewrite in_multis_filter, !in_multis. cbn [In]. split.
        * intros [[H1 H2] _]. tauto.
        * intros [[H1 H2] _]. rewrite (nonsingle_str_mem_single _ _ H2). cbn. tauto.
    - split; [split; [apply remove_wf; assumption|apply alts_ok_filter; exact Ha]|]. split.
      + intros x. rewrite remove_contains by assumption. rewrite single_mem_filter, str_mem_single, singles_in_single_mem. bt.
      + intros str. rewrite in_multis_filter, !in_multis. cbn [In]. split.
        * intros [[H1 H2] _]. tauto.
        * intros [[H1 H2] _]. rewrite (nonsingle_not_in_singles _ _ _ H2). cbn. tauto.
    - assert (Wr : cps_wf (singles_cps (cs_alts c) (cps_contains (cs_cps s))) = true) by (apply (singles_wf ic); exact Hca).
      split; [|split].
      + split; [apply remove_wf; [apply remove_wf; assumption|exact Hcw]|apply alts_ok_filter, alts_ok_filter; exact Ha].
      + intros x. rewrite remove_contains by (try exact Hcw; apply remove_wf; assumption). rewrite remove_contains by assumption.
        rewrite singles_cps_mem, !single_mem_filter, !str_mem_single, singles_in_single_mem. unfold cpmem. bt.
      + intros str. rewrite !in_multis_filter, !in_multis. split.
        * intros [[[H1 H2] H3] H4]. apply negb_true_iff in H4. split; [tauto|]. intros [H5 _]. apply str_mem_in in H5. congruence.
        * intros [[H1 H2] H3]. split; [split; [tauto|]|].
          -- rewrite (nonsingle_not_in_singles _ _ _ H2). reflexivity.
          -- apply negb_true_iff. destruct (str_mem str (cs_alts c)) eqn:E; [|reflexivity]. apply str_mem_in in E. tauto.
    - subst ic. assert (Wr : cps_wf (singles_cps l (cps_contains (cs_cps s))) = true) by (apply (singles_wf false); exact Hl).
      split; [split; [apply remove_wf; assumption|apply alts_ok_filter; exact Ha]|]. split.
      + intros x. rewrite remove_contains by assumption. rewrite singles_cps_mem, single_mem_filter, str_mem_single. bt.
      + intros str. rewrite in_multis_filter, !in_multis. split.
        * intros [[H1 H2] H4]. apply negb_true_iff in H4. split; [tauto|]. intros [H5 _]. apply str_mem_in in H5. congruence.
        * intros [[H1 H2] H3]. split; [tauto|]. apply negb_true_iff. destruct (str_mem str l) eqn:E; [|reflexivity].
          apply str_mem_in in E. tauto.
  Qed.

  (* ---- well-formed expressions with strings: characters inside the code space, negation over string-free contents ---- *)
  Fixpoint vok (e : vexpr) : bool :=
    match e with
    | VStrs l => forallb (forallb (fun c => c <=? CODE_POINT_MAX)) l
    | VNeg e' => vwf e' && sfree e'
    | VUnion l | VInter l | VSub l => (fix go (l : list vexpr) : bool := match l with [] => true | x :: t => vok x && go t end) l
    | other => vwf other
    end.
  Lemma vok_list l : (fix go (l : list vexpr) : bool := match l with [] => true | x :: t => vok x && go t end) l = forallb vok l.
  Proof. induction l as [|x t IH]; [reflexivity|]. cbn [forallb]. rewrite IH. reflexivity. Qed.

  Notation vs := (vstrs fold).
  Definition means_full (ic : bool) (e : vexpr) : Prop :=
    inv ic (eval ic e) /\
    (forall x, x <= CODE_POINT_MAX -> cpmem (eval ic e) x = vm ic e x) /\
    (forall str, In str (multis (cs_alts (eval ic e))) <-> In str (vs ic e)).

  Lemma no_single_mem alts x : Forall (fun a => is_single a = false) alts -> single_mem alts x = false.
  Proof.
    intros H. destruct (single_mem alts x) eqn:E; [|reflexivity]. apply single_mem_in in E. rewrite Forall_forall in H.
    specialize (H _ E). discriminate.
  Qed.
  Lemma multis_all alts : Forall (fun a => is_single a = false) alts -> multis alts = alts.
  Proof.
    intros H. unfold multis. induction H as [|a alts Ha Hl IH]; [reflexivity|]. cbn [filter]. rewrite Ha, IH. reflexivity.
  Qed.
  Lemma cpmem_ic s x : inv true s -> cpmem s x = cps_contains (cs_cps s) x.
  Proof. intros [_ Ha]. unfold cpmem. cbn [alts_ok] in Ha. rewrite (no_single_mem _ _ Ha), orb_false_r. reflexivity. Qed.

  Lemma is_single_len (s : list N) : negb (length s =? 1)%nat = negb (is_single s).
  Proof. destruct s as [|a [|b r]]; reflexivity. Qed.
  Lemma multis_as_filter l : filter (fun s : list N => negb (length s =? 1)%nat) l = multis l.
  Proof. unfold multis. apply filter_ext. intros a. apply is_single_len. Qed.

  Local Opaque add_icase_code_points.
  Lemma opnd_full_ch ic c : vok (VCh c) = true ->
    gop ic (fold_operand ic (opnd ic (VCh c))) /\
    (forall c0, c0 <= CODE_POINT_MAX -> ocp (fold_operand ic (opnd ic (VCh c))) c0 = vm ic (VCh c) c0) /\
    (forall str, In str (ostr (fold_operand ic (opnd ic (VCh c)))) <-> In str (vs ic (VCh c))).
  Proof.
    intros Hok. unfold opnd. cbn [leaf_operand].
      destruct (opnd_spec eqclass Hec ic (VCh c) Hok eq_refl ltac:(discriminate)) as [G M]. unfold opnd in G, M. cbn [leaf_operand] in G, M.
      cbn [vok vwf] in Hok. apply N.leb_le in Hok.
      destruct ic; cbn [fold_operand negb] in *.
      + split; [constructor; apply goodop_esc_inv; exact G|]. split; [intros c0 Hc0; cbn [ocp]; specialize (M c0 Hc0); cbn [omem] in M; exact M|intros str; cbn [vstrs ostr In]; tauto].
      + split; [constructor; [reflexivity|exact Hok]|]. split; [intros c0 Hc0; cbn [ocp]; specialize (M c0 Hc0); cbn [omem] in M; exact M|intros str; cbn [vstrs ostr In]; tauto].
  Qed.
  Lemma opnd_full_esc ic n rs : vok (VEsc n rs) = true ->
    gop ic (fold_operand ic (opnd ic (VEsc n rs))) /\
    (forall c0, c0 <= CODE_POINT_MAX -> ocp (fold_operand ic (opnd ic (VEsc n rs))) c0 = vm ic (VEsc n rs) c0) /\
    (forall str, In str (ostr (fold_operand ic (opnd ic (VEsc n rs)))) <-> In str (vs ic (VEsc n rs))).
  Proof.
    intros Hok. unfold opnd. cbn [leaf_operand].
      destruct (opnd_spec eqclass Hec ic (VEsc n rs) Hok eq_refl ltac:(discriminate)) as [G M]. unfold opnd in G, M. cbn [leaf_operand] in G, M.
      destruct ic; cbn [fold_operand negb] in *;
        (split; [constructor; apply goodop_esc_inv; exact G|]; split; [intros c0 Hc0; cbn [ocp]; specialize (M c0 Hc0); cbn [omem] in M; exact M|intros str; cbn [vstrs ostr In]; tauto]).
  Qed.
  Lemma opnd_full_strs ic l : vok (VStrs l) = true ->
    gop ic (fold_operand ic (opnd ic (VStrs l))) /\
    (forall c0, c0 <= CODE_POINT_MAX -> ocp (fold_operand ic (opnd ic (VStrs l))) c0 = vm ic (VStrs l) c0) /\
    (forall str, In str (ostr (fold_operand ic (opnd ic (VStrs l)))) <-> In str (vs ic (VStrs l))).
  Proof.
    intros Hok. unfold opnd. cbn [leaf_operand].
      cbn [vok] in Hok.
      assert (Hch : chars_ok l).
      { unfold chars_ok. rewrite Forall_forall. intros a Ha. rewrite forallb_forall in Hok. specialize (Hok a Ha).
        rewrite Forall_forall. intros c Hc. rewrite forallb_forall in Hok. apply N.leb_le. apply Hok. exact Hc. }
      destruct ic; cbn [fold_operand negb].
      + set (singles := fold_left (fun (acc : cps) (s0 : list N) => match s0 with [c] => cps_add_one acc c | _ => acc end) l []).
        assert (Es : singles = singles_cps l (fun _ => true)) by reflexivity.
        assert (Hns : Forall (fun a => is_single a = false) (map (map fold) (filter (fun s0 => negb (is_single s0)) l))).
        { rewrite Forall_forall. intros a Ha. apply in_map_iff in Ha as (b & <- & Hb). apply filter_In in Hb as [_ Hb].
          apply negb_true_iff in Hb. destruct b as [|u [|v r]]; try reflexivity. discriminate. }
        split; [|split].
        * constructor. split; [cbn [cs_cps]; apply C_wf; rewrite Es; apply (singles_wf false); exact Hch|exact Hns].
        * intros c Hc. cbn [ocp]. unfold cpmem. cbn [cs_cps cs_alts]. rewrite (no_single_mem _ _ Hns), orb_false_r.
          cbn [vmem]. apply eq_true_iff_eq. rewrite C_spec by exact Hec. rewrite Es. split.
          -- intros (a & Ha & Ea). rewrite singles_cps_mem, andb_true_r in Ha. apply single_mem_in in Ha.
             apply existsb_exists. exists [a]. split; [exact Ha|]. unfold char_matches. apply N.eqb_eq. exact Ea.
          -- intros H. apply existsb_exists in H as (st & Hst & Hm'). destruct st as [|a [|b r]]; try discriminate.
             unfold char_matches in Hm'. apply N.eqb_eq in Hm'. exists a. rewrite singles_cps_mem, andb_true_r. split; [|exact Hm'].
             apply single_mem_in. exact Hst.
        * intros str. cbn [ostr cs_alts vstrs]. rewrite (multis_all _ Hns), multis_as_filter. unfold cn. reflexivity.
      + split; [constructor; [reflexivity|exact Hch]|]. split.
        * intros c _. cbn [ocp vmem]. unfold single_mem, char_matches. reflexivity.
        * intros str. cbn [ostr vstrs]. rewrite multis_as_filter. unfold cn.
          assert (E : map (map (fun c : N => c)) (multis l) = multis l).
          { induction (multis l) as [|a t IH]; [reflexivity|]. cbn [map]. rewrite IH, map_id. reflexivity. }
          rewrite E. reflexivity.
  Qed.

  Lemma opnd_full ic x : vok x = true -> (leaf_operand ic x = None -> means_full ic x) ->
    gop ic (fold_operand ic (opnd ic x)) /\
    (forall c, c <= CODE_POINT_MAX -> ocp (fold_operand ic (opnd ic x)) c = vm ic x c) /\
    (forall str, In str (ostr (fold_operand ic (opnd ic x))) <-> In str (vs ic x)).
  Proof.
    intros Hok Hm.
    assert (Hnl : leaf_operand ic x = None -> gop ic (fold_operand ic (OClass (eval ic x))) /\
                  (forall c, c <= CODE_POINT_MAX -> ocp (fold_operand ic (OClass (eval ic x))) c = vm ic x c) /\
                  (forall str, In str (ostr (fold_operand ic (OClass (eval ic x)))) <-> In str (vs ic x))).
    { intros Hl. destruct (Hm Hl) as (I & M & S). destruct ic; cbn [fold_operand negb ocp ostr]; (split; [constructor; exact I|split; [exact M|exact S]]). }
    unfold opnd. destruct x as [c|a b|n rs|l|l|l|l|e']; cbn [leaf_operand] in *; try (apply Hnl; reflexivity).
    - apply opnd_full_ch; exact Hok.
    - apply opnd_full_esc; exact Hok.
    - apply opnd_full_strs; exact Hok.
  Qed.

  (* ---- the folds of consume_class_set_expression, with strings ---- *)
  Definition fitem_ok (ic : bool) (x : vexpr) : Prop := vok x = true /\ (leaf_operand ic x = None -> means_full ic x).
  Definition fuitem_ok (ic : bool) (x : vexpr) : Prop :=
    vok x = true /\ match x with VRange _ _ => True | _ => leaf_operand ic x = None -> means_full ic x end.

  Lemma inv_new ic : inv ic cs_new.
  Proof. split; [reflexivity|]. destruct ic; cbn [alts_ok cs_new cs_alts]; constructor. Qed.

  Lemma ustep_full ic acc it : inv ic acc -> fitem_ok ic it ->
    let U := union_operand acc (fold_operand ic (opnd ic it)) in
    inv ic U /\ (forall x, x <= CODE_POINT_MAX -> cpmem U x = cpmem acc x || vm ic it x) /\
    (forall str, In str (multis (cs_alts U)) <-> In str (multis (cs_alts acc)) \/ In str (vs ic it)).
  Proof.
    intros Hi [Hok Hm] U. destruct (opnd_full ic it Hok Hm) as (G & M & S). destruct (union_full ic acc _ Hi G) as (I & Mc & Ms).
    split; [exact I|]. split.
    - intros x Hx. subst U. rewrite Mc, (M x Hx). reflexivity.
    - intros str. subst U. rewrite Ms, S. reflexivity.
  Qed.

  Lemma ugo_full ic : forall l acc, Forall (fuitem_ok ic) l -> inv ic acc ->
    inv ic (ugo ic l acc) /\
    (forall x, x <= CODE_POINT_MAX -> cpmem (ugo ic l acc) x = cpmem acc x || existsb (raw eqclass ic x) l) /\
    (forall str, In str (multis (cs_alts (ugo ic l acc))) <-> In str (multis (cs_alts acc)) \/ exists it, In it l /\ In str (vs ic it)).
  Proof.
    induction l as [|it t IH]; intros acc HF Hi.
    - split; [exact Hi|]. split; [intros x _; cbn; rewrite orb_false_r; reflexivity|]. intros str. cbn [ugo]. split; [auto|intros [H|(it & [] & _)]; exact H].
    - inversion HF as [|? ? [Hok Hm] Ht]; subst. cbn [ugo]. fold (ugo ic).
      assert (Hstep : forall acc', (inv ic acc' /\ (forall x, x <= CODE_POINT_MAX -> cpmem acc' x = cpmem acc x || raw eqclass ic x it) /\
                         (forall str, In str (multis (cs_alts acc')) <-> In str (multis (cs_alts acc)) \/ In str (vs ic it))) ->
                inv ic (ugo ic t acc') /\
                (forall x, x <= CODE_POINT_MAX -> cpmem (ugo ic t acc') x = cpmem acc x || existsb (raw eqclass ic x) (it :: t)) /\
                (forall str, In str (multis (cs_alts (ugo ic t acc'))) <-> In str (multis (cs_alts acc)) \/ exists it', In it' (it :: t) /\ In str (vs ic it'))).
      { intros acc' (I & M & S). destruct (IH acc' Ht I) as (I2 & M2 & S2). split; [exact I2|]. split.
        - intros x Hx. rewrite (M2 x Hx), (M x Hx). cbn [existsb]. rewrite orb_assoc. reflexivity.
        - intros str. rewrite S2, S. split.
          + intros [[H|H]|(it' & Hi' & H)]; [left; exact H|right; exists it; split; [left; reflexivity|exact H]|right; exists it'; split; [right; exact Hi'|exact H]].
          + intros [H|(it' & [<-|Hi'] & H)]; [left; left; exact H|left; right; exact H|right; exists it'; auto]. }
      destruct it as [c|a b|n rs|ls|l0|l0|l0|e']; try (apply Hstep; apply ustep_full; [exact Hi|split; [exact Hok|exact Hm]]).
      apply Hstep. destruct Hi as [Hw Ha]. cbn [vok vwf] in Hok. apply andb_true_iff in Hok as [W1 W2]. apply N.leb_le in W1, W2.
      split; [split; [cbn [cs_cps]; apply add_wf; [exact Hw|lia|exact W1|exact W2]|exact Ha]|]. split.
      + intros x _. unfold cpmem. cbn [cs_cps cs_alts raw]. rewrite add_contains by exact W1.
        generalize (cps_contains (cs_cps acc) x) (single_mem (cs_alts acc) x) (inb x a b). intros. btauto.
      + intros str. cbn [cs_alts vstrs In]. tauto.
  Qed.

  Lemma close_full ic e s : inv ic s -> (forall x, x <= CODE_POINT_MAX -> cpmem s x = vm ic e x) ->
    inv ic (close ic s) /\ (forall x, x <= CODE_POINT_MAX -> cpmem (close ic s) x = vm ic e x) /\ cs_alts (close ic s) = cs_alts s.
  Proof.
    intros Hi M. destruct ic; cbn [close]; [|split; [exact Hi|split; [exact M|reflexivity]]].
    destruct Hi as [Hw Ha]. assert (Hi' : inv true (mkCset (C (cs_cps s)) (cs_alts s) (cs_mcs s))) by (split; [apply C_wf; exact Hw|exact Ha]).
    split; [exact Hi'|]. split; [|reflexivity]. intros x Hx. rewrite cpmem_ic by exact Hi'. cbn [cs_cps].
    rewrite (C_of_closed_bounded eqclass Hec); [rewrite <- (M x Hx); symmetry; apply cpmem_ic; split; assumption|exact Hw| |exact Hx].
    intros a b Hab Hb E. rewrite <- !(cpmem_ic s) by (split; assumption). rewrite (M a Hab), (M b Hb). apply (vm_closed eqclass Hec). exact E.
  Qed.

  Lemma vs_union ic str : forall l,
    In str ((fix go (l0 : list vexpr) : list (list N) := match l0 with [] => [] | e0 :: t => vs ic e0 ++ go t end) l) <->
    exists it, In it l /\ In str (vs ic it).
  Proof.
    induction l as [|it t IH]; [split; [intros []|intros (? & [] & _)]|]. rewrite in_app_iff, IH. split.
    - intros [H|(it' & Hi & H)]; [exists it; split; [left; reflexivity|exact H]|exists it'; split; [right; exact Hi|exact H]].
    - intros (it' & [<-|Hi] & H); [left; exact H|right; exists it'; auto].
  Qed.

  Lemma union_means_full ic l : Forall (fuitem_ok ic) l -> means_full ic (VUnion l).
  Proof.
    intros HF. unfold means_full. change (eval ic (VUnion l)) with (close ic (ugo ic l cs_new)).
    destruct (ugo_full ic l cs_new HF (inv_new ic)) as (I & M & S).
    assert (Hoks : forall it, In it l -> vwf it = true \/ (forall a b, it <> VRange a b)).
    { intros it Hit. destruct it; try (right; intros; discriminate). left. rewrite Forall_forall in HF. destruct (HF _ Hit) as [Hok _]. exact Hok. }
    assert (Mfin : forall ch, ch <= CODE_POINT_MAX -> cpmem (close ic (ugo ic l cs_new)) ch = vm ic (VUnion l) ch).
    { destruct ic; cbn [close].
      - intros ch Hch. destruct I as [Hw Ha].
        assert (Hi' : inv true (mkCset (C (cs_cps (ugo true l cs_new))) (cs_alts (ugo true l cs_new)) (cs_mcs (ugo true l cs_new))))
          by (split; [apply C_wf; exact Hw|exact Ha]).
        rewrite cpmem_ic by exact Hi'. cbn [cs_cps]. apply eq_true_iff_eq. rewrite C_spec. cbn [vmem].
        assert (Hv : (fix go (l : list vexpr) : bool := match l with [] => false | e :: t => vm true e ch || go t end) l = true <->
                     exists it, In it l /\ vm true it ch = true).
        { clear. induction l as [|it t IH]; [split; [discriminate|intros (? & [] & _)]|]. rewrite orb_true_iff, IH. split.
          - intros [H|(it' & Hi & H)]; [exists it; split; [left; reflexivity|exact H]|exists it'; split; [right; exact Hi|exact H]].
          - intros (it' & [<-|Hi] & H); [left; exact H|right; exists it'; auto]. }
        rewrite Hv. split.
        + intros (a & Ha' & Ea). pose proof (bounded_mem eqclass Hec _ _ Hw Ha') as Hab.
          rewrite <- (cpmem_ic (ugo true l cs_new)) in Ha' by (split; assumption). rewrite (M a Hab) in Ha'. cbn in Ha'.
          apply existsb_exists in Ha' as (it & Hit & Hr). exists it. split; [exact Hit|].
          destruct it as [c|ra rb|n rs|ls|l0|l0|l0|e']; try (cbn [raw] in Hr; rewrite <- (vm_closed eqclass Hec _ a ch Ea); exact Hr).
          destruct (Hoks _ Hit) as [Hwf|Hne]; [|exfalso; eapply Hne; reflexivity].
          apply (raw_true eqclass Hec (VRange ra rb) ch Hwf Hch). exists a. auto.
        + intros (it & Hit & Hv'). 
          assert (Hex : exists a, a <= CODE_POINT_MAX /\ raw eqclass true a it = true /\ fold a = fold ch).
          { destruct it as [c|ra rb|n rs|ls|l0|l0|l0|e']; try solve [exists ch; cbn [raw]; auto].
            destruct (Hoks _ Hit) as [Hwf|Hne]; [|exfalso; eapply Hne; reflexivity].
            apply (raw_true eqclass Hec (VRange ra rb) ch Hwf Hch). exact Hv'. }
          destruct Hex as (a & Hab & Hr & Ea). exists a. split; [|exact Ea].
          rewrite <- (cpmem_ic (ugo true l cs_new)) by (split; assumption). rewrite (M a Hab). cbn. apply existsb_exists. exists it. auto.
      - intros x Hx. rewrite (M x Hx). cbn [vmem]. unfold cpmem. cbn [cs_new cs_cps cs_alts cps_contains single_mem existsb orb].
        clear. induction l as [|it t IH]; [reflexivity|]. cbn [existsb]. rewrite (raw_false eqclass), IH. reflexivity. }
    assert (Ealts : cs_alts (close ic (ugo ic l cs_new)) = cs_alts (ugo ic l cs_new)) by (destruct ic; reflexivity).
    split; [|split; [exact Mfin|]].
    - destruct ic; cbn [close]; [|exact I]. destruct I as [Hw Ha]. split; [apply C_wf; exact Hw|exact Ha].
    - intros str. rewrite Ealts, S. cbn [cs_new cs_alts multis filter vstrs]. rewrite vs_union. cbn [In]. tauto.
  Qed.

  Lemma igo_full ic : forall l acc, Forall (fitem_ok ic) l -> inv ic acc ->
    inv ic (igo ic l acc) /\
    (forall x, x <= CODE_POINT_MAX -> cpmem (igo ic l acc) x = cpmem acc x && forallb (fun it => vm ic it x) l) /\
    (forall str, In str (multis (cs_alts (igo ic l acc))) <-> In str (multis (cs_alts acc)) /\ forall it, In it l -> In str (vs ic it)).
  Proof.
    induction l as [|it t IH]; intros acc HF Hi.
    - split; [exact Hi|]. split; [intros x _; cbn; rewrite andb_true_r; reflexivity|]. intros str. cbn [igo]. split; [intros H; split; [exact H|intros it []]|tauto].
    - inversion HF as [|? ? [Hok Hm] Ht]; subst. cbn [igo]. fold (igo ic).
      destruct (opnd_full ic it Hok Hm) as (G & M & S). destruct (intersect_full ic acc _ Hi G) as (I & Mc & Ms).
      destruct (IH _ Ht I) as (I2 & M2 & S2). split; [exact I2|]. split.
      + intros x Hx. rewrite (M2 x Hx), Mc, (M x Hx). cbn [forallb]. rewrite andb_assoc. reflexivity.
      + intros str. rewrite S2, Ms, S. split.
        * intros [[H1 H2] H3]. split; [exact H1|]. intros it' [<-|Hi']; [exact H2|apply H3; exact Hi'].
        * intros [H1 H2]. split; [split; [exact H1|apply H2; left; reflexivity]|intros it' Hi'; apply H2; right; exact Hi'].
  Qed.
  Lemma sgo_full ic : forall l acc, Forall (fitem_ok ic) l -> inv ic acc ->
    inv ic (sgo ic l acc) /\
    (forall x, x <= CODE_POINT_MAX -> cpmem (sgo ic l acc) x = cpmem acc x && negb (existsb (fun it => vm ic it x) l)) /\
    (forall str, In str (multis (cs_alts (sgo ic l acc))) <-> In str (multis (cs_alts acc)) /\ forall it, In it l -> ~ In str (vs ic it)).
  Proof.
    induction l as [|it t IH]; intros acc HF Hi.
    - split; [exact Hi|]. split; [intros x _; cbn; rewrite andb_true_r; reflexivity|]. intros str. cbn [sgo]. split; [intros H; split; [exact H|intros it []]|tauto].
    - inversion HF as [|? ? [Hok Hm] Ht]; subst. cbn [sgo]. fold (sgo ic).
      destruct (opnd_full ic it Hok Hm) as (G & M & S). destruct (subtract_full ic acc _ Hi G) as (I & Mc & Ms).
      destruct (IH _ Ht I) as (I2 & M2 & S2). split; [exact I2|]. split.
      + intros x Hx. rewrite (M2 x Hx), Mc, (M x Hx). cbn [existsb]. rewrite negb_orb, andb_assoc. reflexivity.
      + intros str. rewrite S2, Ms, S. split.
        * intros [[H1 H2] H3]. split; [exact H1|]. intros it' [<-|Hi']; [exact H2|apply H3; exact Hi'].
        * intros [H1 H2]. split; [split; [exact H1|apply H2; left; reflexivity]|intros it' Hi'; apply H2; right; exact Hi'].
  Qed.

  Lemma all_in str ic : forall t,
    (fix go (l0 : list vexpr) : bool := match l0 with [] => true | e0 :: t0 => str_in str (vs ic e0) && go t0 end) t = true <->
    forall it, In it t -> In str (vs ic it).
  Proof.
    induction t as [|e t IH]; [split; [intros _ it []|reflexivity]|]. rewrite andb_true_iff, IH, str_in_in. split.
    - intros [H1 H2] it [<-|Hi]; [exact H1|apply H2; exact Hi].
    - intros H. split; [apply H; left; reflexivity|intros it Hi; apply H; right; exact Hi].
  Qed.
  Lemma any_in str ic : forall t,
    (fix go (l0 : list vexpr) : bool := match l0 with [] => false | e0 :: t0 => str_in str (vs ic e0) || go t0 end) t = false <->
    forall it, In it t -> ~ In str (vs ic it).
  Proof.
    induction t as [|e t IH]; [split; [intros _ it []|reflexivity]|]. rewrite orb_false_iff, IH. split.
    - intros [H1 H2] it [<-|Hi]; [intros Hin; apply str_in_in in Hin; congruence|apply H2; exact Hi].
    - intros H. split; [destruct (str_in str (vs ic e)) eqn:E; [apply str_in_in in E; exfalso; eapply H; [left; reflexivity|exact E]|reflexivity]|
                        intros it Hi; apply H; right; exact Hi].
  Qed.

  Lemma finish ic e s : inv ic s -> (forall x, x <= CODE_POINT_MAX -> cpmem s x = vm ic e x) ->
    (forall str, In str (multis (cs_alts s)) <-> In str (vs ic e)) -> eval ic e = close ic s -> means_full ic e.
  Proof.
    intros Hi M S E. unfold means_full. rewrite E. destruct (close_full ic e s Hi M) as (I & Mc & Ea).
    split; [exact I|split; [exact Mc|]]. intros str. rewrite Ea. apply S.
  Qed.

  Lemma inter_means_full ic l : Forall (fitem_ok ic) l -> means_full ic (VInter l).
  Proof.
    intros HF. destruct l as [|h t].
    - split; [apply inv_new|]. split; [intros x _; reflexivity|intros str; cbn; tauto].
    - inversion HF as [|? ? Hh Ht]; subst.
      destruct (ustep_full ic cs_new h (inv_new ic) Hh) as (I0 & M0 & S0). cbv zeta in I0, M0, S0.
      destruct (igo_full ic t _ Ht I0) as (I & M & S).
      apply (finish ic _ (igo ic t (union_operand cs_new (fold_operand ic (opnd ic h))))); [exact I| | |reflexivity].
      + intros x Hx. rewrite (M x Hx), (M0 x Hx). reflexivity.
      + intros str. rewrite S, S0. cbn [cs_new cs_alts multis filter In vstrs]. rewrite filter_In, all_in. tauto.
  Qed.
  Lemma sub_means_full ic l : Forall (fitem_ok ic) l -> means_full ic (VSub l).
  Proof.
    intros HF. destruct l as [|h t].
    - split; [apply inv_new|]. split; [intros x _; reflexivity|intros str; cbn; tauto].
    - inversion HF as [|? ? Hh Ht]; subst.
      destruct (ustep_full ic cs_new h (inv_new ic) Hh) as (I0 & M0 & S0). cbv zeta in I0, M0, S0.
      destruct (sgo_full ic t _ Ht I0) as (I & M & S).
      apply (finish ic _ (sgo ic t (union_operand cs_new (fold_operand ic (opnd ic h))))); [exact I| | |reflexivity].
      + intros x Hx. rewrite (M x Hx), (M0 x Hx). reflexivity.
      + intros str. rewrite S, S0. cbn [cs_new cs_alts multis filter In vstrs]. rewrite filter_In, negb_true_iff, any_in. tauto.
  Qed.

  Lemma leaf_means_full ic x o : leaf_operand ic x = Some o -> vok x = true ->
    eval ic x = close ic (union_operand cs_new (fold_operand ic o)) -> means_full ic x.
  Proof.
    intros Hl Hok Ee.
    assert (Hi : fitem_ok ic x) by (split; [exact Hok|rewrite Hl; discriminate]).
    destruct (ustep_full ic cs_new x (inv_new ic) Hi) as (I & M & S). cbv zeta in I, M, S. unfold opnd in I, M, S. rewrite Hl in I, M, S.
    apply (finish ic x _ I); [intros c Hc; rewrite (M c Hc); reflexivity| |exact Ee].
    intros str. rewrite S. cbn [cs_new cs_alts multis filter In]. tauto.
  Qed.

  (* ---- the theorem, with strings ---- *)
  Theorem eval_means_full ic : forall e, vok e = true -> means_full ic e.
  Proof.
    assert (Hitems : forall l, Forall (fun e => vok e = true -> means_full ic e) l -> forallb vok l = true -> Forall (fitem_ok ic) l).
    { induction 1 as [|x t Hx Ht IH]; intros Hw; [constructor|]. cbn [forallb] in Hw. apply andb_true_iff in Hw as [W1 W2].
      constructor; [|apply IH; assumption]. split; [exact W1|intros _; apply Hx; exact W1]. }
    induction e as [c|a b|n rs|l|l H|l H|l H|e IH] using vexpr_ind2; intros Hok.
    - eapply leaf_means_full; [reflexivity|exact Hok|reflexivity].
    - assert (Hu : means_full ic (VUnion [VRange a b])).
      { apply union_means_full. constructor; [|constructor]. split; [exact Hok|exact I]. }
      destruct Hu as (G & M & S). change (eval ic (VUnion [VRange a b])) with (eval ic (VRange a b)) in G, M, S.
      split; [exact G|]. split; [intros x Hx; rewrite (M x Hx); cbn [vmem]; rewrite orb_false_r; reflexivity|].
      intros str. rewrite S. cbn [vstrs app]. reflexivity.
    - eapply leaf_means_full; [reflexivity|exact Hok|reflexivity].
    - eapply leaf_means_full; [reflexivity|exact Hok|reflexivity].
    - cbn [vok] in Hok. rewrite vok_list in Hok. apply union_means_full. pose proof (Hitems l H Hok) as HI. clear - HI.
      induction HI as [|x t (W & M) Ht IH]; constructor; [|exact IH]. split; [exact W|destruct x; try exact M; exact I].
    - cbn [vok] in Hok. rewrite vok_list in Hok. apply inter_means_full. apply Hitems; assumption.
    - cbn [vok] in Hok. rewrite vok_list in Hok. apply sub_means_full. apply Hitems; assumption.
    - cbn [vok] in Hok. apply andb_true_iff in Hok as [Hwf Hsf].
      destruct (eval_means eqclass Hec ic e Hwf Hsf) as [[Ha Hw] M]. unfold means_full. cbn [eval cs_cps cs_alts].
      split; [split; [cbn [cs_cps]; apply inverted_wf; exact Hw|cbn [cs_alts]; rewrite Ha; destruct ic; constructor]|]. split.
      + intros x Hx. unfold cpmem. cbn [cs_cps cs_alts]. rewrite Ha. cbn [single_mem existsb]. rewrite orb_false_r.
        rewrite inverted_contains by assumption. rewrite (M x Hx). reflexivity.
      + intros str. cbn [cs_alts]. rewrite Ha. cbn. tauto.
  Qed.
End Full.
