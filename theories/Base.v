(* Base.v — shared utilities for the regress models.  Stdlib only. *)
From Coq Require Export List NArith ZArith Arith Bool Lia.
Export ListNotations.
Global Open Scope N_scope.

Arguments N.add : simpl never.
Arguments N.sub : simpl never.
Arguments N.mul : simpl never.
Arguments N.eqb : simpl never.
Arguments N.ltb : simpl never.
Arguments N.leb : simpl never.
Arguments N.land : simpl never.
Arguments N.lor : simpl never.
Arguments N.shiftl : simpl never.
Arguments N.shiftr : simpl never.

(* Replace the n-th element of a list (no-op when out of range). *)
Fixpoint set_nth {A} (n : nat) (x : A) (l : list A) : list A :=
  match l, n with
  | [], _ => []
  | _ :: t, O => x :: t
  | h :: t, S n' => h :: set_nth n' x t
  end.

Lemma set_nth_length {A} n (x : A) l : length (set_nth n x l) = length l.
Proof. revert n; induction l as [|h t IH]; intros [|n]; simpl; auto. Qed.

Lemma nth_error_set_nth_eq {A} n (x : A) l :
  (n < length l)%nat -> nth_error (set_nth n x l) n = Some x.
Proof.
  revert n; induction l as [|h t IH]; intros [|n] H; simpl in *; try lia; auto.
  apply IH; lia.
Qed.

Lemma nth_error_set_nth_neq {A} n m (x : A) l :
  n <> m -> nth_error (set_nth n x l) m = nth_error l m.
Proof.
  revert n m; induction l as [|h t IH]; intros [|n] [|m] H; simpl; auto; try congruence.
Qed.

(* Sub-list [a, b) of a list. *)
Definition slice {A} (l : list A) (a b : nat) : list A := firstn (b - a) (skipn a l).

Definition list_eqb {A} (eqb : A -> A -> bool) :=
  fix go (l1 l2 : list A) : bool :=
    match l1, l2 with
    | [], [] => true
    | x :: t1, y :: t2 => eqb x y && go t1 t2
    | _, _ => false
    end.

Definition opt_eqb {A} (eqb : A -> A -> bool) (a b : option A) : bool :=
  match a, b with
  | None, None => true
  | Some x, Some y => eqb x y
  | _, _ => false
  end.

(* usize::MAX on the 64-bit target the harness builds for. *)
Definition USIZE_MAX : N := 18446744073709551615.
