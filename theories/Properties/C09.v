(* C09 — match iteration follows lastIndex semantics and always progresses.
   Theorems about the model of exec.rs Matches ([collect]) for every executor whose answers are a
   function of the cursor position ([answers_by]); that both executors are of this kind is tied by the
   correspondence check and by the C09 evaluation on the implementation (tail = iteration from the
   advanced cursor, first match independent of the start in [start, m.start]). *)
From RV Require Import Base.
From RV.Model Require Import Utf8 Indexer Insn Exec.
From RV.Proofs Require Import IterProofs.

(* the yielded sequence is the unfold of first-match with the advance rule *)
Theorem c09_unfold : forall St nm fm, answers_by St nm fm -> forall k st position n,
  let '(ms, res, _, _, _) := collect St nm k st position n [] in
  res = IterDone -> ms = unfold fm k position.
Proof. intros St nm fm H k st position n. exact (collect_unfold St nm fm H k st position n []). Qed.

(* matches come in increasing order and never overlap *)
Theorem c09_sorted_disjoint : forall len fm,
  (forall p m ns, fm p = Some (m, ns) -> (p <= m_start m)%nat /\ (m_start m <= m_end m)%nat /\ (m_end m <= len)%nat) ->
  (forall p m ns c, fm p = Some (m, ns) -> ns = Some c -> (m_end m <= c)%nat /\ (m_start m < c)%nat) ->
  forall k pos, ordered (unfold fm k pos).
Proof. exact unfold_ordered. Qed.

(* at most one match per remaining position plus one *)
Theorem c09_count_bound : forall len fm,
  (forall p m ns, fm p = Some (m, ns) -> (p <= m_start m)%nat /\ (m_start m <= m_end m)%nat /\ (m_end m <= len)%nat) ->
  (forall p m ns c, fm p = Some (m, ns) -> ns = Some c -> (m_end m <= c)%nat /\ (m_start m < c)%nat) ->
  forall k p, (p <= len)%nat -> (length (unfold fm k (Some p)) <= len - p + 1)%nat.
Proof. exact unfold_count. Qed.

(* every match lies at or after the cursor and inside the text *)
Theorem c09_in_range : forall len fm,
  (forall p m ns, fm p = Some (m, ns) -> (p <= m_start m)%nat /\ (m_start m <= m_end m)%nat /\ (m_end m <= len)%nat) ->
  (forall p m ns c, fm p = Some (m, ns) -> ns = Some c -> (m_end m <= c)%nat /\ (m_start m < c)%nat) ->
  forall k p m, In m (unfold fm k (Some p)) ->
  (p <= m_start m)%nat /\ (m_start m <= m_end m)%nat /\ (m_end m <= len)%nat.
Proof. exact unfold_range. Qed.

(* once the iterator has returned None it keeps returning None *)
Theorem c09_fused : forall St nm fm, answers_by St nm fm -> forall k st position n,
  let '(ms, res, n1, st1, pos1) := collect St nm k st position n [] in
  res = IterDone ->
  forall k2 n2, let '(ms2, res2, _, _, _) := collect St nm k2 st1 pos1 n2 [] in res2 = IterDone -> ms2 = [].
Proof. intros St nm fm H k st position n. exact (collect_fused St nm fm H k st position n []). Qed.

(* a start beyond the end yields nothing *)
Theorem c09_start_beyond_end : forall (h : hay) St (nm : St -> nat -> N -> xres St * N) k st n start,
  (length h < start)%nat ->
  collect St nm k st (initial_position h start) n [] = ([], IterDone, n, st, None) \/ k = O.
Proof. exact collect_start_beyond_end. Qed.

(* Non-vacuity: a first-match function that finds the empty match at every position of a 2-byte text. *)
Example c09_example :
  let fm := fun p => if (p <=? 2)%nat then Some (mkMatch p p [], if (p <? 2)%nat then Some (S p) else None) else None in
  map m_start (unfold fm 5 (Some 0%nat)) = [0; 1; 2]%nat.
Proof. reflexivity. Qed.
