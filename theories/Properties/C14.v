(* C14 — UTF-16 and UCS-2 entry points: the part a theorem can carry is the cursor of the two input types
   (src/indexing.rs Utf16Input / Ucs2Input next_right / next_left, modelled in Model/Utf16.v and compared with the
   implementation through the hook export utf16_step on every offset of every generated slice, lone surrogates
   included).  Proved: over the UTF-16 encoding of any list of scalar values the cursor reads exactly the encoded
   characters and stops exactly at their boundaries, in both directions; on arbitrary units it never fails inside the
   slice, never leaves it, and moves by one or two units; the element read is a code point; where no unit is a
   surrogate the two input types read the same.  That the engines, run on this cursor, return the matches of the
   UTF-8 entry points is evaluated on the implementation on every run (utf16 / ucs2 vs utf8), not proved: the
   interpreter proofs are stated for the UTF-8 and ASCII indexers. *)
From RV Require Import Base.
From RV.Model Require Import Utf16.
From RV.Proofs Require Import Utf16Proofs.

Theorem c14_utf16_reads_forward : forall pre c post, scalar c ->
  u16_next_right (flat_map utf16_encode pre ++ utf16_encode c ++ flat_map utf16_encode post) (length (flat_map utf16_encode pre))
  = Some (c, (length (flat_map utf16_encode pre) + length (utf16_encode c))%nat).
Proof. exact utf16_reads_forward. Qed.

Theorem c14_utf16_reads_backward : forall pre c post, scalar c ->
  u16_next_left (flat_map utf16_encode pre ++ utf16_encode c ++ flat_map utf16_encode post)
                (length (flat_map utf16_encode pre) + length (utf16_encode c))
  = Some (c, length (flat_map utf16_encode pre)).
Proof. exact utf16_reads_backward. Qed.

Theorem c14_utf16_forward_total : forall h p, (p < length h)%nat ->
  exists c q, u16_next_right h p = Some (c, q) /\ (p < q)%nat /\ (q <= p + 2)%nat /\ (q <= length h)%nat.
Proof. exact utf16_forward_total. Qed.

Theorem c14_utf16_backward_total : forall h p, (0 < p)%nat -> (p <= length h)%nat ->
  exists c q, u16_next_left h p = Some (c, q) /\ (q < p)%nat /\ (p <= q + 2)%nat.
Proof. exact utf16_backward_total. Qed.

Theorem c14_utf16_element_is_code_point : forall h p c q, Forall (fun u => u < 65536) h ->
  u16_next_right h p = Some (c, q) -> c <= 1114111.
Proof. exact utf16_element_range. Qed.

Theorem c14_utf16_is_ucs2_without_surrogates : forall h p,
  Forall (fun u => is_high_surrogate u = false /\ is_low_surrogate u = false) h ->
  u16_next_right h p = ucs2_next_right h p /\ u16_next_left h p = ucs2_next_left h p.
Proof. exact utf16_is_ucs2_without_surrogates. Qed.

(* Non-vacuity: "a", U+1F600, a lone high surrogate: the cursor reads a, the pair as one code point, the lone unit as itself *)
Example c14_example :
  map (u16_next_right [97; 55357; 56832; 55296]) [0; 1; 3; 4]%nat = [Some (97, 1%nat); Some (128512, 3%nat); Some (55296, 4%nat); None] /\
  u16_next_left [97; 55357; 56832; 55296] 3 = Some (128512, 1%nat) /\ utf16_encode 128512 = [55357; 56832].
Proof. vm_compute. repeat split. Qed.
