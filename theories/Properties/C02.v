(* C02 — the backtracking and the PikeVM executors return identical matches.
   Both interpreters are modelled (Model/BT.v, Model/Pike.v) and run against the implementation on every
   check (matches, captures, exact step counts).  Proved here, for every program emit produces:
   (1) the PikeVM model's search returns exactly the leftmost-first match of the big-step IR semantics
       (Spec/IRSem.v): same start, same end, same value for every capture group, every node kind;
   (2) the backtracking model's search (prefilter-free: bt_search (fun _ => true), which is next_match for an
       Arbitrary start predicate) returns that same match, for every node kind;
   (3) hence the two agree with each other (same match, same captures, same next start) in the UTF-8 and in the
       ASCII input mode.
   Hypotheses, all evaluated by the driver on every generated case: the IR semantics is defined on the search
   (ir_search = Some r); the IR has the shape the parser/optimizer guarantee (top_shape, bt_wf: lookaround
   capture ranges cover their bodies); for UTF-8, the positions the search visits stay within the haystack (walk_ok,
   true of valid UTF-8 from a character boundary); for ASCII, the haystack is made of bytes.
   Loop1CharBody in the backtracker relies on "stepping back one character undoes a single-character step"; the IR
   semantics makes that a definedness condition of every such step (IRSem.step_inv), so it is part of what the
   driver evaluates.  Not proved: the effect of the start prefilter (C04);
   the Matches iteration on top of next_match (C09 proves it from the first-match function). *)
From RV Require Import Base.
From RV.Model Require Import Utf8 Indexer CodePointSet Insn IR Optimizer Unfold Emit Pike BT Exec Fold.
From RV.Spec Require Import IRSem.
From RV.Spec Require Import IRShape.
From RV.Proofs Require Import PikeDen PikeCorrect PikeTop BTDen BTCorrect BTTop IndexerFacts Agree Utf8Facts Utf8Valid.
From RV.Gen Require Import FoldTables.

Theorem c02_pikevm_search_is_ir_semantics : forall ix h utf16 unicode ml n body prog names fuel tries p r,
  top_shape n body ->
  emit utf16 unicode ml n = Ok (prog, names) ->
  ir_wf (NCat body) = true ->
  ir_search ix unicode utf16 h fuel (NCat body) (p_groups prog) tries p = Some r ->
  exists f0 k, forall pfuel n budget, (f0 <= pfuel)%nat -> n + k <= budget ->
    pk_search ix prog h budget pfuel tries (pk_init_state prog p) n = (result_of ix h r, n + k).
Proof. exact pike_emit_correct. Qed.

(* every node kind, one attempt, either direction: the PikeVM runs the code emitted for a node from a state
   observing x onto states observing exactly the ordered successes of the IR semantics (compile correctness) *)
Theorem c02_pikevm_node_correct : forall ix prog h utf16 f, node_ok ix prog h utf16 f.
Proof. exact all_ok. Qed.

Theorem c02_backtracker_search_is_ir_semantics : forall ix h utf16 unicode ml n body prog names fuel tries p r,
  (forall fwd p c p', cnext ix fwd h p = Ok (Some (c, p')) -> ix_elem_of_u32 ix c = true) ->
  walk_ok ix h tries p = true ->
  top_shape n body ->
  emit utf16 unicode ml n = Ok (prog, names) ->
  bt_wf (p_groups prog) (NCat body) = true ->
  ir_search ix unicode utf16 h fuel (NCat body) (p_groups prog) tries p = Some r ->
  exists f0 k st', forall pfuel n budget, (f0 <= pfuel)%nat -> n + k <= budget ->
    bt_search ix prog h budget pfuel (fun _ => true) tries (bt_init prog) p n = (bt_result_of ix h r st', n + k).
Proof. exact bt_emit_correct. Qed.

(* every node kind: the backtracker explores exactly the ordered successes of the IR
   semantics, restoring captures, stack and loop data behind each of them *)
Theorem c02_backtracker_node_correct : forall ix prog h utf16,
  (forall fwd p c p', cnext ix fwd h p = Ok (Some (c, p')) -> ix_elem_of_u32 ix c = true) ->
  forall f, bnode_ok ix prog h utf16 f.
Proof. exact ball_ok. Qed.

Theorem c02_engines_agree_utf8 : forall fold h utf16 unicode ml n body prog names fuel tries p r,
  walk_ok (utf8_indexer fold) h tries p = true ->
  top_shape n body -> emit utf16 unicode ml n = Ok (prog, names) -> bt_wf (p_groups prog) (NCat body) = true ->
  ir_search (utf8_indexer fold) unicode utf16 h fuel (NCat body) (p_groups prog) tries p = Some r ->
  exists f0 kb kp, forall pfuel nb np budget, (f0 <= pfuel)%nat -> nb + kb <= budget -> np + kp <= budget ->
    xobs (fst (bt_search (utf8_indexer fold) prog h budget pfuel (fun _ => true) tries (bt_init prog) p nb)) =
    fst (pk_search (utf8_indexer fold) prog h budget pfuel tries (pk_init_state prog p) np) /\
    fst (pk_search (utf8_indexer fold) prog h budget pfuel tries (pk_init_state prog p) np) = result_of (utf8_indexer fold) h r.
Proof. exact engines_agree_utf8. Qed.

Theorem c02_engines_agree_ascii : forall h utf16 unicode ml n body prog names fuel tries p r,
  bytes_ok h -> (p <= length h)%nat ->
  top_shape n body -> emit utf16 unicode ml n = Ok (prog, names) -> bt_wf (p_groups prog) (NCat body) = true ->
  ir_search ascii_indexer unicode utf16 h fuel (NCat body) (p_groups prog) tries p = Some r ->
  exists f0 kb kp, forall pfuel nb np budget, (f0 <= pfuel)%nat -> nb + kb <= budget -> np + kp <= budget ->
    xobs (fst (bt_search ascii_indexer prog h budget pfuel (fun _ => true) tries (bt_init prog) p nb)) =
    fst (pk_search ascii_indexer prog h budget pfuel tries (pk_init_state prog p) np) /\
    fst (pk_search ascii_indexer prog h budget pfuel tries (pk_init_state prog p) np) = result_of ascii_indexer h r.
Proof. exact engines_agree_ascii. Qed.

(* on well-formed UTF-8 text (utf8_chars splits it into well-formed characters) from a start at a character boundary,
   the walk hypothesis is a theorem *)
Theorem c02_engines_agree_valid_utf8 : forall fold h cs utf16 unicode ml n body prog names fuel tries p r,
  utf8_chars (length h) h = Some cs -> Utf8Valid.bnd cs p ->
  top_shape n body -> emit utf16 unicode ml n = Ok (prog, names) -> bt_wf (p_groups prog) (NCat body) = true ->
  ir_search (utf8_indexer fold) unicode utf16 h fuel (NCat body) (p_groups prog) tries p = Some r ->
  exists f0 kb kp, forall pfuel nb np budget, (f0 <= pfuel)%nat -> nb + kb <= budget -> np + kp <= budget ->
    xobs (fst (bt_search (utf8_indexer fold) prog h budget pfuel (fun _ => true) tries (bt_init prog) p nb)) =
    fst (pk_search (utf8_indexer fold) prog h budget pfuel tries (pk_init_state prog p) np) /\
    fst (pk_search (utf8_indexer fold) prog h budget pfuel tries (pk_init_state prog p) np) = result_of (utf8_indexer fold) h r.
Proof.
  intros fold h cs utf16 unicode ml n body prog names fuel tries p r Hch Hp.
  destruct (utf8_chars_ok _ _ _ Hch) as [Hw Hcat]. subst h.
  apply engines_agree_utf8. apply walk_ok_utf8; assumption.
Qed.

(* Non-vacuity: a capture group under a lazy loop with a backreference and a lookbehind, UTF-8 mode.
   (?:(a|b)+?)\1(?<=bb) on "abb": the IR semantics is defined and yields 0..3 with group 1 = 1..2. *)
Definition c02_body : list node :=
  [NLoop (NCaptureGroup 0 (NAlt (NChar 97) (NChar 98)) None) 1 None false 0 1; NBackRef 1 false;
   NLookaround false true 1 1 (NCat [NChar 98; NChar 98])].
Example c02_example_hypotheses :
  (exists prog names, emit false false false (NCat (c02_body ++ [NGoal])) = Ok (prog, names) /\ p_groups prog = 1%nat) /\
  ir_wf (NCat c02_body) = true /\ bt_wf 1 (NCat c02_body) = true /\ walk_ok (utf8_indexer fold_code_point) [97; 98; 98] 5 0 = true /\ top_shape (NCat (c02_body ++ [NGoal])) c02_body /\
  ir_search (utf8_indexer fold_code_point) false false [97; 98; 98] 50 (NCat c02_body) 1 5 0
    = Some (Some (0, 3, [mkGD (Some 1) (Some 2)]))%nat.
Proof. repeat split; try (vm_compute; reflexivity); try (left; reflexivity). eexists; eexists; split; vm_compute; reflexivity. Qed.
