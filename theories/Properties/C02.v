(* C02 — the backtracking and the PikeVM executors return identical matches.
   Both interpreters are modelled (Model/BT.v, Model/Pike.v) and run against the implementation on every
   check (matches, captures, exact step counts).  Proved here: the PikeVM half of the common reference —
   for every program emit produces, the PikeVM model's search returns exactly the leftmost-first match of the
   big-step IR semantics (Spec/IRSem.v): same start, same end, same value for every capture group
   (result_of carries caps_of of the semantic capture list), in whichever input mode the indexer ix stands for.
   Not proved: the corresponding statement for the backtracking model; agreement of the two on the
   implementation is evaluated on the generated stream (PROPVIOL C02) on every run. *)
From RV Require Import Base.
From RV.Model Require Import Utf8 Indexer CodePointSet Insn IR Optimizer Unfold Emit Pike BT Exec Fold.
From RV.Spec Require Import IRSem.
From RV.Proofs Require Import PikeDen PikeCorrect PikeTop.
From RV.Gen Require Import FoldTables.

Theorem c02_pikevm_search_is_ir_semantics : forall ix h utf16 unicode ml n body prog names fuel tries p r,
  top_shape n body ->
  emit utf16 unicode ml n = Ok (prog, names) ->
  ir_wf (NCat body) = true ->
  ir_search ix unicode utf16 h fuel (NCat body) (p_groups prog) tries p = Some r ->
  exists f0 k, forall pfuel n budget, (f0 <= pfuel)%nat -> n + k <= budget ->
    pk_search ix prog h budget pfuel tries (pk_init_state prog p) n = (result_of ix h r, n + k).
Proof. exact pike_emit_correct. Qed.

(* every node kind, one attempt, either direction: the PikeVM runs the code emitted for a node from a state
   observing x onto states observing exactly the ordered successes of the IR semantics (compile correctness) *)
Theorem c02_pikevm_node_correct : forall ix prog h utf16 f, node_ok ix prog h utf16 f.
Proof. exact all_ok. Qed.

(* Non-vacuity: a capture group under a lazy loop with a backreference and a lookbehind, UTF-8 mode.
   (?:(a|b)+?)\1(?<=bb) on "abb": the IR semantics is defined and yields 0..3 with group 1 = 1..2. *)
Definition c02_body : list node :=
  [NLoop (NCaptureGroup 0 (NAlt (NChar 97) (NChar 98)) None) 1 None false 0 1; NBackRef 1 false;
   NLookaround false true 1 1 (NCat [NChar 98; NChar 98])].
Example c02_example_hypotheses :
  (exists prog names, emit false false false (NCat (c02_body ++ [NGoal])) = Ok (prog, names) /\ p_groups prog = 1%nat) /\
  ir_wf (NCat c02_body) = true /\
  ir_search (utf8_indexer fold_code_point) false false [97; 98; 98] 50 (NCat c02_body) 1 5 0
    = Some (Some (0, 3, [mkGD (Some 1) (Some 2)]))%nat.
Proof. repeat split; try (vm_compute; reflexivity). eexists; eexists; split; vm_compute; reflexivity. Qed.
