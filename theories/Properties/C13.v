(* C13 — the ASCII entry points agree with the UTF-8 ones on ASCII haystacks.
   Proved here for the models, for every program emit produces and every haystack made only of ASCII bytes:
   (1) the big-step IR semantics gives the same search result under the ASCII and under the UTF-8 indexer
       (the two indexers agree on every cursor step an ASCII haystack or a slice of it can ask for, and
       fold_equals agrees on ASCII elements — a finite check over the fold tables regenerated from /repo);
   (2) hence the PikeVM model returns the same match (range, every capture, next start) in both modes, for
       every node kind;
   (3) and so does the backtracking model (prefilter-free search), for every node kind.
   Hypotheses: IR shape (top_shape, ir_wf / bt_wf) and definedness of the IR semantics on the search, both
   evaluated by the driver on every generated case.  Not proved: the prefilter (C04),
   iteration (C09 proves it from the first-match function).  On the implementation, ascii vs utf8 is evaluated on every ASCII haystack of the streams. *)
From RV Require Import Base.
From RV.Model Require Import Utf8 Indexer CodePointSet Insn IR Optimizer Unfold Emit Pike BT Exec Fold.
From RV.Spec Require Import IRSem IRShape.
From RV.Gen Require Import FoldTables.
From RV.Proofs Require Import PikeTop BTTop Agree AsciiUtf8.

Theorem c13_ir_semantics_ascii_eq_utf8 : forall unicode utf16 h fuel n ngroups tries p,
  ascii_hay h -> (p <= length h)%nat ->
  ir_search (utf8_indexer fold_code_point) unicode utf16 h fuel n ngroups tries p =
  ir_search ascii_indexer unicode utf16 h fuel n ngroups tries p.
Proof. exact ir_search_ascii_utf8. Qed.

Theorem c13_pikevm_ascii_eq_utf8 : forall h utf16 unicode ml n body prog names fuel tries p r,
  ascii_hay h -> (p <= length h)%nat ->
  top_shape n body -> emit utf16 unicode ml n = Ok (prog, names) -> ir_wf (NCat body) = true ->
  ir_search (utf8_indexer fold_code_point) unicode utf16 h fuel (NCat body) (p_groups prog) tries p = Some r ->
  exists f0 k, forall pfuel n1 n2 budget, (f0 <= pfuel)%nat -> n1 + k <= budget -> n2 + k <= budget ->
    fst (pk_search (utf8_indexer fold_code_point) prog h budget pfuel tries (pk_init_state prog p) n1) =
    fst (pk_search ascii_indexer prog h budget pfuel tries (pk_init_state prog p) n2).
Proof. exact pike_ascii_utf8. Qed.

Theorem c13_backtracker_ascii_eq_utf8 : forall h utf16 unicode ml n body prog names fuel tries p r,
  ascii_hay h -> (p <= length h)%nat ->
  top_shape n body -> emit utf16 unicode ml n = Ok (prog, names) -> bt_wf (p_groups prog) (NCat body) = true ->
  ir_search (utf8_indexer fold_code_point) unicode utf16 h fuel (NCat body) (p_groups prog) tries p = Some r ->
  exists f0 k, forall pfuel n1 n2 budget, (f0 <= pfuel)%nat -> n1 + k <= budget -> n2 + k <= budget ->
    xobs (fst (bt_search (utf8_indexer fold_code_point) prog h budget pfuel (fun _ => true) tries (bt_init prog) p n1)) =
    xobs (fst (bt_search ascii_indexer prog h budget pfuel (fun _ => true) tries (bt_init prog) p n2)).
Proof. exact bt_ascii_utf8. Qed.

(* Non-vacuity: a case-insensitive backreference on an ASCII haystack: (k)\1 under i on "xkK". *)
Definition c13_body : list node := [NCaptureGroup 0 (NCharSet [75; 107; 8490]) None; NBackRef 1 true].
Example c13_example_hypotheses :
  ascii_hay [120; 107; 75] /\
  (exists prog names, emit false true false (NCat (c13_body ++ [NGoal])) = Ok (prog, names) /\ p_groups prog = 1%nat) /\
  bt_wf 1 (NCat c13_body) = true /\
  ir_search (utf8_indexer fold_code_point) true false [120; 107; 75] 50 (NCat c13_body) 1 6 0
    = Some (Some (1, 3, [mkGD (Some 1) (Some 2)]))%nat.
Proof.
  split; [repeat constructor|]. repeat split; try (vm_compute; reflexivity).
  eexists; eexists; split; vm_compute; reflexivity.
Qed.
