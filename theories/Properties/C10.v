(* C10 — case-insensitive matching is simple case folding (u/v) or legacy upper-casing.
   The fold tables are REGENERATED from src/unicodetables.rs on every run and compared inside Coq with
   the reference data (V8/ICU, Unicode 17).  Finite and exhaustive over the tables' supports. *)
From RV Require Import Base.
From RV.Gen Require Import FoldTables.
From RV.Model Require Import Fold Optimizer Unfold.
From RV.Ref Require Import RefFold RefCanon.
From RV.Model Require Import CodePointSet.
From RV.Proofs Require Import FoldRefProofs Closure.

(* the tables are sorted and disjoint, so the binary search finds the unique containing range *)
Theorem c10_tables_sorted : ranges_sorted 0 FOLDS = true /\ ranges_sorted 0 TO_UPPERCASE = true.
Proof. split; [exact folds_sorted | exact to_uppercase_sorted]. Qed.

(* Unicode mode: fold identifies exactly the members of each reference simple-case-folding class:
   (1) members of a class have one fold value, (2) whatever fold moves stays inside a class,
   (3) different classes get different fold values. *)
Theorem c10_fold_collapses_classes : forallb class_collapses ref_scf_classes = true.
Proof. exact fold_collapses_ref_classes. Qed.
Theorem c10_fold_stays_in_class : forallb moved_in_class (moved_points FOLDS) = true.
Proof. exact fold_moves_within_ref_classes. Qed.
Theorem c10_fold_separates_classes :
  nodupb (map (fun cl => match cl with h :: _ => fold h | [] => 0 end) ref_scf_classes) = true.
Proof. exact fold_separates_ref_classes. Qed.

(* Legacy mode: regress's upper-casing equals the ECMAScript legacy Canonicalize except on exactly the
   29 code points of known finding D10 (recorded in known_findings.txt). *)
Theorem c10_uppercase_eq_ref_except_known : legacy_deviations = known_upper_deviations.
Proof. exact legacy_deviations_are_known. Qed.

(* compile-time expansion = match-time folding: unfold_char c lists exactly the points with c's fold *)
Theorem c10_unfold_is_fold_class : unfold_matches_classes fold unfold_char fold_support = true.
Proof. exact unfold_char_is_fold_class. Qed.
Theorem c10_unfold_upper_is_upper_class : unfold_matches_classes uppercase unfold_uppercase_char upper_support = true.
Proof. exact unfold_uppercase_char_is_upper_class. Qed.
Theorem c10_fold_idempotent : forallb (fun c => fold (fold c) =? fold c) fold_support = true.
Proof. exact fold_idempotent_on_support. Qed.

(* \w / \b under u+i: the extra word characters are exactly the non-ASCII points folding to a word char *)
Theorem c10_word_fold_list : NONASCII_FOLDS_TO_ASCII_WORD_CHAR = [383; 8490].
Proof. reflexivity. Qed.

Example c10_example : fold 8490 = 107 /\ fold 75 = 107 /\ uppercase 107 = 75 /\ uppercase 8490 = 8490.
Proof. vm_compute. repeat split. Qed.

(* ---- for every code point and every class, not only on the supports ---- *)
(* the canonical form of a canonical form is itself, in both modes *)
Theorem c10_canonicalize_idempotent : forall unicode c,
  fold_code_point (fold_code_point c unicode) unicode = fold_code_point c unicode.
Proof. intros [|] c; unfold fold_code_point; [apply fold_idempotent|apply uppercase_idempotent]. Qed.

(* the compile-time side: the case closure of a class (add_icase_code_points_for: fold_interval_in, then
   unfold_interval_in, both walking the FoldRange table interval by interval with strides 1, 2 or 4) contains
   exactly the code points whose canonical form is that of a member - for every interval set whatsoever *)
Theorem c10_class_closure_is_canonical_equivalence : forall (unicode : bool) (s : cps) (c : N),
  cps_contains (add_icase_code_points_for s unicode) c = true <->
  exists a, cps_contains s a = true /\ fold_code_point a unicode = fold_code_point c unicode.
Proof. exact class_closure_is_canonical_equivalence. Qed.

(* the run-time expansion of one code point (literals under i, and the reference side of class matching) is its
   canonical equivalence class, for every code point: the universal form of c10_unfold_is_fold_class *)
Theorem c10_unfold_char_is_canonical_class : forall c a, In a (unfold_char c) <-> fold a = fold c.
Proof. exact unfold_char_spec. Qed.
Theorem c10_unfold_uppercase_char_is_canonical_class : forall c a, In a (unfold_uppercase_char c) <-> uppercase a = uppercase c.
Proof. exact unfold_uppercase_char_spec. Qed.

(* Non-vacuity: the class [\u01B9-\u01BC] under iu (an interval that starts inside a stride-2 range of FOLDS) *)
Example c10_closure_example : add_icase_code_points_for [(441, 444)] true = [(440, 445)].
Proof. vm_compute. reflexivity. Qed.
