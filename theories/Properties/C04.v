(* C04 — the start-position prefilter is transparent.
   Proved here for the models, for every program emit produces:
   (1) the start predicate is sound for the IR semantics: wherever a forward attempt has a success, the bytes at
       that position pass the predicate computed from the pattern (literal prefix, first-byte set of literals,
       sets, brackets — through the UTF-8 first-byte ranges —, alternations, groups, loops with min > 0), and a
       node for which no predicate is computed never moves the position;
   (2) a start-anchored pattern succeeds only where start_of_line (non-multiline) holds;
   (3) hence next_match of the backtracker — the byte search for the predicate followed by attempts, or the
       single attempt of the StartAnchored shortcut — returns exactly the leftmost-first match of the IR
       semantics, which is what attempting every start offset in increasing order returns (C02: bt_emit_correct
       for the prefilter-free search); likewise next_match of the PikeVM (which only has the shortcut).
   Hypotheses, evaluated by the driver on every generated case: IR shape (top_shape, bt_wf, brackets_wf), the IR
   semantics is defined on the search, and along the positions the search visits the haystack is well-formed for
   the prefilter (IRShape.pref_walk_ok: the byte under the cursor is the first byte of the encoding of the element
   read, steps move right, the prefilter does not fire strictly inside a character, the walk ends at the end).
   Not proved: the model's byte searchers are their specification (first offset that passes the test), not the
   memchr/bitmap code of bytesearch.rs, which the correspondence check ties to the implementation. *)
From RV Require Import Base.
From RV.Model Require Import Utf8 Indexer CodePointSet Insn IR Optimizer Unfold Emit Pike BT Exec Fold.
From RV.Spec Require Import IRSem IRShape.
From RV.Gen Require Import FoldTables.
From RV.Proofs Require Import PikeTop BTTop StartPred Prefilter Utf8Facts Utf8Valid.

Theorem c04_start_predicate_sound : forall ix unicode utf16 h f n p G l sp,
  first_byte_at ix h p -> brackets_wf n = true ->
  compute_start_predicate n = Ok (Some sp) ->
  ir_results ix unicode utf16 h f n true (p, G) = Some l -> l <> [] ->
  asp_test sp (skipn p h) = true.
Proof. exact ir_sp. Qed.

Theorem c04_no_predicate_is_zero_width : forall ix unicode utf16 h f n p G l,
  compute_start_predicate n = Ok None -> ir_results ix unicode utf16 h f n true (p, G) = Some l ->
  Forall (fun y => fst y = p) l.
Proof. exact ir_stay. Qed.

Theorem c04_start_anchored_sound : forall ix unicode utf16 h f n p G l,
  is_start_anchored n = true -> ir_results ix unicode utf16 h f n true (p, G) = Some l -> l <> [] ->
  start_of_line ix false h p = Ok true.
Proof. exact ir_anchored. Qed.

Theorem c04_backtracker_next_match_with_prefilter : forall ix h utf16 unicode ml n body prog names fuel p r test,
  (forall fwd p c p', cnext ix fwd h p = Ok (Some (c, p')) -> ix_elem_of_u32 ix c = true) ->
  top_shape n body ->
  emit utf16 unicode ml n = Ok (prog, names) ->
  bt_wf (p_groups prog) (NCat body) = true -> brackets_wf (NCat body) = true ->
  searcher_test (p_start_pred prog) = Some test ->
  walk_ok ix h (S (S (length h))) p = true -> pref_walk_ok ix h test (S (S (length h))) p = true ->
  ir_search ix unicode utf16 h fuel (NCat body) (p_groups prog) (S (S (length h))) p = Some r ->
  exists f0 k st', forall pfuel n budget, (f0 <= pfuel)%nat -> n + k <= budget ->
    bt_next_match ix prog h budget pfuel (bt_init prog) p n = (bt_result_of ix h r st', n + k).
Proof. exact bt_next_match_search. Qed.

Theorem c04_backtracker_next_match_anchored : forall ix h utf16 unicode ml n body prog names fuel tries p r,
  (forall fwd p c p', cnext ix fwd h p = Ok (Some (c, p')) -> ix_elem_of_u32 ix c = true) ->
  (forall q q', ix_next_right_pos ix h q = Ok (Some q') -> (q < q')%nat) ->
  (forall q, (0 < q)%nat -> ix_next_left ix h q <> Ok None) ->
  top_shape n body ->
  emit utf16 unicode ml n = Ok (prog, names) ->
  bt_wf (p_groups prog) (NCat body) = true ->
  searcher_test (p_start_pred prog) = None ->
  ir_search ix unicode utf16 h fuel (NCat body) (p_groups prog) (S tries) p = Some r ->
  exists f0 k st', forall pfuel n budget, (f0 <= pfuel)%nat -> n + k <= budget ->
    bt_next_match ix prog h budget pfuel (bt_init prog) p n = (bt_result_of ix h r st', n + k).
Proof. exact bt_next_match_anchored. Qed.

Theorem c04_pikevm_next_match : forall ix h utf16 unicode ml n body prog names fuel p r,
  (forall q q', ix_next_right_pos ix h q = Ok (Some q') -> (q < q')%nat) ->
  (forall q, (0 < q)%nat -> ix_next_left ix h q <> Ok None) ->
  top_shape n body ->
  emit utf16 unicode ml n = Ok (prog, names) ->
  ir_wf (NCat body) = true ->
  ir_search ix unicode utf16 h fuel (NCat body) (p_groups prog) (S (S (length h))) p = Some r ->
  exists f0 k, forall pfuel n budget, (f0 <= pfuel)%nat -> n + k <= budget ->
    pk_next_match ix prog h budget pfuel tt p n = (result_of ix h r, n + k).
Proof. exact pk_next_match_correct. Qed.

(* on well-formed UTF-8 text, at a character boundary, the byte under the cursor is the first byte of the element read:
   the hypothesis of the start-predicate theorem is a theorem *)
Theorem c04_start_predicate_sound_valid_utf8 : forall fold unicode utf16 h cs f n p G l sp,
  utf8_chars (length h) h = Some cs -> Utf8Valid.bnd cs p -> brackets_wf n = true ->
  compute_start_predicate n = Ok (Some sp) ->
  ir_results (utf8_indexer fold) unicode utf16 h f n true (p, G) = Some l -> l <> [] ->
  asp_test sp (skipn p h) = true.
Proof.
  intros fold unicode utf16 h cs f n p G l sp Hch Hp Hb Hsp E Hne.
  destruct (utf8_chars_ok _ _ _ Hch) as [Hw Hcat]. subst h.
  apply (ir_sp (utf8_indexer fold) unicode utf16 (concat cs) f n p G l sp); try assumption.
  intros c p' Ec. exact (first_byte_utf8 fold cs p c p' Hw Hp Ec).
Qed.

(* Non-vacuity: /(?:ab|ac)d/ (literal bytes) on "xxacd": the predicate is the literal prefix "a", the walk
   conditions hold, the match is 2..5. *)
Definition c04_body : list node := [NAlt (NByteSequence [97; 98]) (NByteSequence [97; 99]); NByteSequence [100]].
Example c04_example_hypotheses :
  exists prog names test,
    emit false false false (NCat (c04_body ++ [NGoal])) = Ok (prog, names) /\
    p_start_pred prog = SPByteSet [97] /\ searcher_test (p_start_pred prog) = Some test /\
    bt_wf (p_groups prog) (NCat c04_body) = true /\ brackets_wf (NCat c04_body) = true /\
    walk_ok (utf8_indexer fold_code_point) [120; 120; 97; 99; 100] 7 0 = true /\
    pref_walk_ok (utf8_indexer fold_code_point) [120; 120; 97; 99; 100] test 7 0 = true /\
    ir_search (utf8_indexer fold_code_point) false false [120; 120; 97; 99; 100] 50 (NCat c04_body) (p_groups prog) 7 0
      = Some (Some (2, 5, []))%nat.
Proof. eexists; eexists; eexists. repeat split; vm_compute; reflexivity. Qed.
