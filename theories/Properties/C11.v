(* C11 — Unicode property escapes denote exactly the Unicode 17 sets.
   The tables are REGENERATED from src/unicodetables.rs on every run (tools/gen_proptables.py) and
   compared, inside Coq, with the reference sets obtained from an independent implementation (V8 with
   ICU 78 / Unicode 17, ref/gen_ref.js; committed under theories/Ref).  Exhaustive over the finite
   domain: every (name, value, alias) regress accepts, every code point (list equality of intervals). *)
From Coq Require Import String.
From RV Require Import Base.
From RV.Model Require Import CodePointSet Props.
From RV.Gen Require Import PropTables.
From RV.Ref Require Import RefProps.
From RV.Proofs Require Import PropTablesProofs PropStringsProofs.

Theorem c11_binary_eq_ref : tables_match binary_names ref_binary = true.
Proof. exact binary_match. Qed.
Theorem c11_gc_eq_ref : tables_match gc_names ref_gc = true /\ tables_match gc_names ref_gc_named = true.
Proof. split; [exact gc_match | exact gc_named_match]. Qed.
Theorem c11_script_eq_ref : tables_match sc_names ref_sc = true.
Proof. exact sc_match. Qed.
Theorem c11_script_extensions_eq_ref : tables_match scx_names ref_scx = true.
Proof. exact scx_match. Qed.
Theorem c11_strings_eq_ref : strings_match string_names ref_strings = true.
Proof. exact strings_match_ref. Qed.

(* every table satisfies the CodePointSet invariant (precondition of binary search and of
   from_sorted_disjoint_intervals; \P{..} is then the complement by C12) *)
Theorem c11_tables_wf :
  forallb (fun kt => cps_wf (snd kt)) (binary_names ++ gc_names ++ sc_names ++ scx_names) = true.
Proof. exact all_tables_wf. Qed.

(* the lifting from the boolean check to every name: the table regress returns is the reference set *)
Theorem c11_lookup_is_reference : forall gen ref, tables_match gen ref = true ->
  forall k t, In (k, t) gen -> assoc k ref = Some t.
Proof. exact tables_match_lookup. Qed.

(* names outside the tables are rejected by the lookup model (finite match: anything not listed is None) *)
Example c11_rejects : property_lookup None "Hrkt"%string true = None /\
                      property_lookup (Some "Block"%string) "Basic_Latin"%string true = None /\
                      property_lookup None "alpha"%string false = None.
Proof. vm_compute. repeat split. Qed.
Example c11_accepts : exists t, property_lookup (Some "sc"%string) "Grek"%string false = Some (PRClass t) /\ cps_contains t 945 = true.
Proof. eexists. vm_compute. split; reflexivity. Qed.
