(* C15 — results do not depend on cargo features.  Of the features, only `utf16` changes what the compiler does (it
   compiles the literal-bytes pass out and emits string sets differently); `index-positions`, `prohibit-unsafe` and
   `std` select between implementations of the same input-type operations and have no counterpart in the models.
   Proved here: whatever the `utf16` feature makes of optimize(), both optimized nodes give the leftmost search the
   answer of the source node (well-formed UTF-8 text, any pattern the parser produces).  Everything else about C15 is
   evaluated on the six builds of the implementation on every run (same case stream, results compared with the default
   build and with the models). *)
From RV Require Import Base.
From RV.Model Require Import Utf8 Indexer CodePointSet Insn IR Optimizer Unfold Emit.
From RV.Spec Require Import IRSem IRShape.
From RV.Proofs Require Import Utf8Valid OptTop.
From RV.Properties Require Import C03.

Theorem c15_utf16_feature_does_not_change_the_answer : forall fold unicode utf16 h cs,
  utf8_chars (length h) h = Some cs -> short h ->
  forall n n_default n_utf16, optimize false n = Ok n_default -> optimize true n = Ok n_utf16 -> qok n = true -> parsed n = true ->
  exists K1 K2, forall fuel ngroups tries p r, Utf8Valid.bnd cs p ->
    ir_search (utf8_indexer fold) unicode utf16 h fuel (ir_top n) ngroups tries p = Some r ->
    ir_search (utf8_indexer fold) unicode utf16 h (fuel + K1) (ir_top n_default) ngroups tries p = Some r /\
    ir_search (utf8_indexer fold) unicode utf16 h (fuel + K2) (ir_top n_utf16) ngroups tries p = Some r.
Proof.
  intros fold unicode utf16 h cs Hch Hsh n n1 n2 E1 E2 Hq Hp.
  destruct (c03_optimize_sound_utf8_text_all_patterns fold unicode utf16 h cs Hch Hsh false n n1 E1 Hq Hp) as [K1 H1].
  destruct (c03_optimize_sound_utf8_text_all_patterns fold unicode utf16 h cs Hch Hsh true n n2 E2 Hq Hp) as [K2 H2].
  exists K1, K2. intros fuel ngroups tries p r Hb Es. split; [apply H1; assumption|apply H2; assumption].
Qed.

(* Non-vacuity: the two builds do produce different nodes for a literal *)
Example c15_example :
  optimize false (NCat [NChar 97; NChar 98]) = Ok (NByteSequence [97; 98]) /\
  optimize true (NCat [NChar 97; NChar 98]) = Ok (NCat [NChar 97; NChar 98]).
Proof. vm_compute. split; reflexivity. Qed.
