(* C06 — matching is memory-safe and panic-free; reported ranges are valid.
   Proved here for the models (the range half): every position the IR semantics reaches from a position inside
   the haystack is inside the haystack; a node run forwards never moves left, a node run backwards (lookbehind)
   never moves right; hence the match the search reports satisfies p <= start <= end <= length h, for the UTF-8
   and the ASCII indexer.  Through C02/C04 (both interpreter models return exactly the IR-semantics match, with no
   error outcome whenever that semantics is defined) this is the range the models of both executors report.
   Not proved: that the reported offsets are character boundaries and that captures are ordered (start <= end for
   every group) — evaluated on the implementation on every run; memory safety of the unchecked-access build is a
   runtime fact the harness observes (panics, signals, model Err outcomes). *)
From RV Require Import Base.
From RV.Model Require Import Utf8 Indexer CodePointSet Insn IR Optimizer Unfold Emit Fold.
From RV.Spec Require Import IRSem.
From RV.Gen Require Import FoldTables.
From RV.Spec Require Import IRShape.
From RV.Proofs Require Import IRRange IRMono IndexerFacts AsciiUtf8 MatchRange Utf8Facts Utf8Valid OptMono OptRel OptBrackets OptTop OptTextUtf8.

Theorem c06_positions_in_bounds : forall ix unicode utf16 h,
  (forall (h' : hay) fwd p c p', (p <= length h')%nat -> cnext ix fwd h' p = Ok (Some (c, p')) -> (p' <= length h')%nat) ->
  forall f n fwd p G l, (p <= length h)%nat ->
    ir_results ix unicode utf16 h f n fwd (p, G) = Some l -> Forall (fun y => (fst y <= length h)%nat) l.
Proof. exact ir_range. Qed.

Theorem c06_moves_in_direction : forall ix unicode utf16 h,
  (forall (h' : hay) fwd p c p', cnext ix fwd h' p = Ok (Some (c, p')) -> if fwd then (p <= p')%nat else (p' <= p)%nat) ->
  forall f n fwd p G l, ir_results ix unicode utf16 h f n fwd (p, G) = Some l ->
    Forall (fun y => if fwd then (p <= fst y)%nat else (fst y <= p)%nat) l.
Proof. exact ir_mono. Qed.

Theorem c06_match_range_utf8 : forall unicode utf16 h fuel n ngroups tries p p0 e gs,
  walk_ok (utf8_indexer fold_code_point) h tries p = true ->
  ir_search (utf8_indexer fold_code_point) unicode utf16 h fuel n ngroups tries p = Some (Some (p0, e, gs)) ->
  (p <= p0)%nat /\ (p0 <= e)%nat /\ (e <= length h)%nat.
Proof.
  intros unicode utf16 h. apply ir_search_match_range.
  - intros h' fwd p c p'. apply u8_cursor.
  - intros h' fwd p c p'. apply u8_dir.
  - intros q q'. apply u8_right_gt.
Qed.

Theorem c06_match_range_ascii : forall unicode utf16 h fuel n ngroups tries p p0 e gs,
  walk_ok ascii_indexer h tries p = true ->
  ir_search ascii_indexer unicode utf16 h fuel n ngroups tries p = Some (Some (p0, e, gs)) ->
  (p <= p0)%nat /\ (p0 <= e)%nat /\ (e <= length h)%nat.
Proof.
  intros unicode utf16 h. apply ir_search_match_range.
  - intros h' fwd p c p'. apply ascii_cursor.
  - intros h' fwd p c p'. apply ascii_dir.
  - intros q q'. apply ascii_right_gt.
Qed.

(* on well-formed UTF-8 text (a sequence of well-formed characters, decided by utf8_chars), from a start at a character
   boundary: the walk hypothesis is a theorem, so the range statement has no hypothesis on the text ... *)
Theorem c06_match_range_valid_utf8 : forall unicode utf16 h cs fuel n ngroups tries p p0 e gs,
  utf8_chars (length h) h = Some cs -> Utf8Valid.bnd cs p ->
  ir_search (utf8_indexer fold_code_point) unicode utf16 h fuel n ngroups tries p = Some (Some (p0, e, gs)) ->
  (p <= p0)%nat /\ (p0 <= e)%nat /\ (e <= length h)%nat.
Proof.
  intros unicode utf16 h cs fuel n ngroups tries p p0 e gs Hch Hp E.
  destruct (utf8_chars_ok _ _ _ Hch) as [Hw Hcat]. subst h.
  exact (c06_match_range_utf8 unicode utf16 (concat cs) fuel n ngroups tries p p0 e gs
           (walk_ok_utf8 fold_code_point cs Hw tries p Hp) E).
Qed.

(* ... and, for every pattern the parser produces, the reported match and every reported capture start
   and end at character boundaries (what slicing the haystack with the reported ranges needs) *)
Theorem c06_match_on_char_boundaries_utf8 : forall unicode utf16 h cs fuel n ngroups tries p p0 e gs,
  utf8_chars (length h) h = Some cs -> parsed n = true -> Utf8Valid.bnd cs p ->
  ir_search (utf8_indexer fold_code_point) unicode utf16 h fuel n ngroups tries p = Some (Some (p0, e, gs)) ->
  Utf8Valid.bnd cs p0 /\ Utf8Valid.bnd cs e /\
  Forall (fun gd => (forall q, gd_start gd = Some q -> Utf8Valid.bnd cs q) /\ (forall q, gd_end gd = Some q -> Utf8Valid.bnd cs q)) gs.
Proof.
  intros unicode utf16 h cs fuel n ngroups tries p p0 e gs Hch Hs Hp E.
  destruct (utf8_chars_ok _ _ _ Hch) as [Hw Hcat]. subst h.
  pose proof (text_ok_utf8 fold_code_point cs Hw unicode) as Ht. destruct Ht as (Hk0 & Hk1 & Hk5 & Hk4 & Hcp & Hb1 & Hb2 & Hst).
  eapply (search_boundaries (utf8_indexer fold_code_point) unicode utf16 (concat cs) (Utf8Valid.bnd cs) n Hk5); [|exact Hp|exact E].
  exact (al_parsed (utf8_indexer fold_code_point) unicode utf16 (concat cs) (Utf8Valid.bnd cs) (text_ok_utf8 fold_code_point cs Hw unicode)
           (text_enc_utf8 fold_code_point cs Hw unicode) n Hs).
Qed.

(* Non-vacuity: a lookbehind over a two-byte character: (?<=é)a on "éa" matches 2..3. *)
Example c06_example :
  walk_ok (utf8_indexer fold_code_point) [195; 169; 97] 5 0 = true /\
  ir_search (utf8_indexer fold_code_point) false false [195; 169; 97] 50
            (NCat [NLookaround false true 0 0 (NChar 233); NChar 97]) 0 5 0 = Some (Some (2, 3, []))%nat.
Proof. split; vm_compute; reflexivity. Qed.
