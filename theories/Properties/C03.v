(* C03 — optimisation never changes what a pattern matches.
   Proved here, for the model of src/optimizer.rs (Model/Optimizer.v) against the IR semantics (Spec/IRSem.v):
   a refinement relation between IR nodes (Proofs/OptMono.v: wherever the meaning of the original node is defined,
   the rewritten node has the same ordered results up to repetitions of an earlier result — Proofs/OptDD.v — with
   a bounded amount of extra fuel) is a preorder and a congruence for every node
   constructor; the post-order walk and run_to_fixpoint lift a rewrite rule that establishes it to the whole pass
   (Proofs/OptWalk.v); and every single rewrite of all seven passes — simplify_brackets, decat, unroll_loops,
   promote_1char_loops, form_literal_bytes, remove_empties, propagate_early_fails — establishes it (OptBrackets,
   OptDecat, OptUnroll, OptPromote, OptBytes, OptEmpties, OptFails), so optimize() does (c03_optimize_sound).
   The statement is relative to
     - the invariant qok of the node (a loop's min <= max, its group range = the number of groups of its body, a
       character set has at most four members, brackets satisfy the CodePointSet invariant, the body of a
       one-character loop is a one-instruction leaf), evaluated by the driver on every IR the implementation
       produces and preserved by the passes;
     - a set okp of well-formed positions of the text (character boundaries) among which the node stays (al: every
       leaf started at such a position ends at one; proved for nodes without \q{...} string sets from the text
       hypotheses, c03_simple_nodes_stay_well_formed), preserved by the passes;
     - hypotheses on the text at those positions: text_ok (reading an element leads to a well-formed position;
       elements are code points; bytes and elements agree below 128; a one-character step can be undone) and, for
       form_literal_bytes only, text_enc (a scalar value read as an element is its UTF-8 encoding read as bytes).
       All are true of well-formed UTF-8 at character boundaries; they are stated as hypotheses.  text_ok except its
       last clause is evaluated by the driver on every generated haystack (text_ok_b, c03_text_check_sound), the last
       clause is what the Loop1CharBody semantics checks itself; text_ok is proved for the ASCII indexer on every byte
       string, and text_ok, text_enc and al for both indexers on ASCII text (c03_optimize_sound_*_ascii_text); and text_ok
       and text_enc are proved for the UTF-8 indexer on every well-formed UTF-8 text (Proofs/Utf8Facts.v, Utf8Valid.v,
       OptTextUtf8.v), so that c03_optimize_sound_utf8_text has no hypothesis on the text left.
   Refinement of nodes gives equality of the leftmost search from a well-formed start, also after the trailing Goal
   is stripped (ir_top); with the C02/C04 theorems (both interpreter models return exactly that search) this is the
   statement of C03 for the models.  The whole pipeline is also compared on the implementation (optimised against
   unoptimised, every generated case) on every run. *)
From RV Require Import Base.
From RV.Model Require Import Utf8 Indexer CodePointSet Insn IR Optimizer Unfold Emit Pike Exec Fold.
From RV.Spec Require Import IRSem IRShape.
From RV.Gen Require Import FoldTables.
From RV.Proofs Require Import NodeInd IndexerFacts MatchRange AsciiUtf8 Utf8Facts Utf8Valid OptTextUtf8 OptTextAscii OptTextCheck OptDD OptMono OptWalk OptRel OptDecat OptFails OptEmpties OptUnroll OptPromote OptBrackets OptBytes OptTop OptEmit PikeDen PikeCorrect PikeTop.

(* the relation is a congruence: the walk lifts a sound rewrite rule to a pass *)
Theorem c03_walk_lifts_rewrite_rule : forall ix unicode utf16 h (okp : nat -> Prop) (func : bool -> node -> R action),
  (forall lb n a, func lb n = Ok a -> PRel ix unicode utf16 h okp lb n (act_node a n)) ->
  forall fuel n n', run_to_fixpoint func fuel n = Ok n' -> PRel ix unicode utf16 h okp false n n'.
Proof. exact pass_sound. Qed.

(* what a pass is shown to establish: refinement, and the invariants kept *)
Definition pass_ok ix unicode utf16 h (okp : nat -> Prop) (n n' : node) : Prop :=
  qok n = true -> al ix unicode utf16 h okp n ->
  ref ix unicode utf16 h okp true n n' /\ qok n' = true /\ al ix unicode utf16 h okp n' /\ ng n' = ng n.

Theorem c03_decat_sound : forall ix unicode utf16 h (okp : nat -> Prop) fuel n n',
  run_to_fixpoint decat fuel n = Ok n' -> pass_ok ix unicode utf16 h okp n n'.
Proof. intros ix unicode utf16 h okp fuel n n' E. exact (decat_pass_sound ix unicode utf16 h okp fuel n n' E). Qed.

Theorem c03_unroll_loops_sound : forall ix unicode utf16 h (okp : nat -> Prop),
  ix_ok ix -> short h -> (forall q, okp q -> (q <= length h)%nat) ->
  forall fuel n n', run_to_fixpoint unroll_loops fuel n = Ok n' -> pass_ok ix unicode utf16 h okp n n'.
Proof.
  intros ix unicode utf16 h okp (Hcur & Hdir) Hlen Hk0 fuel n n' E.
  exact (unroll_pass_sound ix unicode utf16 h okp Hcur Hdir Hk0 Hlen fuel n n' E).
Qed.

Theorem c03_remove_empties_sound : forall ix unicode utf16 h (okp : nat -> Prop) fuel n n',
  run_to_fixpoint remove_empties fuel n = Ok n' -> pass_ok ix unicode utf16 h okp n n'.
Proof. intros ix unicode utf16 h okp fuel n n' E. exact (empties_pass_sound ix unicode utf16 h okp fuel n n' E). Qed.

Theorem c03_propagate_early_fails_sound : forall ix unicode utf16 h (okp : nat -> Prop),
  (forall fwd p c p', okp p -> cnext ix fwd h p = Ok (Some (c, p')) -> c <= CODE_POINT_MAX) ->
  forall fuel n n', run_to_fixpoint propagate_early_fails fuel n = Ok n' -> pass_ok ix unicode utf16 h okp n n'.
Proof. intros ix unicode utf16 h okp Hcp fuel n n' E. exact (fails_pass_sound ix unicode utf16 h okp Hcp fuel n n' E). Qed.

Theorem c03_promote_1char_loops_sound : forall ix unicode utf16 h (okp : nat -> Prop),
  (forall body fwd s q q', matches_exactly_one_char body = true -> okp q ->
     single_step ix unicode h (negb fwd) body fwd = Some s -> s q = Some (Some q') -> step_inv ix h fwd q q' = true) ->
  forall fuel n n', run_to_fixpoint promote_1char_loops fuel n = Ok n' -> pass_ok ix unicode utf16 h okp n n'.
Proof. intros ix unicode utf16 h okp Hs fuel n n' E. exact (promote_pass_sound ix unicode utf16 h okp Hs fuel n n' E). Qed.

Theorem c03_simplify_brackets_sound : forall ix unicode utf16 h (okp : nat -> Prop),
  text_ok ix unicode h okp ->
  forall fuel n n', run_to_fixpoint simplify_brackets fuel n = Ok n' -> pass_ok ix unicode utf16 h okp n n'.
Proof.
  intros ix unicode utf16 h okp (_ & Hk1 & _ & _ & Hcp & Hb1 & Hb2 & _) fuel n n' E.
  exact (brackets_pass_sound ix unicode utf16 h okp Hk1 Hcp Hb1 Hb2 fuel n n' E).
Qed.

(* a refining node gives the same leftmost search from a well-formed start, the trailing Goal stripped on both sides *)
Theorem c03_refinement_preserves_search : forall ix unicode utf16 h (okp : nat -> Prop) n n',
  text_ok ix unicode h okp -> ref ix unicode utf16 h okp true n n' ->
  exists K, forall fuel ngroups tries p r, okp p ->
    ir_search ix unicode utf16 h fuel (ir_top n) ngroups tries p = Some r ->
    ir_search ix unicode utf16 h (fuel + K) (ir_top n') ngroups tries p = Some r.
Proof. exact top_search_ref. Qed.

(* optimize() of the utf16 build (form_literal_bytes is compiled out): the search is unchanged *)
Theorem c03_optimize_sound_utf16_build : forall ix unicode utf16 h (okp : nat -> Prop),
  ix_ok ix -> short h -> text_ok ix unicode h okp ->
  forall n n', optimize true n = Ok n' -> qok n = true -> al ix unicode utf16 h okp n ->
  exists K, forall fuel ngroups tries p r, okp p ->
    ir_search ix unicode utf16 h fuel (ir_top n) ngroups tries p = Some r ->
    ir_search ix unicode utf16 h (fuel + K) (ir_top n') ngroups tries p = Some r.
Proof.
  intros ix unicode utf16 h okp Hi Hsh Ht n n' E Hq Ha.
  destruct (optimize_sound_utf16_build ix unicode utf16 h okp Hi Hsh Ht n n' E Hq Ha) as [Hr _].
  apply top_search_ref; assumption.
Qed.

(* optimize(), either build *)
Theorem c03_optimize_sound : forall ix unicode utf16 h (okp : nat -> Prop),
  ix_ok ix -> short h -> text_ok ix unicode h okp -> text_enc ix h okp ->
  forall u16 n n', optimize u16 n = Ok n' -> qok n = true -> al ix unicode utf16 h okp n ->
  exists K, forall fuel ngroups tries p r, okp p ->
    ir_search ix unicode utf16 h fuel (ir_top n) ngroups tries p = Some r ->
    ir_search ix unicode utf16 h (fuel + K) (ir_top n') ngroups tries p = Some r.
Proof.
  intros ix unicode utf16 h okp Hi Hsh Ht He u16 n n' E Hq Ha.
  destruct (optimize_sound ix unicode utf16 h okp Hi Hsh Ht He u16 n n' E Hq Ha) as [Hr _].
  apply top_search_ref; assumption.
Qed.

Theorem c03_form_literal_bytes_sound : forall ix unicode utf16 h (okp : nat -> Prop),
  text_ok ix unicode h okp -> text_enc ix h okp ->
  forall fuel n n', run_to_fixpoint form_literal_bytes fuel n = Ok n' -> pass_ok ix unicode utf16 h okp n n'.
Proof.
  intros ix unicode utf16 h okp (Hk0 & Hk1 & _ & _ & _ & Hb1 & Hb2 & _) (He1 & He2) fuel n n' E.
  exact (literal_pass_sound ix unicode utf16 h okp Hk0 Hk1 Hb1 Hb2 He1 He2 fuel n n' E).
Qed.

(* a node without byte-level leaves or string sets (what the parser produces for a pattern without \q{...}) stays
   among the well-formed positions: for such nodes the hypothesis [al] follows from
   the text hypotheses *)
Theorem c03_simple_nodes_stay_well_formed : forall ix unicode utf16 h (okp : nat -> Prop),
  text_ok ix unicode h okp -> forall n, simple n = true -> al ix unicode utf16 h okp n.
Proof.
  intros ix unicode utf16 h okp (_ & Hk1 & _ & Hk4 & _ & Hb1 & _ & _) n Hs.
  exact (al_simple ix unicode utf16 h okp Hk1 Hk4 Hb1 n Hs).
Qed.

(* ... and with the encoding hypotheses also for \q{...} string sets (each alternative is lowered to pieces that are
   UTF-8 encodings, ASCII byte sets, small character sets or single non-scalar elements): every node kind the parser
   produces *)
Theorem c03_parsed_nodes_stay_well_formed : forall ix unicode utf16 h (okp : nat -> Prop),
  text_ok ix unicode h okp -> text_enc ix h okp -> forall n, parsed n = true -> al ix unicode utf16 h okp n.
Proof. exact al_parsed. Qed.

Theorem c03_optimize_sound_utf16_build_simple : forall ix unicode utf16 h (okp : nat -> Prop),
  ix_ok ix -> short h -> text_ok ix unicode h okp ->
  forall n n', optimize true n = Ok n' -> qok n = true -> simple n = true ->
  exists K, forall fuel ngroups tries p r, okp p ->
    ir_search ix unicode utf16 h fuel (ir_top n) ngroups tries p = Some r ->
    ir_search ix unicode utf16 h (fuel + K) (ir_top n') ngroups tries p = Some r.
Proof.
  intros ix unicode utf16 h okp Hi Hsh Ht n n' E Hq Hs.
  apply (c03_optimize_sound_utf16_build ix unicode utf16 h okp Hi Hsh Ht n n' E Hq).
  apply c03_simple_nodes_stay_well_formed; assumption.
Qed.

Theorem c03_optimize_sound_simple : forall ix unicode utf16 h (okp : nat -> Prop),
  ix_ok ix -> short h -> text_ok ix unicode h okp -> text_enc ix h okp ->
  forall u16 n n', optimize u16 n = Ok n' -> qok n = true -> simple n = true ->
  exists K, forall fuel ngroups tries p r, okp p ->
    ir_search ix unicode utf16 h fuel (ir_top n) ngroups tries p = Some r ->
    ir_search ix unicode utf16 h (fuel + K) (ir_top n') ngroups tries p = Some r.
Proof.
  intros ix unicode utf16 h okp Hi Hsh Ht He u16 n n' E Hq Hs.
  apply (c03_optimize_sound ix unicode utf16 h okp Hi Hsh Ht He u16 n n' E Hq).
  apply c03_simple_nodes_stay_well_formed; assumption.
Qed.

(* the check the driver evaluates on every generated haystack (IRShape.text_ok_b) establishes the text hypotheses at
   the character boundaries of that haystack — all but the one about one-character steps, which the Loop1CharBody
   semantics checks itself wherever it takes such a step *)
Theorem c03_text_check_sound : forall ix unicode h, text_ok_b ix h = true ->
  (forall body fwd s q q', matches_exactly_one_char body = true -> bnd h q ->
     single_step ix unicode h (negb fwd) body fwd = Some s -> s q = Some (Some q') -> step_inv ix h fwd q q' = true) ->
  (forall fwd p rs re e, bnd h p -> bnd h rs -> bnd h re -> subrange_eq fwd h p rs re = Ok (Some e) -> bnd h e) ->
  text_ok ix unicode h (bnd h).
Proof. exact text_ok_b_sound. Qed.

(* whatever the text: optimize() keeps the node invariant and the number of capture groups (no group is deleted or
   duplicated — the accessors of C16 and the capture table of C06 rely on it) *)
Theorem c03_optimize_preserves_invariants : forall u16 n n', optimize u16 n = Ok n' -> qok n = true ->
  qok n' = true /\ ng n' = ng n.
Proof. exact optimize_invariants. Qed.

Lemma u8_ix_ok fold : ix_ok (utf8_indexer fold).
Proof. split; [intros h' fwd p c p'; apply u8_cursor|intros h' fwd p c p'; apply u8_dir]. Qed.

(* ---- where no UTF-8 theory is needed, nothing is left as a hypothesis ---- *)
(* the text hypotheses hold of every byte string read through the ASCII indexer (the *_ascii entry points), every
   position of the text being well-formed, and every node stays inside the text *)
Theorem c03_text_ok_ascii : forall h, bytes_ok h -> forall unicode, text_ok ascii_indexer unicode h (inside h).
Proof. exact text_ok_ascii. Qed.

(* the utf16 build through the ASCII indexer, any byte string *)
Theorem c03_optimize_sound_utf16_build_ascii : forall unicode utf16 h, bytes_ok h -> short h ->
  forall n n', optimize true n = Ok n' -> qok n = true ->
  exists K, forall fuel ngroups tries p r, (p <= length h)%nat ->
    ir_search ascii_indexer unicode utf16 h fuel (ir_top n) ngroups tries p = Some r ->
    ir_search ascii_indexer unicode utf16 h (fuel + K) (ir_top n') ngroups tries p = Some r.
Proof.
  intros unicode utf16 h Hb Hsh n n' E Hq.
  exact (c03_optimize_sound_utf16_build ascii_indexer unicode utf16 h (inside h) (conj ascii_cursor ascii_dir) Hsh (text_ok_ascii h Hb unicode)
           n n' E Hq (al_all_ascii h unicode utf16 n)).
Qed.

(* either build, the ASCII indexer on ASCII text *)
Theorem c03_optimize_sound_ascii_indexer_ascii_text : forall unicode utf16 h, Forall (fun b => b < 128) h -> short h ->
  forall u16 n n', optimize u16 n = Ok n' -> qok n = true ->
  exists K, forall fuel ngroups tries p r, (p <= length h)%nat ->
    ir_search ascii_indexer unicode utf16 h fuel (ir_top n) ngroups tries p = Some r ->
    ir_search ascii_indexer unicode utf16 h (fuel + K) (ir_top n') ngroups tries p = Some r.
Proof.
  intros unicode utf16 h Ha Hsh u16 n n' E Hq.
  exact (c03_optimize_sound ascii_indexer unicode utf16 h (inside h) (conj ascii_cursor ascii_dir) Hsh (text_ok_ascii h (ascii_bytes_ok h Ha) unicode)
           (text_enc_ascii h Ha) u16 n n' E Hq (al_all_ascii h unicode utf16 n)).
Qed.

(* either build, the UTF-8 indexer on ASCII text *)
Theorem c03_optimize_sound_utf8_indexer_ascii_text : forall fold unicode utf16 h, Forall (fun b => b < 128) h -> short h ->
  forall u16 n n', optimize u16 n = Ok n' -> qok n = true ->
  exists K, forall fuel ngroups tries p r, (p <= length h)%nat ->
    ir_search (utf8_indexer fold) unicode utf16 h fuel (ir_top n) ngroups tries p = Some r ->
    ir_search (utf8_indexer fold) unicode utf16 h (fuel + K) (ir_top n') ngroups tries p = Some r.
Proof.
  intros fold unicode utf16 h Ha Hsh u16 n n' E Hq.
  exact (c03_optimize_sound (utf8_indexer fold) unicode utf16 h (inside h) (u8_ix_ok fold) Hsh (text_ok_utf8_on_ascii fold h Ha unicode)
           (text_enc_utf8_on_ascii fold h Ha) u16 n n' E Hq (al_all_utf8_on_ascii fold h unicode utf16 n)).
Qed.

(* ---- well-formed UTF-8 text read through the UTF-8 indexer: the text hypotheses are theorems ---- *)
(* the text is a sequence of well-formed characters (Unicode Table 3-7; utf8_chars decides it and is evaluated by the
   driver on every generated haystack); the well-formed positions are the character boundaries.  The facts about single
   characters (decoding gives a scalar value whose encoding is the character, lead byte and length agree, only
   trailing bytes are continuation bytes; the encoder gives a well-formed character that decodes back) are finite and
   checked by evaluation over all byte tuples / all scalar values (Proofs/Utf8Facts.v). *)
Theorem c03_text_ok_utf8 : forall fold cs unicode, wf_text cs -> text_ok (utf8_indexer fold) unicode (concat cs) (Utf8Valid.bnd cs).
Proof. intros fold cs unicode Hw. exact (text_ok_utf8 fold cs Hw unicode). Qed.

Theorem c03_text_enc_utf8 : forall fold cs, wf_text cs -> text_enc (utf8_indexer fold) (concat cs) (Utf8Valid.bnd cs).
Proof. intros fold cs Hw. exact (text_enc_utf8 fold cs Hw false). Qed.

(* optimize(), either build, the UTF-8 indexer on any well-formed UTF-8 text, a pattern without \q{...}
   string sets, a start at a character boundary, a text shorter than usize::MAX: no other hypothesis
   on the text *)
Theorem c03_optimize_sound_utf8_text : forall fold unicode utf16 h cs, utf8_chars (length h) h = Some cs -> short h ->
  forall u16 n n', optimize u16 n = Ok n' -> qok n = true -> simple n = true ->
  exists K, forall fuel ngroups tries p r, Utf8Valid.bnd cs p ->
    ir_search (utf8_indexer fold) unicode utf16 h fuel (ir_top n) ngroups tries p = Some r ->
    ir_search (utf8_indexer fold) unicode utf16 h (fuel + K) (ir_top n') ngroups tries p = Some r.
Proof.
  intros fold unicode utf16 h cs Hch Hsh u16 n n' E Hq Hs.
  destruct (utf8_chars_ok _ _ _ Hch) as [Hw Hcat]. subst h.
  exact (c03_optimize_sound_simple (utf8_indexer fold) unicode utf16 (concat cs) (Utf8Valid.bnd cs) (u8_ix_ok fold) Hsh
           (text_ok_utf8 fold cs Hw unicode) (text_enc_utf8 fold cs Hw unicode) u16 n n' E Hq Hs).
Qed.

(* the same for every pattern the parser can produce, \q{...} string sets included *)
Theorem c03_optimize_sound_parsed : forall ix unicode utf16 h (okp : nat -> Prop),
  ix_ok ix -> short h -> text_ok ix unicode h okp -> text_enc ix h okp ->
  forall u16 n n', optimize u16 n = Ok n' -> qok n = true -> parsed n = true ->
  exists K, forall fuel ngroups tries p r, okp p ->
    ir_search ix unicode utf16 h fuel (ir_top n) ngroups tries p = Some r ->
    ir_search ix unicode utf16 h (fuel + K) (ir_top n') ngroups tries p = Some r.
Proof.
  intros ix unicode utf16 h okp Hi Hsh Ht He u16 n n' E Hq Hs.
  apply (c03_optimize_sound ix unicode utf16 h okp Hi Hsh Ht He u16 n n' E Hq).
  apply c03_parsed_nodes_stay_well_formed; assumption.
Qed.
Theorem c03_optimize_sound_utf8_text_all_patterns : forall fold unicode utf16 h cs, utf8_chars (length h) h = Some cs -> short h ->
  forall u16 n n', optimize u16 n = Ok n' -> qok n = true -> parsed n = true ->
  exists K, forall fuel ngroups tries p r, Utf8Valid.bnd cs p ->
    ir_search (utf8_indexer fold) unicode utf16 h fuel (ir_top n) ngroups tries p = Some r ->
    ir_search (utf8_indexer fold) unicode utf16 h (fuel + K) (ir_top n') ngroups tries p = Some r.
Proof.
  intros fold unicode utf16 h cs Hch Hsh u16 n n' E Hq Hs.
  destruct (utf8_chars_ok _ _ _ Hch) as [Hw Hcat]. subst h.
  exact (c03_optimize_sound_parsed (utf8_indexer fold) unicode utf16 (concat cs) (Utf8Valid.bnd cs) (u8_ix_ok fold) Hsh
           (text_ok_utf8 fold cs Hw unicode) (text_enc_utf8 fold cs Hw unicode) u16 n n' E Hq Hs).
Qed.

(* Non-vacuity of the last theorem: "éa€" splits into three well-formed characters; 0, 2, 3 and 6 are its boundaries *)
Example c03_utf8_example :
  utf8_chars 6 [195; 169; 97; 226; 130; 172] = Some [[195; 169]; [97]; [226; 130; 172]] /\
  Utf8Valid.bnd [[195; 169]; [97]; [226; 130; 172]] 2.
Proof. split; [vm_compute; reflexivity|]. exists [[195; 169]], [[97]; [226; 130; 172]]. split; reflexivity. Qed.

(* ---- down to the programs the PikeVM runs ---- *)
Lemma top_shape_ir_top n body : top_shape n body -> ir_top n = NCat body.
Proof.
  intros [->|[[-> ->]|[-> ->]]]; [|reflexivity|reflexivity].
  cbn [ir_top]. rewrite rev_app_distr. cbn [rev app]. rewrite rev_involutive. reflexivity.
Qed.

(* the program emitted for the optimized node and the program emitted for the original node give the PikeVM the same
   answer: the leftmost-first match of the IR semantics of the original pattern (well-formed UTF-8 text, a start at a
   character boundary, any pattern the parser produces; top_shape, ir_wf and qok are evaluated by the
   driver on every IR; short h: the text is shorter than usize::MAX, so that no loop counter reaches the value that stands for "unbounded") *)
Theorem c03_pikevm_same_answer_after_optimize :
  forall fold h cs utf16 unicode ml n n' body body' prog names prog' names',
  utf8_chars (length h) h = Some cs -> short h ->
  optimize utf16 n = Ok n' -> qok n = true -> parsed n = true ->
  top_shape n body -> top_shape n' body' ->
  emit utf16 unicode ml n = Ok (prog, names) -> emit utf16 unicode ml n' = Ok (prog', names') ->
  ir_wf (NCat body) = true -> ir_wf (NCat body') = true ->
  forall fuel tries p r, Utf8Valid.bnd cs p ->
  ir_search (utf8_indexer fold) unicode utf16 h fuel (NCat body) (p_groups prog) tries p = Some r ->
  exists f0 k k', forall pfuel m budget, (f0 <= pfuel)%nat -> m + k <= budget -> m + k' <= budget ->
    pk_search (utf8_indexer fold) prog h budget pfuel tries (pk_init_state prog p) m = (result_of (utf8_indexer fold) h r, m + k) /\
    pk_search (utf8_indexer fold) prog' h budget pfuel tries (pk_init_state prog' p) m = (result_of (utf8_indexer fold) h r, m + k').
Proof.
  intros fold h cs utf16 unicode ml n n' body body' prog names prog' names' Hch Hsh Eo Hq Hs Ht Ht' Ee Ee' Hwf Hwf'.
  destruct (optimize_invariants utf16 n n' Eo Hq) as [Hq' Hng].
  assert (Hg : p_groups prog' = p_groups prog).
  { rewrite (emit_program_groups utf16 unicode ml n prog names Hq Ee), (emit_program_groups utf16 unicode ml n' prog' names' Hq' Ee'). exact Hng. }
  destruct (c03_optimize_sound_utf8_text_all_patterns fold unicode utf16 h cs Hch Hsh utf16 n n' Eo Hq Hs) as [K HK].
  intros fuel tries p r Hp Es.
  rewrite <- (top_shape_ir_top n body Ht) in Es.
  pose proof (HK fuel (p_groups prog) tries p r Hp Es) as Es'.
  rewrite (top_shape_ir_top n body Ht) in Es. rewrite (top_shape_ir_top n' body' Ht') in Es'. rewrite <- Hg in Es'.
  destruct (pike_emit_correct (utf8_indexer fold) h utf16 unicode ml n body prog names fuel tries p r Ht Ee Hwf Es) as (f1 & k & H1).
  destruct (pike_emit_correct (utf8_indexer fold) h utf16 unicode ml n' body' prog' names' (fuel + K) tries p r Ht' Ee' Hwf' Es') as (f2 & k' & H2).
  exists (Nat.max f1 f2), k, k'. intros pfuel m budget Hf Hb Hb'. split; [apply H1; [lia|exact Hb]|apply H2; [lia|exact Hb']].
Qed.

(* Non-vacuity: (?:a{2,3}|)[xy](?:) — a loop that unroll_loops and promote_1char_loops rewrite, a bracket that
   simplify_brackets reduces, an empty alternative and an empty group that decat and remove_empties clean up; the
   invariant holds, the node is simple, optimize (default build, literal bytes included) runs and changes the node, and the search over the result agrees. *)
Definition c03_node : node :=
  NCat [NAlt (NLoop (NChar 97) 2 (Some 3) true 0 0) (NCat []); NBracket (mkBracket false [(120, 121)]); NCat []; NGoal].
Example c03_example :
  qok c03_node = true /\
  simple c03_node = true /\
  (exists n', optimize false c03_node = Ok n' /\ n' <> c03_node /\
     ir_search (utf8_indexer fold_code_point) false false [97; 97; 97; 120] 30 (ir_top c03_node) 0 5 0 =
     ir_search (utf8_indexer fold_code_point) false false [97; 97; 97; 120] 30 (ir_top n') 0 5 0 /\
     ir_search (utf8_indexer fold_code_point) false false [97; 97; 97; 120] 30 (ir_top n') 0 5 0 = Some (Some (0, 4, []))%nat).
Proof.
  split; [reflexivity|]. split; [reflexivity|]. eexists.
  split; [vm_compute; reflexivity|]. split; [discriminate|]. split; vm_compute; reflexivity.
Qed.
