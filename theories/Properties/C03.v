(* C03 — optimisation never changes what a pattern matches.
   Proved here, for the model of src/optimizer.rs (Model/Optimizer.v) against the IR semantics (Spec/IRSem.v):
   a refinement relation between IR nodes (Proofs/OptMono.v: wherever the meaning of the original node is defined,
   the rewritten node has the same ordered results up to repetitions of an earlier result — Proofs/OptDD.v — with
   a bounded amount of extra fuel, fuel staying below usize::MAX) is a preorder and a congruence for every node
   constructor; the post-order walk and run_to_fixpoint lift a rewrite rule that establishes it to the whole pass
   (Proofs/OptWalk.v); and every single rewrite of simplify_brackets, decat, unroll_loops, promote_1char_loops,
   remove_empties and propagate_early_fails establishes it (OptBrackets, OptDecat, OptUnroll, OptPromote, OptEmpties,
   OptFails), under the invariant qok (a loop's min <= max, its group range = the number of groups of its body, a
   character set has at most four members, brackets satisfy the CodePointSet invariant, the body of a one-character
   loop is a one-instruction leaf — evaluated by the driver on every IR the implementation produces), which the
   passes preserve; relative to a set okp of well-formed positions of the text (character boundaries) among which
   the node stays (al: every leaf started at such a position ends at one), and under hypotheses on the text at those
   positions (text_ok: reading an element leads to a well-formed position; elements are code points; bytes and
   elements agree below 128; a one-character step can be undone — all true of well-formed UTF-8 at character
   boundaries, stated here as hypotheses; proved for the ASCII indexer on every byte string, where every position is
   well-formed).
   Refinement of nodes gives equality of the leftmost search, also after the trailing Goal is stripped (ir_top);
   with the C02/C04 theorems (both interpreter models return exactly that search) this is the statement of C03:
   completely for the utf16 build of the crate (c03_optimize_sound_utf16_build), and for the default build up to the
   single rewrites of form_literal_bytes (a literal against its UTF-8 bytes), which c03_optimize_modulo_literal_bytes
   leaves as its one hypothesis.  The whole pipeline is also compared on the implementation (optimised against
   unoptimised, every generated case) on every run. *)
From RV Require Import Base.
From RV.Model Require Import Utf8 Indexer CodePointSet Insn IR Optimizer Unfold Emit Fold.
From RV.Spec Require Import IRSem IRShape.
From RV.Gen Require Import FoldTables.
From RV.Proofs Require Import IndexerFacts OptTextAscii OptDD OptMono OptWalk OptRel OptDecat OptFails OptEmpties OptUnroll OptPromote OptBrackets OptTop.

(* the relation is a congruence: the walk lifts a sound rewrite rule to a pass *)
Theorem c03_walk_lifts_rewrite_rule : forall ix unicode utf16 h (okp : nat -> Prop) (func : bool -> node -> R action),
  (forall lb n a, func lb n = Ok a -> PRel ix unicode utf16 h okp lb n (act_node a n)) ->
  forall fuel n n', run_to_fixpoint func fuel n = Ok n' -> PRel ix unicode utf16 h okp false n n'.
Proof. exact pass_sound. Qed.

(* what a pass is shown to establish: refinement, and the invariants kept *)
Definition pass_ok ix unicode utf16 h (okp : nat -> Prop) (n n' : node) : Prop :=
  qok n = true -> al ix unicode utf16 h okp n ->
  ref ix unicode utf16 h okp true n n' /\ qok n' = true /\ al ix unicode utf16 h okp n' /\ ng n' = ng n.

Theorem c03_decat_sound : forall ix unicode utf16 h (okp : nat -> Prop) fuel n n',
  run_to_fixpoint decat fuel n = Ok n' -> pass_ok ix unicode utf16 h okp n n'.
Proof. intros ix unicode utf16 h okp fuel n n' E. exact (decat_pass_sound ix unicode utf16 h okp fuel n n' E). Qed.

Theorem c03_unroll_loops_sound : forall ix unicode utf16 h (okp : nat -> Prop) fuel n n',
  run_to_fixpoint unroll_loops fuel n = Ok n' -> pass_ok ix unicode utf16 h okp n n'.
Proof. intros ix unicode utf16 h okp fuel n n' E. exact (unroll_pass_sound ix unicode utf16 h okp fuel n n' E). Qed.

Theorem c03_remove_empties_sound : forall ix unicode utf16 h (okp : nat -> Prop) fuel n n',
  run_to_fixpoint remove_empties fuel n = Ok n' -> pass_ok ix unicode utf16 h okp n n'.
Proof. intros ix unicode utf16 h okp fuel n n' E. exact (empties_pass_sound ix unicode utf16 h okp fuel n n' E). Qed.

Theorem c03_propagate_early_fails_sound : forall ix unicode utf16 h (okp : nat -> Prop),
  (forall fwd p c p', okp p -> cnext ix fwd h p = Ok (Some (c, p')) -> c <= CODE_POINT_MAX) ->
  forall fuel n n', run_to_fixpoint propagate_early_fails fuel n = Ok n' -> pass_ok ix unicode utf16 h okp n n'.
Proof. intros ix unicode utf16 h okp Hcp fuel n n' E. exact (fails_pass_sound ix unicode utf16 h okp Hcp fuel n n' E). Qed.

Theorem c03_promote_1char_loops_sound : forall ix unicode utf16 h (okp : nat -> Prop),
  (forall body fwd s q q', matches_exactly_one_char body = true -> okp q ->
     single_step ix unicode h (negb fwd) body fwd = Some s -> s q = Some (Some q') -> step_inv ix h fwd q q' = true) ->
  forall fuel n n', run_to_fixpoint promote_1char_loops fuel n = Ok n' -> pass_ok ix unicode utf16 h okp n n'.
Proof. intros ix unicode utf16 h okp Hs fuel n n' E. exact (promote_pass_sound ix unicode utf16 h okp Hs fuel n n' E). Qed.

Theorem c03_simplify_brackets_sound : forall ix unicode utf16 h (okp : nat -> Prop),
  text_ok ix unicode h okp ->
  forall fuel n n', run_to_fixpoint simplify_brackets fuel n = Ok n' -> pass_ok ix unicode utf16 h okp n n'.
Proof.
  intros ix unicode utf16 h okp (Hk1 & _ & Hcp & Hb1 & Hb2 & _) fuel n n' E.
  exact (brackets_pass_sound ix unicode utf16 h okp Hk1 Hcp Hb1 Hb2 fuel n n' E).
Qed.

(* a refining node gives the same leftmost search from a well-formed start, the trailing Goal stripped on both sides *)
Theorem c03_refinement_preserves_search : forall ix unicode utf16 h (okp : nat -> Prop) n n',
  text_ok ix unicode h okp -> ref ix unicode utf16 h okp true n n' ->
  exists K, forall fuel ngroups tries p r, fuel_ok (fuel + K) -> okp p ->
    ir_search ix unicode utf16 h fuel (ir_top n) ngroups tries p = Some r ->
    ir_search ix unicode utf16 h (fuel + K) (ir_top n') ngroups tries p = Some r.
Proof. exact top_search_ref. Qed.

(* optimize() of the utf16 build (form_literal_bytes is compiled out): the search is unchanged *)
Theorem c03_optimize_sound_utf16_build : forall ix unicode utf16 h (okp : nat -> Prop),
  text_ok ix unicode h okp ->
  forall n n', optimize true n = Ok n' -> qok n = true -> al ix unicode utf16 h okp n ->
  exists K, forall fuel ngroups tries p r, fuel_ok (fuel + K) -> okp p ->
    ir_search ix unicode utf16 h fuel (ir_top n) ngroups tries p = Some r ->
    ir_search ix unicode utf16 h (fuel + K) (ir_top n') ngroups tries p = Some r.
Proof.
  intros ix unicode utf16 h okp Ht n n' E Hq Ha.
  destruct (optimize_sound_utf16_build ix unicode utf16 h okp Ht n n' E Hq Ha) as [Hr _].
  apply top_search_ref; assumption.
Qed.

(* optimize() of the default build: what remains is the soundness of the single rewrites of form_literal_bytes *)
Theorem c03_optimize_modulo_literal_bytes : forall ix unicode utf16 h (okp : nat -> Prop),
  (forall lb n a, form_literal_bytes lb n = Ok a -> PRel ix unicode utf16 h okp lb n (act_node a n)) ->
  text_ok ix unicode h okp ->
  forall u16 n n', optimize u16 n = Ok n' -> qok n = true -> al ix unicode utf16 h okp n ->
  exists K, forall fuel ngroups tries p r, fuel_ok (fuel + K) -> okp p ->
    ir_search ix unicode utf16 h fuel (ir_top n) ngroups tries p = Some r ->
    ir_search ix unicode utf16 h (fuel + K) (ir_top n') ngroups tries p = Some r.
Proof.
  intros ix unicode utf16 h okp H4 Ht u16 n n' E Hq Ha.
  destruct (optimize_sound_if ix unicode utf16 h okp H4 Ht u16 n n' E Hq Ha) as [Hr _].
  apply top_search_ref; assumption.
Qed.

(* the text hypotheses hold of every byte string read through the ASCII indexer (the *_ascii entry points), every
   position being well-formed, and every node stays among them ... *)
Theorem c03_text_ok_ascii : forall h, bytes_ok h -> forall unicode, text_ok ascii_indexer unicode h (fun _ => True).
Proof. exact text_ok_ascii. Qed.

(* ... so there the statement needs no hypothesis on the text or the node beyond qok *)
Theorem c03_optimize_sound_utf16_build_ascii : forall unicode utf16 h, bytes_ok h ->
  forall n n', optimize true n = Ok n' -> qok n = true ->
  exists K, forall fuel ngroups tries p r, fuel_ok (fuel + K) ->
    ir_search ascii_indexer unicode utf16 h fuel (ir_top n) ngroups tries p = Some r ->
    ir_search ascii_indexer unicode utf16 h (fuel + K) (ir_top n') ngroups tries p = Some r.
Proof.
  intros unicode utf16 h Hb n n' E Hq.
  destruct (c03_optimize_sound_utf16_build ascii_indexer unicode utf16 h (fun _ => True) (text_ok_ascii h Hb unicode)
              n n' E Hq (al_all_ascii h unicode utf16 n)) as [K HK].
  exists K. intros fuel ngroups tries p r Hf Es. exact (HK fuel ngroups tries p r Hf I Es).
Qed.

(* Non-vacuity: (?:a{2,3}|)[xy](?:) — a loop that unroll_loops and promote_1char_loops rewrite, a bracket that
   simplify_brackets reduces, an empty alternative and an empty group that decat and remove_empties clean up; the
   invariant holds, optimize (utf16 build) runs and changes the node, and the search over the result agrees. *)
Definition c03_node : node :=
  NCat [NAlt (NLoop (NChar 97) 2 (Some 3) true 0 0) (NCat []); NBracket (mkBracket false [(120, 121)]); NCat []; NGoal].
Example c03_example :
  qok c03_node = true /\
  (exists n', optimize true c03_node = Ok n' /\ n' <> c03_node /\
     ir_search (utf8_indexer fold_code_point) false false [97; 97; 97; 120] 30 (ir_top c03_node) 0 5 0 =
     ir_search (utf8_indexer fold_code_point) false false [97; 97; 97; 120] 30 (ir_top n') 0 5 0 /\
     ir_search (utf8_indexer fold_code_point) false false [97; 97; 97; 120] 30 (ir_top n') 0 5 0 = Some (Some (0, 4, []))%nat).
Proof.
  split; [reflexivity|]. eexists.
  split; [vm_compute; reflexivity|]. split; [discriminate|]. split; vm_compute; reflexivity.
Qed.
