(* C08 — accepted language = ECMAScript grammar.  The parser is not modelled as a whole: acceptance is compared with V8
   on token-level strings and every pattern printed from a generated syntax tree must be accepted.  One early error
   is carried by a theorem, because the code that decides it is part of the modelled class set evaluation: "a negated
   class may not contain strings" (the error regress decides with the may_contain_strings flag of ClassSet; two of
   the repairs made to regress were about it).  For every class expression that itself passes this error the flag is
   ECMAScript's static MayContainStrings of the expression (Spec.vmcs), so that the parser rejects [^E] exactly when
   the standard does.  The decision is compared with the implementation on every generated expression. *)
From RV Require Import Base.
From RV.Model Require Import ClassSet.
From RV.Spec Require Import Spec.
From RV.Proofs Require Import MayContain.

Theorem c08_may_contain_strings_flag : forall icase e, vnegok e = true -> cs_mcs (eval icase e) = vmcs e.
Proof. exact eval_mcs. Qed.

(* the early error on [^E]: raised by the parser model exactly when E may contain strings *)
Theorem c08_negated_class_early_error : forall icase e, vnegok e = true ->
  (cs_mcs (eval icase e) = true <-> vnegok (VNeg e) = false).
Proof.
  intros icase e Hok. rewrite (eval_mcs icase e Hok). cbn [vnegok]. rewrite Hok, andb_true_r. destruct (vmcs e); cbn; intuition congruence.
Qed.

(* Non-vacuity: [\q{ab}&&a] may not contain strings (so [^[\q{ab}&&a]] is valid), [a\q{ab}] may, [a\q{b}] may not *)
Example c08_example :
  vmcs (VInter [VStrs [[97; 98]]; VCh 97]) = false /\ cs_mcs (eval false (VInter [VStrs [[97; 98]]; VCh 97])) = false /\
  vmcs (VUnion [VCh 97; VStrs [[97; 98]]]) = true /\ cs_mcs (eval true (VUnion [VCh 97; VStrs [[97; 98]]])) = true /\
  vmcs (VUnion [VCh 97; VStrs [[98]]]) = false.
Proof. vm_compute. repeat split. Qed.
