(* C07 — compilation is total: the part after the parser.
   src/optimizer.rs runs every pass "until nothing changes" (Pass::run_to_fixpoint); the model (Model/Optimizer.v)
   carries that loop with explicit fuel and reports exhaustion as Err Unreach, and the correspondence check evaluates
   it with PASS_FUEL = 200.  The theorems here are about the loop itself, for every IR node whatsoever:
   each pass lowers a measure of the tree with every rewrite it makes, so the loop stops (c07_pass_terminates), the
   whole of optimize() stops and from some fuel on its answer does not depend on the fuel (c07_optimize_terminates,
   c07_optimize_fuel_irrelevant); and on a tree of the shape the parser produces (Spec/IRShape.v qok, checked by the
   driver on every IR the implementation dumps) none of the asserts of try_duplicate / promote_1char_loops can fire,
   so that optimize() returns Ok (c07_optimize_total).  The emitter of the model is a structural recursion over the
   node (accepted by Coq's guard checker), the parser is not modelled: for it C07 rests on the adversary runs. *)
From RV Require Import Base.
From RV.Model Require Import Utf8 Indexer CodePointSet Insn IR Optimizer Unfold Emit.
From RV.Spec Require Import IRSem IRShape.
From RV.Model Require Import ClassSet.
From RV.Proofs Require Import OptWalk OptTerm OptTotal Closure ClassAtom.

(* every pass reaches its fixpoint: there is a fuel from which on the loop returns one and the same result, and that
   result is not "out of fuel" *)
Theorem c07_pass_terminates :
  settles (run_to_fixpoint simplify_brackets) /\ settles (run_to_fixpoint decat) /\ settles (run_to_fixpoint unroll_loops) /\
  settles (run_to_fixpoint promote_1char_loops) /\ settles (run_to_fixpoint form_literal_bytes) /\
  settles (run_to_fixpoint remove_empties) /\ settles (run_to_fixpoint propagate_early_fails).
Proof.
  repeat split; [exact brackets_settles|exact decat_settles|exact unroll_settles|exact promote_settles|exact literal_settles|
                 exact empties_settles|exact fails_settles].
Qed.

(* the bound is explicit: more fuel than the measure of the tree is enough (here for the unroll pass, whose measure
   is the number of loops with a positive minimum) *)
Theorem c07_unroll_bound : forall fuel n,
  (amu (fun _ => 0%nat) 0 0 0 0 0 kloop_pos n < fuel)%nat -> run_to_fixpoint unroll_loops fuel n <> Err Unreach.
Proof. exact unroll_fuel_bound. Qed.

Theorem c07_optimize_terminates : forall u16 n,
  exists F r, r <> Err Unreach /\ forall fuel, (F <= fuel)%nat -> optimize_with fuel u16 n = r.
Proof. exact optimize_settles. Qed.

(* the model's optimize (fuel 200) is the unbounded loop wherever it does not report exhaustion *)
Theorem c07_optimize_fuel_irrelevant : forall u16 n r, optimize u16 n = r -> r <> Err Unreach ->
  forall fuel, (PASS_FUEL <= fuel)%nat -> optimize_with fuel u16 n = r.
Proof. intros u16 n r E Hr fuel Hle. exact (optimize_with_mono PASS_FUEL fuel u16 n r E Hr Hle). Qed.

(* no panic site on the parser's shape class *)
Theorem c07_try_duplicate_no_panic : forall n d, qok n = true -> ng n = 0%nat -> exists r, try_duplicate n d = Ok r.
Proof. exact try_dup_ok. Qed.

Theorem c07_optimize_total : forall u16 n, qok n = true ->
  exists F n', qok n' = true /\ ng n' = ng n /\ forall fuel, (F <= fuel)%nat -> optimize_with fuel u16 n = Ok n'.
Proof. exact optimize_total. Qed.

(* one panic site of the parser: Parser::char_node panics when the case expansion of a literal has more than four
   members ("Unicode case fold exceeded maximum expansion"); it has between one and four, for every code point, in
   both modes, so the panic is unreachable (the same bound keeps literal.rs and the emitter's CharSet from theirs) *)
Theorem c07_case_expansion_is_small : forall c icase unicode, (1 <= length (expand_code_point c icase unicode) <= 4)%nat.
Proof. exact expand_code_point_length. Qed.
Theorem c07_char_node_no_panic : forall icase unicode c, exists n, char_node icase unicode c = Ok n.
Proof. exact char_node_total. Qed.

(* Non-vacuity: (?:(?:a{2}){2}){2}b+ is in the class, and the fuel-200 model computes its optimized form (decat runs
   before the unrolling, so the unrolled bodies stay nested) *)
Definition c07_ir : node :=
  NCat [NLoop (NLoop (NLoop (NChar 97) 2 (Some 2) true 0 0) 2 (Some 2) true 0 0) 2 (Some 2) true 0 0;
        NLoop (NChar 98) 1 None true 0 0].
Example c07_example : qok c07_ir = true /\
  optimize false c07_ir =
    Ok (NCat [NCat [NCat [NByteSequence [97; 97]; NByteSequence [97; 97]]; NCat [NByteSequence [97; 97]; NByteSequence [97; 97]]];
              NCat [NByteSequence [98]; NLoop1CharBody (NByteSequence [98]) 0 None true]]).
Proof. split; vm_compute; reflexivity. Qed.
