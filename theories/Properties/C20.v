(* C20 — the Pattern-trait searcher honours the std Searcher contract.
   Theorems over the model of RegexSearcher (Model/Searcher.v), for every find_from with the C09
   properties (a match lies at or after the search position, inside the text, and is stable under
   restarting the search anywhere up to its start): the forward steps are adjacent, non-overlapping and
   cover [0, len]; the backward steps tile [0, len] from the end.  Match steps are exactly the
   find_iter matches by construction of the model (forward: each Match is find_from at the cursor;
   backward: the find_iter list reversed) — checked on the implementation on every run. *)
From RV Require Import Base.
From RV.Model Require Import Searcher.
From RV.Proofs Require Import SearcherProofs.

Theorem c20_forward_tiles : forall len find_from next_boundary,
  (forall p s e, find_from p = Some (s, e) -> (p <= s)%nat /\ (s <= e)%nat /\ (e <= len)%nat) ->
  (forall p, (p < len)%nat -> (p < next_boundary p)%nat /\ (next_boundary p <= len)%nat) ->
  tiles_from 0 len (s_run len find_from next_boundary (2 * len + len + 5) fs_init).
Proof. intros len ff nb H1 H2. apply forward_tiles; assumption. Qed.

Theorem c20_backward_tiles : forall len find_iter,
  rev_ok len (rev find_iter) ->
  tiles_back len (r_run (2 * length find_iter + 4) (rs_init len find_iter)).
Proof. exact backward_tiles. Qed.

(* Non-vacuity: /\d*/ on "ab12cd" (find_from by table), the case that failed before the repair. *)
Example c20_example :
  let ff := fun p => match p with 0 => Some (0, 0) | 1 => Some (1, 1) | 2 => Some (2, 4) | 3 => Some (4, 4) | 4 => Some (4, 4)
                                | 5 => Some (5, 5) | 6 => Some (6, 6) | _ => None end%nat in
  s_run 6 ff S 30 fs_init =
  [SMatch 0 0; SReject 0 1; SMatch 1 1; SReject 1 2; SMatch 2 4; SMatch 4 4; SReject 4 5; SMatch 5 5; SReject 5 6; SMatch 6 6; SDone]%nat.
Proof. reflexivity. Qed.
