(* C18 — escape(s) is a pattern that matches exactly the literal s.
   Proved here: the shape of escape (for every string).  That the parser reads escape(s) as the
   literal s under every flag set, and that its matches are the occurrences of s, is checked by the
   correspondence stream (compile status under 12 flag sets, matches vs the reference LitSpec and vs
   str::match_indices); the parser is not yet modelled, so that half has no theorem. *)
From RV Require Import Base.
From RV.Model Require Import Api.
From RV.Proofs Require Import ApiProofs.

(* escape only prefixes a backslash to the 14 special characters and changes nothing else *)
Theorem c18_escape_shape : forall s, Esc s (escape s).
Proof. exact escape_Esc. Qed.

(* reading "\c" as c recovers s: the escaped pattern denotes s and nothing else *)
Theorem c18_unescape_escape : forall s, unescape (escape s) = s.
Proof. exact unescape_escape. Qed.

Theorem c18_escape_injective : forall a b, escape a = escape b -> a = b.
Proof. exact escape_injective. Qed.

Theorem c18_escape_app : forall a b, escape (a ++ b) = escape a ++ escape b.
Proof. exact escape_app. Qed.

Example c18_example : escape [97; 46; 36; 92; 233] = [97; 92; 46; 92; 36; 92; 92; 233].
Proof. reflexivity. Qed.
