(* C16 — Match accessors are consistent; named access finds the participating group.
   Property theorems only: each is closed by [exact] of a lemma proved in Proofs/ApiProofs.v. *)
From RV Require Import Base.
From RV.Model Require Import Api.
From RV.Proofs Require Import ApiProofs.

(* group(0) is the whole match *)
Theorem c16_group_zero : forall m, group m 0 = Some (am_range m).
Proof. exact group_zero. Qed.

(* group(i+1) is capture slot i (None beyond the last slot) *)
Theorem c16_group_index : forall m i, group m (S i) = nth i (am_caps m) None.
Proof. exact group_succ. Qed.

(* groups() yields the whole match followed by every capture slot, in order *)
Theorem c16_groups : forall m, groups m = Some (am_range m) :: am_caps m.
Proof. exact groups_spec. Qed.

(* named_group(name) agrees with named_groups() for every name, duplicates included *)
Theorem c16_named_agree : forall m name, named_group m name = AOk (ng_lookup name (named_groups m)).
Proof. exact named_agree. Qed.

(* what both report is the first *participating* group carrying the name ... *)
Theorem c16_named_participating : forall name names caps r,
  named_group_go name names caps = Some r ->
  exists i, nth_error names i = Some name /\ nth_error caps i = Some (Some r) /\
            forall j, (j < i)%nat -> nth_error names j = Some name -> nth_error caps j = Some None.
Proof. exact named_group_go_some. Qed.

(* ... and None only if no group of that name participated *)
Theorem c16_named_none : forall name names caps,
  length names = length caps -> named_group_go name names caps = None ->
  forall i, nth_error names i = Some name -> nth_error caps i = Some None.
Proof. exact named_group_go_none. Qed.

(* named_groups() reports each name once, never the unnamed sentinel, only names of the pattern *)
Theorem c16_names_distinct : forall m, NoDup (map fst (named_groups m)).
Proof. intro m. exact (named_groups_go_nodup [] (am_names m) (am_caps m)). Qed.

Theorem c16_names_real : forall m n r, In (n, r) (named_groups m) -> n <> [] /\ In n (am_names m).
Proof.
  intros m n r H. destruct (named_groups_go_names [] _ _ _ _ H) as (A & _ & C). split; assumption.
Qed.

(* Non-vacuity: /(?<a>x)|(?<a>y)/ on "y" — two groups named "a", the second participated. *)
Example c16_duplicate_name_example :
  let m := mkAM (0, 1)%nat [None; Some (0, 1)%nat] [[97]; [97]] in
  named_group m [97] = AOk (Some (0, 1)%nat) /\ named_groups m = [([97], Some (0, 1)%nat)] /\
  groups m = [Some (0, 1)%nat; None; Some (0, 1)%nat].
Proof. repeat split. Qed.

Check c16_named_agree : forall m name, named_group m name = AOk (ng_lookup name (named_groups m)).
