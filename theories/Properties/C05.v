(* C05 — every search terminates with bounded backtracking state.
   Proved here for the PikeVM model (Model/Pike.v, Model/Exec.v pk_search), for every program emit produces:
   whenever the IR semantics of the pattern (Spec/IRSem.v) is defined on the search — which the
   correspondence check evaluates on every generated case — the PikeVM's search loop returns the
   leftmost-first match of that semantics after an exact number k of ticks, for every sufficient recursion
   fuel and every step budget >= k: no budget outcome, no error outcome, no dependence on fuel.  This covers
   loops whose body can match the empty string (the empty-iteration check of run_loop is what the proof of
   loop_dec uses), greedy and lazy, any min/max, forward and inside lookbehind, nested lookarounds.
   The same is proved for the backtracking model (Model/BT.v, bt_search with the trivial prefilter) for every
   node kind; there the undo log is shown to restore captures, stack and loop data after
   every failed exploration (chain / Qback in Proofs/BTCorrect.v), which bounds the backtrack store by the
   ordered search itself.
   Not proved: that the IR semantics is defined for some fuel (it is evaluated, not proved
   total). *)
From RV Require Import Base.
From RV.Model Require Import Utf8 Indexer CodePointSet Insn IR Optimizer Unfold Emit Pike BT Exec Fold.
From RV.Spec Require Import IRSem.
From RV.Spec Require Import IRShape.
From RV.Proofs Require Import PikeDen PikeCorrect PikeTop BTDen BTCorrect BTTop IndexerFacts Utf8Facts Utf8Valid.
From RV.Gen Require Import FoldTables.

(* a derivation of the relational PikeVM semantics bounds the executable run: exact tick count, any larger fuel/budget *)
Theorem c05_pikevm_derivation_bounds_run : forall ix prog h fwd S o,
  Den ix prog h fwd S o ->
  exists f0 k, forall fuel n budget, (f0 <= fuel)%nat -> n + k <= budget ->
    pk_run ix prog h budget fuel fwd S n = (out_of o, n + k).
Proof. exact den_pk_run. Qed.

(* the search loop over the program emitted for Cat [body; Goal] *)
Theorem c05_pikevm_search_terminates : forall ix h utf16 unicode ml n body prog names fuel tries p r,
  top_shape n body ->
  emit utf16 unicode ml n = Ok (prog, names) ->
  ir_wf (NCat body) = true ->
  ir_search ix unicode utf16 h fuel (NCat body) (p_groups prog) tries p = Some r ->
  exists f0 k, forall pfuel n budget, (f0 <= pfuel)%nat -> n + k <= budget ->
    pk_search ix prog h budget pfuel tries (pk_init_state prog p) n = (result_of ix h r, n + k).
Proof. exact pike_emit_correct. Qed.

Theorem c05_backtracker_derivation_bounds_run : forall ix prog h fwd c o,
  BDen ix prog h fwd c o ->
  exists f0 k, forall fuel n budget, (f0 <= fuel)%nat -> n + k <= budget ->
    bt_run ix prog h budget fuel fwd c n = (o, n + k).
Proof. exact bden_bt_run. Qed.

Theorem c05_backtracker_search_terminates : forall ix h utf16 unicode ml n body prog names fuel tries p r,
  (forall fwd p c p', cnext ix fwd h p = Ok (Some (c, p')) -> ix_elem_of_u32 ix c = true) ->
  walk_ok ix h tries p = true ->
  top_shape n body ->
  emit utf16 unicode ml n = Ok (prog, names) ->
  bt_wf (p_groups prog) (NCat body) = true ->
  ir_search ix unicode utf16 h fuel (NCat body) (p_groups prog) tries p = Some r ->
  exists f0 k st', forall pfuel n budget, (f0 <= pfuel)%nat -> n + k <= budget ->
    bt_search ix prog h budget pfuel (fun _ => true) tries (bt_init prog) p n = (bt_result_of ix h r st', n + k).
Proof. exact bt_emit_correct. Qed.

(* the UTF-8 indexer on well-formed UTF-8 text, from a start at a character boundary: both hypotheses on the text are
   theorems (every element read is a scalar value; the positions a search visits stay inside the text) *)
Theorem c05_backtracker_search_terminates_valid_utf8 : forall fold h cs utf16 unicode ml n body prog names fuel tries p r,
  utf8_chars (length h) h = Some cs -> Utf8Valid.bnd cs p ->
  top_shape n body ->
  emit utf16 unicode ml n = Ok (prog, names) ->
  bt_wf (p_groups prog) (NCat body) = true ->
  ir_search (utf8_indexer fold) unicode utf16 h fuel (NCat body) (p_groups prog) tries p = Some r ->
  exists f0 k st', forall pfuel n budget, (f0 <= pfuel)%nat -> n + k <= budget ->
    bt_search (utf8_indexer fold) prog h budget pfuel (fun _ => true) tries (bt_init prog) p n =
    (bt_result_of (utf8_indexer fold) h r st', n + k).
Proof.
  intros fold h cs utf16 unicode ml n body prog names fuel tries p r Hch Hp.
  destruct (utf8_chars_ok _ _ _ Hch) as [Hw Hcat]. subst h.
  apply bt_emit_correct; [intros fwd q c q'; apply utf8_elem|apply walk_ok_utf8; assumption].
Qed.

(* Non-vacuity: a star of a star of 'a', then 'b' — a nested loop whose body can match the empty string — on "aab" and on "aac":
   the hypotheses hold (emit succeeds, the IR is well-formed, the IR semantics is defined). *)
Definition c05_body : list node :=
  [NLoop (NLoop (NChar 97) 0 None true 0 0) 0 None true 0 0; NChar 98].
Example c05_example_hypotheses :
  (exists prog names, emit false false false (NCat (c05_body ++ [NGoal])) = Ok (prog, names) /\ p_groups prog = 0%nat) /\
  ir_wf (NCat c05_body) = true /\ bt_wf 0 (NCat c05_body) = true /\
  ir_search (utf8_indexer fold_code_point) false false [97; 97; 98] 50 (NCat c05_body) 0 5 0 = Some (Some (0, 3, []))%nat /\
  ir_search (utf8_indexer fold_code_point) false false [97; 97; 99] 50 (NCat c05_body) 0 5 0 = Some None.
Proof. repeat split; try (vm_compute; reflexivity). eexists; eexists; split; vm_compute; reflexivity. Qed.
