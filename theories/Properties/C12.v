(* C12 — character classes evaluate as sets.
   Proved here (for all sets and code points): the CodePointSet algebra of src/codepointset.rs — the
   representation invariant (sorted, disjoint, non-abutting, in range) is preserved and add / add_set /
   inverted / remove / intersect denote union / union / complement / difference / intersection — and
   the meaning of a bracket (invert flag); intersect and remove keep the invariant too (CpsWf.v).
   The evaluation of a v-mode class *expression* in the parser is modelled (Model/ClassSet.v: ClassSet with
   union / intersect / subtract of operands, the case folding of operands under i, nested and negated classes,
   ClassSet::node) and compared with the IR of every generated expression; it is proved to denote the set of code
   points and strings ECMAScript prescribes (Spec.v vmem / vstrs), with and without i: for expressions without \q
   strings (c12_class_set_expression_meaning, c12_class_node_meaning) and with them, a string of one code point
   counting as that code point (c12_class_set_expression_meaning_with_strings).  The translation of the class *text*
   into that expression, the order in which strings are tried, and legacy brackets are checked end to end against
   the reference semantics (C01 and class streams). *)
From RV Require Import Base.
From RV.Model Require Import CodePointSet Insn Fold IR ClassSet.
From RV.Spec Require Import Spec.
From RV.Model Require Import Unfold.
From RV.Proofs Require Import CpsProofs CpsWf Closure ClassSetProofs ClassSetFull.

Definition inb := CpsProofs.inb.

Theorem c12_add_union : forall s f l c, f <= l ->
  cps_contains (cps_add s f l) c = cps_contains s c || inb c f l.
Proof. exact add_contains. Qed.

Theorem c12_add_wf : forall s f l, cps_wf s = true -> f <= l -> l <= CODE_POINT_MAX ->
  cps_wf (cps_add s f l) = true.
Proof. intros. unfold cps_wf. apply add_wf; auto. lia. Qed.

Theorem c12_add_set_union : forall s r c, cps_wf s = true -> cps_wf r = true ->
  cps_contains (cps_add_set s r) c = cps_contains s c || cps_contains r c.
Proof. exact add_set_contains. Qed.

Theorem c12_add_set_wf : forall s r, cps_wf s = true -> cps_wf r = true -> cps_wf (cps_add_set s r) = true.
Proof. exact add_set_wf. Qed.

Theorem c12_inverted_complement : forall s c, cps_wf s = true -> c <= CODE_POINT_MAX ->
  cps_contains (cps_inverted s) c = negb (cps_contains s c).
Proof. exact inverted_contains. Qed.

Theorem c12_inverted_wf : forall s, cps_wf s = true -> cps_wf (cps_inverted s) = true.
Proof. exact inverted_wf. Qed.

Theorem c12_remove_difference : forall s r c, cps_wf s = true -> cps_wf r = true ->
  cps_contains (cps_remove s r) c = cps_contains s c && negb (cps_contains r c).
Proof. exact remove_contains. Qed.

Theorem c12_intersect_intersection : forall s r c,
  cps_contains (cps_intersect s r) c = cps_contains s c && cps_contains r c.
Proof. exact intersect_contains. Qed.

(* a bracket matches c iff c is in the set, xor the invert flag *)
Theorem c12_bracket_meaning : forall b c,
  bracket_matches b c = xorb (br_invert b) (cps_contains (br_ivs b) c).
Proof.
  intros b c. unfold bracket_matches.
  change (cps_contains (br_ivs b) c) with (ivs_contains (br_ivs b) c).
  destruct (ivs_contains (br_ivs b) c); destruct (br_invert b); reflexivity.
Qed.

(* Non-vacuity: [a-c] + [b-z] then minus [x-y] on concrete sets. *)
Example c12_example :
  cps_wf (cps_add [(97, 99)] 98 122) = true /\ cps_add [(97, 99)] 98 122 = [(97, 122)] /\
  cps_remove [(97, 122)] [(120, 121)] = [(97, 119); (122, 122)] /\
  cps_inverted [(0, 9); (11, 1114111)] = [(10, 10)].
Proof. repeat split. Qed.

Theorem c12_intersect_wf : forall s r, cps_wf s = true -> cps_wf r = true -> cps_wf (cps_intersect s r) = true.
Proof. exact intersect_wf. Qed.
Theorem c12_remove_wf : forall s r, cps_wf s = true -> cps_wf r = true -> cps_wf (cps_remove s r) = true.
Proof. exact remove_wf. Qed.

(* v-mode class expressions without \q strings (vwf: ranges ordered and inside the code space, escape sets
   well-formed): the class set the parser model builds has no strings, keeps the invariant, and contains exactly the
   code points the reference semantics puts into the expression - under i: leaves folded, operators on folded sets,
   complement within the folded universe (eqclass enumerates the code points with the same simple case folding) *)
Theorem c12_class_set_expression_meaning : forall (eqclass : N -> list N), eqclass_spec fold eqclass ->
  forall icase e, vwf e = true -> sfree e = true ->
  cs_alts (eval icase e) = [] /\ cps_wf (cs_cps (eval icase e)) = true /\
  forall x, x <= CODE_POINT_MAX -> cps_contains (cs_cps (eval icase e)) x = vmem fold eqclass icase e x.
Proof.
  intros eqclass Hec icase e Hwf Hsf. destruct (eval_means eqclass Hec icase e Hwf Hsf) as [[Ha Hw] M]. auto.
Qed.

(* ... and the IR node the parser emits for it is one bracket with those members *)
Theorem c12_class_node_meaning : forall (eqclass : N -> list N), eqclass_spec fold eqclass ->
  forall icase e, vwf e = true -> sfree e = true ->
  exists cps', class_node icase e = NBracket (mkBracket (top_neg e) cps') /\ cps_wf cps' = true /\
    forall x, x <= CODE_POINT_MAX -> xorb (top_neg e) (cps_contains cps' x) = vmem fold eqclass icase e x.
Proof. intros eqclass Hec. exact (class_node_meaning eqclass Hec). Qed.

(* ... with \q strings (vok: characters inside the code space, negation only over string-free contents as the syntax
   demands): the code points of the class set together with its strings of one code point are the reference members,
   and its other strings are, as a set, the reference strings (folded under i) *)
Theorem c12_class_set_expression_meaning_with_strings : forall (eqclass : N -> list N), eqclass_spec fold eqclass ->
  forall icase e, vok e = true ->
  cps_wf (cs_cps (eval icase e)) = true /\
  (forall x, x <= CODE_POINT_MAX ->
     cps_contains (cs_cps (eval icase e)) x || single_mem (cs_alts (eval icase e)) x = vmem fold eqclass icase e x) /\
  (forall str, In str (multis (cs_alts (eval icase e))) <-> In str (vstrs fold icase e)).
Proof.
  intros eqclass Hec icase e Hok. destruct (eval_means_full eqclass Hec icase e Hok) as ([Hw _] & M & S). auto.
Qed.

(* ... with the equivalence classes the implementation itself computes (unfold_char, proved in C10 to enumerate the
   canonical class of every code point) no hypothesis is left *)
Theorem c12_class_set_expression_meaning_closed : forall icase e, vok e = true ->
  cps_wf (cs_cps (eval icase e)) = true /\
  (forall x, x <= CODE_POINT_MAX ->
     cps_contains (cs_cps (eval icase e)) x || single_mem (cs_alts (eval icase e)) x = vmem fold unfold_char icase e x) /\
  (forall str, In str (multis (cs_alts (eval icase e))) <-> In str (vstrs fold icase e)).
Proof. exact (c12_class_set_expression_meaning_with_strings unfold_char unfold_char_spec). Qed.

(* Non-vacuity: [\w--[k]] under iv has neither k nor K nor U+212A (the case that failed before the repair of D16) *)
Example c12_class_example :
  let e := VSub [VEsc false [(48, 57); (65, 90); (95, 95); (97, 122)]; VUnion [VCh 107]] in
  vwf e = true /\ sfree e = true /\
  map (cps_contains (cs_cps (eval true e))) [107; 75; 8490; 106] = [false; false; false; true].
Proof. vm_compute. repeat split. Qed.

(* Non-vacuity, with strings: [\q{ab|A|c}&&[\q{AB|a}c]] under iv keeps the string ab (folded), a and c *)
Example c12_class_strings_example :
  let e := VInter [VStrs [[97; 98]; [65]; [99]]; VUnion [VStrs [[65; 66]; [97]]; VCh 99]] in
  vok e = true /\
  cs_alts (eval true e) = [[97; 98]] /\ map (cps_contains (cs_cps (eval true e))) [97; 65; 99; 67; 98] = [true; true; true; true; false].
Proof. vm_compute. repeat split. Qed.
