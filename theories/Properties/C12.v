(* C12 — character classes evaluate as sets.
   Proved here (for all sets and code points): the CodePointSet algebra of src/codepointset.rs — the
   representation invariant (sorted, disjoint, non-abutting, in range) is preserved and add / add_set /
   inverted / remove / intersect denote union / union / complement / difference / intersection — and
   the meaning of a bracket (invert flag).  The class *syntax* (parser) is not modelled: that a class
   expression is translated to these operations as ECMAScript prescribes is checked end to end against
   the reference semantics (C01 stream, which generates class expressions incl. v-mode strings). *)
From RV Require Import Base.
From RV.Model Require Import CodePointSet Insn.
From RV.Proofs Require Import CpsProofs.

Definition inb := CpsProofs.inb.

Theorem c12_add_union : forall s f l c, f <= l ->
  cps_contains (cps_add s f l) c = cps_contains s c || inb c f l.
Proof. exact add_contains. Qed.

Theorem c12_add_wf : forall s f l, cps_wf s = true -> f <= l -> l <= CODE_POINT_MAX ->
  cps_wf (cps_add s f l) = true.
Proof. intros. unfold cps_wf. apply add_wf; auto. lia. Qed.

Theorem c12_add_set_union : forall s r c, cps_wf s = true -> cps_wf r = true ->
  cps_contains (cps_add_set s r) c = cps_contains s c || cps_contains r c.
Proof. exact add_set_contains. Qed.

Theorem c12_add_set_wf : forall s r, cps_wf s = true -> cps_wf r = true -> cps_wf (cps_add_set s r) = true.
Proof. exact add_set_wf. Qed.

Theorem c12_inverted_complement : forall s c, cps_wf s = true -> c <= CODE_POINT_MAX ->
  cps_contains (cps_inverted s) c = negb (cps_contains s c).
Proof. exact inverted_contains. Qed.

Theorem c12_inverted_wf : forall s, cps_wf s = true -> cps_wf (cps_inverted s) = true.
Proof. exact inverted_wf. Qed.

Theorem c12_remove_difference : forall s r c, cps_wf s = true -> cps_wf r = true ->
  cps_contains (cps_remove s r) c = cps_contains s c && negb (cps_contains r c).
Proof. exact remove_contains. Qed.

Theorem c12_intersect_intersection : forall s r c,
  cps_contains (cps_intersect s r) c = cps_contains s c && cps_contains r c.
Proof. exact intersect_contains. Qed.

(* a bracket matches c iff c is in the set, xor the invert flag *)
Theorem c12_bracket_meaning : forall b c,
  bracket_matches b c = xorb (br_invert b) (cps_contains (br_ivs b) c).
Proof.
  intros b c. unfold bracket_matches.
  change (cps_contains (br_ivs b) c) with (ivs_contains (br_ivs b) c).
  destruct (ivs_contains (br_ivs b) c); destruct (br_invert b); reflexivity.
Qed.

(* Non-vacuity: [a-c] + [b-z] then minus [x-y] on concrete sets. *)
Example c12_example :
  cps_wf (cps_add [(97, 99)] 98 122) = true /\ cps_add [(97, 99)] 98 122 = [(97, 122)] /\
  cps_remove [(97, 122)] [(120, 121)] = [(97, 119); (122, 122)] /\
  cps_inverted [(0, 9); (11, 1114111)] = [(10, 10)].
Proof. repeat split. Qed.
