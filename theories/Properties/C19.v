(* C19 — a compiled Regex is immutable and safe to share across threads.
   (1) type_graph_frozen: regenerated from /repo/src on every run by tools/gen_typegraph.py — no `static mut`,
       no interior mutability / lazies / thread locals anywhere in the crate, no &mut self method on
       Regex / Match / Error, no raw pointer / Rc / cell / trait object inside the types threads share.
   (2) c19_schedule_independent: in the model every search is a deterministic step function over its own
       configuration with the program as a constant (Pike.v / BT.v take [prog] as a parameter and return no
       new program), so under ANY interleaving each thread ends where it would end running alone.
   Real interleavings, the compiler's Send/Sync derivation and data races are runtime facts: the harness
   asserts `Regex/Match/Error: Send + Sync` at compile time and compares N threads x shared &Regex with
   the sequential results on every run (partial). *)
From Coq Require Import String.
From RV Require Import Base.
From RV.Gen Require Import TypeGraph.
From RV.Proofs Require Import SchedProofs.

Theorem c19_type_graph_frozen :
  static_mut_sites = [] /\ interior_mutability_sites = [] /\ shared_type_mut_methods = [] /\ shared_type_bad_fields = [].
Proof. repeat split. Qed.

Theorem c19_schedule_independent : forall (C : Type) (step : C -> C) (sched : list nat) (cfgs : list C) (j : nat),
  nth_error (run_sched C step sched cfgs) j =
  option_map (iter C step (count_occ Nat.eq_dec sched j)) (nth_error cfgs j).
Proof. exact schedule_independent. Qed.

Theorem c19_schedules_agree : forall (C : Type) (step : C -> C) s1 s2 cfgs j,
  count_occ Nat.eq_dec s1 j = count_occ Nat.eq_dec s2 j ->
  nth_error (run_sched C step s1 cfgs) j = nth_error (run_sched C step s2 cfgs) j.
Proof. exact schedules_agree. Qed.

Example c19_example : run_sched nat S [0; 1; 0; 2; 1; 0]%nat [10; 20; 30]%nat = [13; 22; 31]%nat.
Proof. reflexivity. Qed.
