(* C01 — the first match is the one ECMAScript prescribes.
   The chain the development has: the engines return the leftmost-first match of the IR semantics (C02, C04, C05), the
   optimizer keeps it (C03), and the IR semantics of what the parser produces is compared on every run with the
   reference semantics Spec.v on generated syntax trees (end to end, all starts, all captures).  What is *proved* about
   that last link is one atom kind, carried all the way from the class as written to the bytes of the text: a v-mode
   class expression without \q strings.  On any well-formed UTF-8 text, with the cursor in front of a character, the
   IR node the parser model emits for the class (Model/ClassSet.v, tied to parse.rs by IR equality on every generated
   expression) and the reference semantics of the class take the same decision on that character and move to
   corresponding positions - the reference from character index i to i+1, the IR from the byte offset of character i
   to that of character i+1.  Every other construct (sequencing, alternation, groups, quantifiers, lookarounds,
   backreferences, anchors, legacy classes, strings in classes) is validated, not proved. *)
From RV Require Import Base.
From RV.Model Require Import Utf8 Indexer CodePointSet Insn Fold IR Unfold ClassSet.
From RV.Spec Require Import Spec IRSem.
From RV.Proofs Require Import Closure ClassSetProofs Utf8Facts Utf8Valid ClassAtom.

Theorem c01_class_atom_is_the_reference : forall foldf unicode utf16 pre post c icase e f f' G caps,
  wf_text (pre ++ c :: post) -> vwf e = true -> sfree e = true ->
  let text := concat (pre ++ c :: post) in
  let chars := map dec (pre ++ c :: post) in
  let decision := vmem fold unfold_char icase e (dec c) in
  es_results fold unfold_char chars (S f) (RVClass e icase) Fwd (length pre, caps) =
    Some (if decision then [(S (length pre), caps)] else []) /\
  ir_results (utf8_indexer foldf) unicode utf16 text (S f') (class_node icase e) true (length (concat pre), G) =
    Some (if decision then [((length (concat pre) + length c)%nat, G)] else []).
Proof.
  intros foldf unicode utf16 pre post c icase e f f' G caps Hw Hwf Hsf. cbv zeta. split.
  - exact (class_reference_step unfold_char pre post c icase e Hsf f caps).
  - exact (class_node_step unfold_char unfold_char_spec foldf unicode utf16 pre post c Hw icase e Hwf Hsf f' G).
Qed.

(* the same inside a lookbehind, where both semantics read backwards: from behind the character to in front of it *)
Theorem c01_class_atom_is_the_reference_backwards : forall foldf unicode utf16 pre post c icase e f f' G caps,
  wf_text (pre ++ c :: post) -> vwf e = true -> sfree e = true ->
  let text := concat (pre ++ c :: post) in
  let chars := map dec (pre ++ c :: post) in
  let decision := vmem fold unfold_char icase e (dec c) in
  es_results fold unfold_char chars (S f) (RVClass e icase) Bwd (S (length pre), caps) =
    Some (if decision then [(length pre, caps)] else []) /\
  ir_results (utf8_indexer foldf) unicode utf16 text (S f') (class_node icase e) false ((length (concat pre) + length c)%nat, G) =
    Some (if decision then [(length (concat pre), G)] else []).
Proof.
  intros foldf unicode utf16 pre post c icase e f f' G caps Hw Hwf Hsf. cbv zeta. split.
  - exact (class_reference_step_back unfold_char pre post c icase e Hsf f caps).
  - exact (class_node_step_back unfold_char unfold_char_spec foldf unicode utf16 pre post c Hw icase e Hwf Hsf f' G).
Qed.

(* Non-vacuity: [\w--[k]] under iv in front of the Kelvin sign in "a" U+212A "b": both say no; in front of "a": both yes *)
Example c01_class_atom_example :
  let e := VSub [VEsc false [(48, 57); (65, 90); (95, 95); (97, 122)]; VUnion [VCh 107]] in
  wf_text [[97]; [226; 132; 170]; [98]] /\ vwf e = true /\ sfree e = true /\
  dec [226; 132; 170] = 8490 /\ vmem fold unfold_char true e 8490 = false /\ vmem fold unfold_char true e 97 = true.
Proof. vm_compute. repeat split; repeat constructor. Qed.
