(* C01 — the first match is the one ECMAScript prescribes.
   The chain the development has: the engines return the leftmost-first match of the IR semantics (C02, C04, C05), the
   optimizer keeps it (C03), and the IR semantics of what the parser produces is compared on every run with the
   reference semantics Spec.v on generated syntax trees (end to end, all starts, all captures).  What is *proved* about
   that last link are the single-character atoms, carried all the way from the atom as written to the bytes of the
   text: a literal character (with and without i, Unicode and legacy mode), the dot, and a v-mode class expression
   without \q strings (this one in both directions).  On any well-formed UTF-8 text, with the cursor in front of a character, the
   IR node the parser model emits for the class (Model/ClassSet.v, tied to parse.rs by IR equality on every generated
   expression) and the reference semantics of the class take the same decision on that character and move to
   corresponding positions - the reference from character index i to i+1, the IR from the byte offset of character i
   to that of character i+1.  Every other construct (sequencing, alternation, groups, quantifiers, lookarounds,
   backreferences, anchors, legacy classes, strings in classes) is validated, not proved. *)
From RV Require Import Base.
From RV.Model Require Import Utf8 Indexer CodePointSet Insn Fold IR Unfold ClassSet.
From RV.Spec Require Import Spec IRSem.
From RV.Proofs Require Import Closure ClassSetProofs Utf8Facts Utf8Valid ClassAtom.

Theorem c01_class_atom_is_the_reference : forall foldf unicode utf16 pre post c icase e f f' G caps,
  wf_text (pre ++ c :: post) -> vwf e = true -> sfree e = true ->
  let text := concat (pre ++ c :: post) in
  let chars := map dec (pre ++ c :: post) in
  let decision := vmem fold unfold_char icase e (dec c) in
  es_results fold unfold_char chars (S f) (RVClass e icase) Fwd (length pre, caps) =
    Some (if decision then [(S (length pre), caps)] else []) /\
  ir_results (utf8_indexer foldf) unicode utf16 text (S f') (class_node icase e) true (length (concat pre), G) =
    Some (if decision then [((length (concat pre) + length c)%nat, G)] else []).
Proof.
  intros foldf unicode utf16 pre post c icase e f f' G caps Hw Hwf Hsf. cbv zeta. split.
  - exact (class_reference_step unfold_char pre post c icase e Hsf f caps).
  - exact (class_node_step unfold_char unfold_char_spec foldf unicode utf16 pre post c Hw icase e Hwf Hsf f' G).
Qed.

(* the same inside a lookbehind, where both semantics read backwards: from behind the character to in front of it *)
Theorem c01_class_atom_is_the_reference_backwards : forall foldf unicode utf16 pre post c icase e f f' G caps,
  wf_text (pre ++ c :: post) -> vwf e = true -> sfree e = true ->
  let text := concat (pre ++ c :: post) in
  let chars := map dec (pre ++ c :: post) in
  let decision := vmem fold unfold_char icase e (dec c) in
  es_results fold unfold_char chars (S f) (RVClass e icase) Bwd (S (length pre), caps) =
    Some (if decision then [(length pre, caps)] else []) /\
  ir_results (utf8_indexer foldf) unicode utf16 text (S f') (class_node icase e) false ((length (concat pre) + length c)%nat, G) =
    Some (if decision then [(length (concat pre), G)] else []).
Proof.
  intros foldf unicode utf16 pre post c icase e f f' G caps Hw Hwf Hsf. cbv zeta. split.
  - exact (class_reference_step_back unfold_char pre post c icase e Hsf f caps).
  - exact (class_node_step_back unfold_char unfold_char_spec foldf unicode utf16 pre post c Hw icase e Hwf Hsf f' G).
Qed.

(* a literal character, with or without i, in Unicode or legacy mode (canonical form = simple case folding or the
   legacy upper-casing): the node Parser::char_node builds (the character, or the set of its case variants) decides as
   the reference does; eqclass is not used by a literal *)
Theorem c01_char_atom_is_the_reference : forall foldf unicode utf16 pre post c eqclass ch icase n f f' G caps,
  wf_text (pre ++ c :: post) -> char_node icase unicode ch = Ok n ->
  let canon := fun x => fold_code_point x unicode in
  let decision := char_matches canon ch icase (dec c) in
  es_results canon eqclass (map dec (pre ++ c :: post)) (S f) (RChar ch icase) Fwd (length pre, caps) =
    Some (if decision then [(S (length pre), caps)] else []) /\
  ir_results (utf8_indexer foldf) unicode utf16 (concat (pre ++ c :: post)) (S f') n true (length (concat pre), G) =
    Some (if decision then [((length (concat pre) + length c)%nat, G)] else []).
Proof.
  intros foldf unicode utf16 pre post c eqclass ch icase n f f' G caps Hw En.
  exact (char_atom_step foldf unicode utf16 pre post c Hw eqclass ch icase n f f' G caps En).
Qed.

(* the dot, with and without s *)
Theorem c01_dot_atom_is_the_reference : forall foldf unicode utf16 pre post c eqclass dot_all f f' G caps,
  wf_text (pre ++ c :: post) ->
  let canon := fun x => fold_code_point x unicode in
  let decision := dot_all || negb (is_lt (dec c)) in
  es_results canon eqclass (map dec (pre ++ c :: post)) (S f) (RAny dot_all) Fwd (length pre, caps) =
    Some (if decision then [(S (length pre), caps)] else []) /\
  ir_results (utf8_indexer foldf) unicode utf16 (concat (pre ++ c :: post)) (S f') (dot_node dot_all) true (length (concat pre), G) =
    Some (if decision then [((length (concat pre) + length c)%nat, G)] else []).
Proof.
  intros foldf unicode utf16 pre post c eqclass dot_all f f' G caps Hw.
  exact (dot_atom_step foldf unicode utf16 pre post c Hw eqclass dot_all f f' G caps).
Qed.

(* Non-vacuity: [\w--[k]] under iv in front of the Kelvin sign in "a" U+212A "b": both say no; in front of "a": both yes *)
Example c01_class_atom_example :
  let e := VSub [VEsc false [(48, 57); (65, 90); (95, 95); (97, 122)]; VUnion [VCh 107]] in
  wf_text [[97]; [226; 132; 170]; [98]] /\ vwf e = true /\ sfree e = true /\
  dec [226; 132; 170] = 8490 /\ vmem fold unfold_char true e 8490 = false /\ vmem fold unfold_char true e 97 = true.
Proof. vm_compute. repeat split; repeat constructor. Qed.
