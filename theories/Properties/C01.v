(* C01 — the first match is the one ECMAScript prescribes.
   The chain the development has: the engines return the leftmost-first match of the IR semantics (C02, C04, C05), the
   optimizer keeps it (C03), and the IR semantics of what the parser produces is compared on every run with the
   reference semantics Spec.v on generated syntax trees (end to end, all starts, all captures).  What is *proved* about
   that last link are the single-character atoms, carried all the way from the atom as written to the bytes of the
   text: a literal character (with and without i, Unicode and legacy mode), the dot, and a v-mode class expression
   without \q strings (this one in both directions), the assertions ^ $ \b \B, concatenations of these, and alternations of such concatenations
   (c01_fragment_is_the_reference).  On any well-formed UTF-8 text, with the cursor in front of a character, the
   IR node the parser model emits for the class (Model/ClassSet.v, tied to parse.rs by IR equality on every generated
   expression) and the reference semantics of the class take the same decision on that character and move to
   corresponding positions - the reference from character index i to i+1, the IR from the byte offset of character i
   to that of character i+1.  Every other construct (sequencing, alternation, groups, quantifiers, lookarounds,
   backreferences, anchors, legacy classes, strings in classes) is validated, not proved. *)
From RV Require Import Base.
From RV.Model Require Import Utf8 Indexer CodePointSet Insn Fold IR Unfold ClassSet Optimizer Emit Pike BT Exec.
From RV.Properties Require Import C03.
From RV.Spec Require Import Spec IRSem IRShape.
From RV.Proofs Require Import QuantSim SearchSim PikeTop OptTop OptEmit Agree BTTop Closure ClassSetProofs Utf8Facts Utf8Valid ClassAtom SeqSim.

Theorem c01_class_atom_is_the_reference : forall foldf unicode utf16 pre post c icase e f f' G caps,
  wf_text (pre ++ c :: post) -> vwf e = true -> sfree e = true ->
  let text := concat (pre ++ c :: post) in
  let chars := map dec (pre ++ c :: post) in
  let decision := vmem fold unfold_char icase e (dec c) in
  es_results fold unfold_char chars (S f) (RVClass e icase) Fwd (length pre, caps) =
    Some (if decision then [(S (length pre), caps)] else []) /\
  ir_results (utf8_indexer foldf) unicode utf16 text (S f') (class_node icase e) true (length (concat pre), G) =
    Some (if decision then [((length (concat pre) + length c)%nat, G)] else []).
Proof.
  intros foldf unicode utf16 pre post c icase e f f' G caps Hw Hwf Hsf. cbv zeta. split.
  - exact (class_reference_step unfold_char pre post c icase e Hsf f caps).
  - exact (class_node_step unfold_char unfold_char_spec foldf unicode utf16 pre post c Hw icase e Hwf Hsf f' G).
Qed.

(* the same inside a lookbehind, where both semantics read backwards: from behind the character to in front of it *)
Theorem c01_class_atom_is_the_reference_backwards : forall foldf unicode utf16 pre post c icase e f f' G caps,
  wf_text (pre ++ c :: post) -> vwf e = true -> sfree e = true ->
  let text := concat (pre ++ c :: post) in
  let chars := map dec (pre ++ c :: post) in
  let decision := vmem fold unfold_char icase e (dec c) in
  es_results fold unfold_char chars (S f) (RVClass e icase) Bwd (S (length pre), caps) =
    Some (if decision then [(length pre, caps)] else []) /\
  ir_results (utf8_indexer foldf) unicode utf16 text (S f') (class_node icase e) false ((length (concat pre) + length c)%nat, G) =
    Some (if decision then [(length (concat pre), G)] else []).
Proof.
  intros foldf unicode utf16 pre post c icase e f f' G caps Hw Hwf Hsf. cbv zeta. split.
  - exact (class_reference_step_back unfold_char pre post c icase e Hsf f caps).
  - exact (class_node_step_back unfold_char unfold_char_spec foldf unicode utf16 pre post c Hw icase e Hwf Hsf f' G).
Qed.

(* a literal character, with or without i, in Unicode or legacy mode (canonical form = simple case folding or the
   legacy upper-casing): the node Parser::char_node builds (the character, or the set of its case variants) decides as
   the reference does; eqclass is not used by a literal *)
Theorem c01_char_atom_is_the_reference : forall foldf unicode utf16 pre post c eqclass ch icase n f f' G caps,
  wf_text (pre ++ c :: post) -> char_node icase unicode ch = Ok n ->
  let canon := fun x => fold_code_point x unicode in
  let decision := char_matches canon ch icase (dec c) in
  es_results canon eqclass (map dec (pre ++ c :: post)) (S f) (RChar ch icase) Fwd (length pre, caps) =
    Some (if decision then [(S (length pre), caps)] else []) /\
  ir_results (utf8_indexer foldf) unicode utf16 (concat (pre ++ c :: post)) (S f') n true (length (concat pre), G) =
    Some (if decision then [((length (concat pre) + length c)%nat, G)] else []).
Proof.
  intros foldf unicode utf16 pre post c eqclass ch icase n f f' G caps Hw En.
  exact (char_atom_step foldf unicode utf16 pre post c Hw eqclass ch icase n f f' G caps En).
Qed.

(* the dot, with and without s *)
Theorem c01_dot_atom_is_the_reference : forall foldf unicode utf16 pre post c eqclass dot_all f f' G caps,
  wf_text (pre ++ c :: post) ->
  let canon := fun x => fold_code_point x unicode in
  let decision := dot_all || negb (is_lt (dec c)) in
  es_results canon eqclass (map dec (pre ++ c :: post)) (S f) (RAny dot_all) Fwd (length pre, caps) =
    Some (if decision then [(S (length pre), caps)] else []) /\
  ir_results (utf8_indexer foldf) unicode utf16 (concat (pre ++ c :: post)) (S f') (dot_node dot_all) true (length (concat pre), G) =
    Some (if decision then [((length (concat pre) + length c)%nat, G)] else []).
Proof.
  intros foldf unicode utf16 pre post c eqclass dot_all f f' G caps Hw.
  exact (dot_atom_step foldf unicode utf16 pre post c Hw eqclass dot_all f f' G caps).
Qed.

(* concatenations of such atoms: the reference semantics of r1 r2 ... rk (the right-nested tree the reference is given)
   on the code points and the IR semantics of Cat [n1; ...; nk] on the bytes yield the same list of results, character
   index j on one side being byte offset off(j) on the other - whenever every (ri, ni) is one of the atoms above
   (atom: both decide by the same test).  Any fuel above the length of the sequence gives the reference result, any
   fuel from 2 the IR result: neither depends on it. *)
Theorem c01_sequence_of_atoms_is_the_reference : forall foldf unicode utf16 cs eqclass, wf_text cs ->
  forall rs ns ts, Forall3 (atom foldf unicode utf16 cs eqclass) rs ns ts ->
  forall f f' i caps G, (length rs <= f)%nat -> (i <= length cs)%nat ->
  es_results (fun x => fold_code_point x unicode) eqclass (map dec cs) (S f) (seq_of rs) Fwd (i, caps) = Some (chainD cs ts [(i, caps)]) /\
  ir_results (utf8_indexer foldf) unicode utf16 (concat cs) (S (S f')) (NCat ns) true (off cs i, G) =
    Some (map (fun y => (off cs (fst y), snd y)) (chainD cs ts [(i, G)])).
Proof.
  intros foldf unicode utf16 cs eqclass Hw rs ns ts H3 f f' i caps G Hf Hi.
  exact (sequence_of_atoms foldf unicode utf16 cs eqclass rs ns ts H3 f f' i caps G Hf Hi).
Qed.

(* alternations of such sequences, as the parser builds them (each alternative through make_cat: the atom itself, Empty
   or the flat Cat; the alternatives through make_alt: a balanced Alt tree) against the right-nested tree the reference
   is given: both yield the results of the alternatives in order, positions corresponding through off.
   den r n P kr kn (SeqSim.v) says: from fuel kr the reference results of r from any state are the positions P of the
   state with the captures carried along, and from fuel kn the IR results of n from byte offset off(i) are the same
   positions through off. *)
Theorem c01_alternation_of_sequences_is_the_reference : forall foldf unicode utf16 cs eqclass rss nss tss,
  Forall3 (Forall3 (atom foldf unicode utf16 cs eqclass)) rss nss tss -> rss <> [] ->
  forall fuel, (length nss <= fuel)%nat -> forall m, Forall (fun rs => (length rs <= m)%nat) rss ->
  den foldf unicode utf16 cs eqclass (alt_of (map seq_of rss)) (make_alt fuel (map make_cat nss))
      (catP (map (fun ts i => pchain cs ts [i]) tss)) (m + length rss) (1 + fuel).
Proof. exact alternation_of_terms. Qed.

(* the same with the assertions ^ $ \b \B among the atoms (a general atom denotes a list of positions: one step ahead
   for a character atom, the position itself or nothing for an assertion): the fragment of patterns built from
   literal characters, the dot, string-free v-mode classes and the four assertions by concatenation and alternation *)
Theorem c01_fragment_is_the_reference : forall foldf unicode utf16 cs eqclass, wf_text cs ->
  forall rss nss Pss, Forall3 (Forall3 (gatom foldf unicode utf16 cs eqclass)) rss nss Pss -> rss <> [] ->
  forall fuel, (length nss <= fuel)%nat -> forall m, Forall (fun rs => (length rs <= m)%nat) rss ->
  den foldf unicode utf16 cs eqclass (alt_of (map seq_of rss)) (make_alt fuel (map make_cat nss))
      (catP (map (fun Ps i => gchain Ps [i]) Pss)) (m + length rss) (1 + fuel).
Proof. intros foldf unicode utf16 cs eqclass _. exact (alternation_of_gterms foldf unicode utf16 cs eqclass). Qed.

Theorem c01_general_atoms : forall foldf unicode utf16 cs eqclass, wf_text cs ->
  (forall r n t, atom foldf unicode utf16 cs eqclass r n t -> gatom foldf unicode utf16 cs eqclass r n (posD cs t)) /\
  (forall ml, gatom foldf unicode utf16 cs eqclass (RBol ml) (NAnchor true ml) (assertP (bol_cond cs ml))) /\
  (forall ml, gatom foldf unicode utf16 cs eqclass (REol ml) (NAnchor false ml) (assertP (eol_cond cs ml))) /\
  (forall inv extra, gatom foldf unicode utf16 cs eqclass (RWordB inv extra) (NWordBoundary inv extra) (assertP (wb_cond cs inv extra))).
Proof.
  intros foldf unicode utf16 cs eqclass Hw. split; [|split; [|split]].
  - intros r n t Ha. exact (atom_gatom foldf unicode utf16 cs eqclass r n t Ha).
  - intros ml. exact (bol_is_gatom foldf unicode utf16 cs Hw eqclass ml).
  - intros ml. exact (eol_is_gatom foldf unicode utf16 cs Hw eqclass ml).
  - intros inv extra. exact (wordb_is_gatom foldf unicode utf16 cs Hw eqclass inv extra).
Qed.

(* closure under (?: ... ) nesting: a factor of a term may itself be a group, i.e. anything that denotes positions from
   some fuel on and stays inside the text (gden); terms (make_cat) and alternations (make_alt) of such factors are such
   factors again, with explicit fuel bounds, so the construction iterates to any nesting depth; atoms and assertions
   start it at fuel 0 *)
Theorem c01_fragment_closed_under_grouping : forall foldf unicode utf16 cs eqclass,
  (forall r n P, gatom foldf unicode utf16 cs eqclass r n P -> gden foldf unicode utf16 cs eqclass r n P 0 0) /\
  (forall kr kn rs ns Ps, Forall3 (fun r n P => gden foldf unicode utf16 cs eqclass r n P kr kn) rs ns Ps ->
     gden foldf unicode utf16 cs eqclass (seq_of rs) (make_cat ns) (fun i => gchain Ps [i]) (kr + length rs) (kn + 1)) /\
  (forall kr kn rs ns Ps, Forall3 (fun r n P => gden foldf unicode utf16 cs eqclass r n P kr kn) rs ns Ps -> rs <> [] ->
     forall fuel, (length ns <= fuel)%nat ->
     gden foldf unicode utf16 cs eqclass (alt_of rs) (make_alt fuel ns) (catP Ps) (kr + length rs) (kn + fuel)).
Proof.
  intros foldf unicode utf16 cs eqclass. split; [|split].
  - exact (gatom_gden foldf unicode utf16 cs eqclass).
  - intros kr kn. exact (nested_term foldf unicode utf16 cs eqclass kr kn).
  - intros kr kn. exact (nested_alternation foldf unicode utf16 cs eqclass kr kn).
Qed.

(* lookaheads: (?=r) and (?!r) over a factor of the fragment are zero-width factors of the fragment again (the position is
   kept when the body has / has no result; the captures are carried along unchanged), with one more unit of fuel on each
   side; together with the closure under grouping the fragment is closed under (?:...), (?=...) and (?!...) to any depth *)
Theorem c01_fragment_closed_under_lookahead : forall foldf unicode utf16 cs eqclass kr kn r n P neg sg eg,
  gden foldf unicode utf16 cs eqclass r n P kr kn ->
  gden foldf unicode utf16 cs eqclass (RLook true neg r) (NLookaround neg false sg eg n) (lookP neg P) (S kr) (S kn).
Proof. exact lookahead_gden. Qed.

(* quantifiers over the fragment.  r? / r?? : the optional quantifier over a factor of the fragment (reference:
   RepeatMatcher with min 0, max 1 and the empty check; code: the Loop node of the parser with its iteration counter,
   entry position and empty-iteration rejection) is a factor of the fragment again *)
Theorem c01_fragment_closed_under_optional : forall foldf unicode utf16 cs eqclass, wf_text cs ->
  forall kr kn r n P g gs egs, gden foldf unicode utf16 cs eqclass r n P kr kn ->
  gden foldf unicode utf16 cs eqclass (RQuant r 0 (Some 1%nat) g gs gs) (NLoop n 0%N (Some 1%N) g egs egs) (optP g P) (S kr) (S (S kn)).
Proof. intros foldf unicode utf16 cs eqclass Hw. exact (optional_gden foldf unicode utf16 cs Hw eqclass). Qed.

(* r* / r*? : the star over a factor whose results never move left (monoP; every builder of the fragment keeps it, next
   theorem) is a factor of the fragment again, greedy and lazy: both sides compute starP, by induction on the distance
   to the end of the text; the fuel bounds grow by the length of the text; the text is shorter than usize::MAX *)
Theorem c01_fragment_closed_under_star : forall foldf unicode utf16 cs eqclass, wf_text cs -> (N.of_nat (S (S (length cs))) < USIZE_MAX)%N ->
  forall kr kn r n P g gs egs, gden foldf unicode utf16 cs eqclass r n P kr kn -> monoP cs P ->
  gden foldf unicode utf16 cs eqclass (RQuant r 0 None g gs gs) (NLoop n 0%N None g egs egs) (starP cs g P)
       (kr + S (length cs)) (kn + S (S (length cs))) /\ monoP cs (starP cs g P).
Proof. intros foldf unicode utf16 cs eqclass Hw Hs. exact (star_gden foldf unicode utf16 cs Hw eqclass Hs). Qed.

(* r+ / r+? : one mandatory iteration, on which the empty-iteration rejection does not apply, then the star *)
Theorem c01_fragment_closed_under_plus : forall foldf unicode utf16 cs eqclass, wf_text cs -> (N.of_nat (S (S (length cs))) < USIZE_MAX)%N ->
  forall kr kn r n P g gs egs, gden foldf unicode utf16 cs eqclass r n P kr kn -> monoP cs P ->
  gden foldf unicode utf16 cs eqclass (RQuant r 1 None g gs gs) (NLoop n 1%N None g egs egs) (plusP cs g P)
       (kr + S (S (length cs))) (kn + S (S (S (length cs)))) /\ monoP cs (plusP cs g P).
Proof. intros foldf unicode utf16 cs eqclass Hw Hs. exact (plus_gden foldf unicode utf16 cs Hw eqclass Hs). Qed.

(* the general quantifier r{mn,mx} / r{mn,mx}? (mx = None: unbounded; mn <= mx as the parser requires): both sides compute
   qP, the recursion of the reference RepeatMatcher; the Loop node's counter k stands for (mn - k, mx - k); at most mn
   iterations make no progress, every later one does *)
Theorem c01_fragment_closed_under_quantifiers : forall foldf unicode utf16 cs eqclass, wf_text cs ->
  forall kr kn r n P g gs egs mn mx, gden foldf unicode utf16 cs eqclass r n P kr kn -> monoP cs P ->
  (forall M, mx = Some M -> (mn <= M)%nat) -> (N.of_nat (mn + S (S (length cs))) < USIZE_MAX)%N ->
  gden foldf unicode utf16 cs eqclass (RQuant r mn mx g gs gs) (NLoop n (N.of_nat mn) (option_map N.of_nat mx) g egs egs) (qP cs g P mn mx)
       (kr + mn + S (length cs)) (kn + mn + S (S (S (length cs)))) /\ monoP cs (qP cs g P mn mx).
Proof.
  intros foldf unicode utf16 cs eqclass Hw kr kn r n P g gs egs mn mx Hd Hm Hv Hs.
  assert (Hs' : (N.of_nat (S (S (length cs))) < USIZE_MAX)%N) by lia.
  exact (quant_gden foldf unicode utf16 cs Hw eqclass Hs' kr kn r n P g gs egs mn mx Hd Hm Hv Hs).
Qed.

Example c01_quantifier_example : let cs := [[97]; [97]; [97]; [98]]%N in
  es_results (fun x => fold_code_point x true) unfold_char (map dec cs) 12 (RQuant (RChar 97 false) 1 (Some 2%nat) false 0 0) Fwd (0%nat, []) = Some [(1%nat, []); (2%nat, [])] /\
  ir_results (utf8_indexer fold_code_point) true false (concat cs) 12 (NLoop (NChar 97) 1%N (Some 2%N) false 0 0) true (0%nat, []) = Some [(1%nat, []); (2%nat, [])] /\
  qP cs false (posD cs (fun d => (d =? 97)%N)) 1 (Some 2%nat) 0 = [1; 2]%nat /\ qP cs true (posD cs (fun d => (d =? 97)%N)) 2 None 0 = [3; 2]%nat.
Proof. vm_compute. repeat split. Qed.

Theorem c01_fragment_is_monotone : forall cs,
  (forall t, monoP cs (posD cs t)) /\ (forall cond, monoP cs (assertP cond)) /\ (forall neg P, monoP cs (lookP neg P)) /\
  (forall g P, monoP cs P -> monoP cs (optP g P)) /\ (forall Ps, Forall (monoP cs) Ps -> monoP cs (catP Ps)) /\
  (forall Ps, Forall (monoP cs) Ps -> monoP cs (fun i => gchain Ps [i])).
Proof.
  intros cs. split; [|split; [|split; [|split; [|split]]]].
  - intros t. apply posD_mono.
  - intros cond. apply assertP_mono.
  - intros neg P. apply lookP_mono.
  - intros g P H. apply optP_mono. exact H.
  - intros Ps H. apply catP_mono. exact H.
  - intros Ps H. apply term_mono. exact H.
Qed.

(* the premises are met and the conclusion is the computed one: a* and a*? on "aab", both sides *)
Example c01_star_example : let cs := [[97]; [97]; [98]]%N in
  es_results (fun x => fold_code_point x true) unfold_char (map dec cs) 9 (RQuant (RChar 97 false) 0 None true 0 0) Fwd (0%nat, []) = Some [(2%nat, []); (1%nat, []); (0%nat, [])] /\
  ir_results (utf8_indexer fold_code_point) true false (concat cs) 9 (NLoop (NChar 97) 0%N None true 0 0) true (0%nat, []) = Some [(2%nat, []); (1%nat, []); (0%nat, [])] /\
  starP cs true (posD cs (fun d => (d =? 97)%N)) 0 = [2; 1; 0]%nat /\ starP cs false (posD cs (fun d => (d =? 97)%N)) 0 = [0; 1; 2]%nat.
Proof. vm_compute. repeat split. Qed.

(* from result lists to the first match, as C01 states it: for a pattern r of the fragment whose IR, as the parser
   returns it, is Cat [x; Goal], the leftmost search of the reference (code point by code point from the start) and the
   leftmost search over the IR the search runs on (ir_top: one UTF-8 sequence at a time) return the same match - no
   match on both sides, or start and end at corresponding offsets -, from every start, given enough tries and fuel;
   the match starts at or after the start, ends at a position the denotation gives, and no capture is set *)
Theorem c01_first_match_of_fragment : forall foldf unicode utf16 cs eqclass, wf_text cs ->
  forall r x P kr kn, gden foldf unicode utf16 cs eqclass r x P kr kn ->
  forall ng f f', (kr <= f)%nat -> (S kn <= f')%nat ->
  forall tries i, (i <= length cs)%nat -> (length cs - i < tries)%nat ->
  proj_es cs (search (fun c => fold_code_point c unicode) eqclass (map dec cs) (S f) r ng i tries) =
  proj_ir (ir_search (utf8_indexer foldf) unicode utf16 (concat cs) (S f') (ir_top (NCat [x; NGoal])) ng tries (off cs i)) /\
  (forall s e c, search (fun c => fold_code_point c unicode) eqclass (map dec cs) (S f) r ng i tries = Some (Some (s, e, c)) ->
     c = repeat None ng /\ In e (P s) /\ (i <= s)%nat).
Proof.
  intros foldf unicode utf16 cs eqclass Hw r x P kr kn Hd ng f f' Hf Hf' tries i Hi Ht.
  exact (first_match_of_fragment foldf unicode utf16 cs Hw eqclass r _ P kr (S kn) (gden_top foldf unicode utf16 cs eqclass r x P kr kn Hd) ng f f' Hf Hf' tries i Hi Ht).
Qed.

(* the theorems compose: the pattern a*b, as the parser builds it, from the atoms through the star and the term to the
   first match - on every well-formed text (no evaluation involved: the hypotheses of each step are met by the previous) *)
Example c01_composed_a_star_b : forall foldf utf16 cs, wf_text cs -> (N.of_nat (S (S (length cs))) < USIZE_MAX)%N ->
  exists P kr kn,
    gden foldf false utf16 cs unfold_char (RSeq (RQuant (RChar 97 false) 0 None true 0 0) (RChar 98 false))
         (NCat [NLoop (NChar 97) 0%N None true 0 0; NChar 98]) P kr kn /\
    forall ng tries i, (i <= length cs)%nat -> (length cs - i < tries)%nat ->
      proj_es cs (search (fun c => fold_code_point c false) unfold_char (map dec cs) (S kr) (RSeq (RQuant (RChar 97 false) 0 None true 0 0) (RChar 98 false)) ng i tries) =
      proj_ir (ir_search (utf8_indexer foldf) false utf16 (concat cs) (S (S kn)) (ir_top (NCat [NCat [NLoop (NChar 97) 0%N None true 0 0; NChar 98]; NGoal])) ng tries (off cs i)).
Proof.
  intros foldf utf16 cs Hw Hs.
  pose proof (char_is_atom foldf false utf16 cs Hw unfold_char 97 false (NChar 97) eq_refl) as Ha.
  pose proof (char_is_atom foldf false utf16 cs Hw unfold_char 98 false (NChar 98) eq_refl) as Hb.
  apply (atom_gatom foldf false utf16 cs unfold_char) in Ha, Hb. apply (gatom_gden foldf false utf16 cs unfold_char) in Ha, Hb.
  destruct (star_gden foldf false utf16 cs Hw unfold_char Hs 0 0 _ _ _ true 0 0 Ha (posD_mono cs _)) as [Hstar _].
  pose proof (gden_weaken foldf false utf16 cs unfold_char _ _ _ 0 0 (0 + S (length cs)) (0 + S (S (length cs))) ltac:(lia) ltac:(lia) Hb) as Hb'.
  eassert (H3 : Forall3 (fun r n P => gden foldf false utf16 cs unfold_char r n P (0 + S (length cs))%nat (0 + S (S (length cs)))%nat) [_; _] [_; _] [_; _]).
  { constructor; [exact Hstar|constructor; [exact Hb'|constructor]]. }
  pose proof (nested_term foldf false utf16 cs unfold_char _ _ _ _ _ H3) as Ht.
  cbn [seq_of make_cat length] in Ht.
  eexists _, _, _. split; [exact Ht|]. intros ng tries i Hi Htr.
  apply (c01_first_match_of_fragment foldf false utf16 cs unfold_char Hw _ _ _ _ _ Ht ng _ _ (le_n _) (le_n _) tries i Hi Htr).
Qed.

(* down to the executor: for a pattern of the fragment, the PikeVM model, running the program emitted for the IR the parser
   returns - and the program emitted for the optimized IR - answers with the match the reference search prescribes
   (composition with C03: optimizer soundness on parser-shaped IR, emitter + PikeVM correctness; qok / parsed / ir_wf /
   top_shape are the decidable shape conditions the driver evaluates on every IR) *)
Theorem c01_fragment_down_to_the_pikevm :
  forall fold h cs utf16 unicode ml eqclass r x P kr kn n' body' prog names prog' names',
  utf8_chars (length h) h = Some cs -> short h ->
  gden fold unicode utf16 cs eqclass r x P kr kn ->
  optimize utf16 (NCat [x; NGoal]) = Ok n' -> qok (NCat [x; NGoal]) = true -> parsed (NCat [x; NGoal]) = true -> top_shape n' body' ->
  emit utf16 unicode ml (NCat [x; NGoal]) = Ok (prog, names) -> emit utf16 unicode ml n' = Ok (prog', names') ->
  ir_wf (NCat [x]) = true -> ir_wf (NCat body') = true ->
  forall tries i, (i <= length cs)%nat -> (length cs - i < tries)%nat ->
  exists res,
    proj_es cs (search (fun c => fold_code_point c unicode) eqclass (map dec cs) (S kr) r (p_groups prog) i tries) = proj_ir (Some res) /\
    exists f0 k k', forall pfuel m budget, (f0 <= pfuel)%nat -> (m + k <= budget)%N -> (m + k' <= budget)%N ->
      pk_search (utf8_indexer fold) prog h budget pfuel tries (pk_init_state prog (off cs i)) m = (result_of (utf8_indexer fold) h res, (m + k)%N) /\
      pk_search (utf8_indexer fold) prog' h budget pfuel tries (pk_init_state prog' (off cs i)) m = (result_of (utf8_indexer fold) h res, (m + k')%N).
Proof.
  intros fold h cs utf16 unicode ml eqclass r x P kr kn n' body' prog names prog' names' Hch Hsh Hd Eo Hq Hp Ht' Ee Ee' Hwf Hwf' tries i Hi Htr.
  destruct (utf8_chars_ok _ _ _ Hch) as [Hw Hcat].
  pose proof (gden_top fold unicode utf16 cs eqclass r x P kr kn Hd) as Hd'.
  destruct (first_match_of_fragment fold unicode utf16 cs Hw eqclass r _ P kr (S kn) Hd' (p_groups prog) kr (S kn) (le_n _) (le_n _) tries i Hi Htr) as [Epr _].
  pose proof (search_total fold unicode utf16 cs eqclass r _ P kr (S kn) Hd' (p_groups prog) kr (le_n _) tries i) as Hne.
  change (ir_top (NCat [x; NGoal])) with (NCat [x]) in Epr. rewrite Hcat in Epr.
  destruct (ir_search (utf8_indexer fold) unicode utf16 h (S (S kn)) (NCat [x]) (p_groups prog) tries (off cs i)) as [res|] eqn:Es.
  - exists res. split; [exact Epr|].
    assert (Hts : top_shape (NCat [x; NGoal]) [x]) by (left; reflexivity).
    exact (c03_pikevm_same_answer_after_optimize fold h cs utf16 unicode ml (NCat [x; NGoal]) n' [x] body' prog names prog' names' Hch Hsh Eo Hq Hp Hts Ht' Ee Ee' Hwf Hwf'
             (S (S kn)) tries (off cs i) res (bnd_off cs i) Es).
  - exfalso. destruct (search (fun c => fold_code_point c unicode) eqclass (map dec cs) (S kr) r (p_groups prog) i tries) as [[[[s e] c]|]|]; [discriminate Epr|discriminate Epr|apply Hne; reflexivity].
Qed.

(* and to the backtracking executor (without prefilter; C04 is about the prefilter): on the program emitted for the
   optimized IR both executor models answer with the match the reference search prescribes *)
Theorem c01_fragment_down_to_both_executors :
  forall fold h cs utf16 unicode ml eqclass r x P kr kn n' body' prog names prog' names',
  utf8_chars (length h) h = Some cs -> short h ->
  gden fold unicode utf16 cs eqclass r x P kr kn ->
  optimize utf16 (NCat [x; NGoal]) = Ok n' -> qok (NCat [x; NGoal]) = true -> parsed (NCat [x; NGoal]) = true -> top_shape n' body' ->
  emit utf16 unicode ml (NCat [x; NGoal]) = Ok (prog, names) -> emit utf16 unicode ml n' = Ok (prog', names') ->
  bt_wf (p_groups prog') (NCat body') = true ->
  forall tries i, (i <= length cs)%nat -> (length cs - i < tries)%nat -> walk_ok (utf8_indexer fold) h tries (off cs i) = true ->
  exists res,
    proj_es cs (search (fun c => fold_code_point c unicode) eqclass (map dec cs) (S kr) r (p_groups prog) i tries) = proj_ir (Some res) /\
    exists f0 kb kp, forall pfuel nb np budget, (f0 <= pfuel)%nat -> (nb + kb <= budget)%N -> (np + kp <= budget)%N ->
      xobs (fst (bt_search (utf8_indexer fold) prog' h budget pfuel (fun _ => true) tries (bt_init prog') (off cs i) nb)) = result_of (utf8_indexer fold) h res /\
      fst (pk_search (utf8_indexer fold) prog' h budget pfuel tries (pk_init_state prog' (off cs i)) np) = result_of (utf8_indexer fold) h res.
Proof.
  intros fold h cs utf16 unicode ml eqclass r x P kr kn n' body' prog names prog' names' Hch Hsh Hd Eo Hq Hp Ht' Ee Ee' Hwf' tries i Hi Htr Hwalk.
  destruct (utf8_chars_ok _ _ _ Hch) as [Hw Hcat].
  pose proof (gden_top fold unicode utf16 cs eqclass r x P kr kn Hd) as Hd'.
  destruct (first_match_of_fragment fold unicode utf16 cs Hw eqclass r _ P kr (S kn) Hd' (p_groups prog) kr (S kn) (le_n _) (le_n _) tries i Hi Htr) as [Epr _].
  pose proof (search_total fold unicode utf16 cs eqclass r _ P kr (S kn) Hd' (p_groups prog) kr (le_n _) tries i) as Hne.
  rewrite Hcat in Epr.
  destruct (ir_search (utf8_indexer fold) unicode utf16 h (S (S kn)) (ir_top (NCat [x; NGoal])) (p_groups prog) tries (off cs i)) as [res|] eqn:Es.
  - exists res. split; [exact Epr|].
    destruct (optimize_invariants utf16 _ n' Eo Hq) as [Hq' Hng].
    assert (Hg : p_groups prog' = p_groups prog).
    { rewrite (emit_program_groups utf16 unicode ml _ prog names Hq Ee), (emit_program_groups utf16 unicode ml n' prog' names' Hq' Ee'). exact Hng. }
    destruct (c03_optimize_sound_utf8_text_all_patterns fold unicode utf16 h cs Hch Hsh utf16 _ n' Eo Hq Hp) as [K HK].
    pose proof (HK _ (p_groups prog) tries (off cs i) res (bnd_off cs i) Es) as Es'.
    rewrite (top_shape_ir_top n' body' Ht') in Es'. rewrite <- Hg in Es'.
    destruct (engines_agree_utf8 fold h utf16 unicode ml n' body' prog' names' _ tries (off cs i) res Hwalk Ht' Ee' Hwf' Es') as (f0 & kb & kp & H).
    exists f0, kb, kp. intros pfuel nb np budget Hf Hb Hk. destruct (H pfuel nb np budget Hf Hb Hk) as [H1 H2]. split; [rewrite H1; exact H2|exact H2].
  - exfalso. destruct (search (fun c => fold_code_point c unicode) eqclass (map dec cs) (S kr) r (p_groups prog) i tries) as [[[[s e] c]|]|]; [discriminate Epr|discriminate Epr|apply Hne; reflexivity].
Qed.

(* the three kinds of atoms *)
Theorem c01_atoms : forall foldf utf16 cs, wf_text cs ->
  (forall unicode eqclass ch icase n, char_node icase unicode ch = Ok n ->
     atom foldf unicode utf16 cs eqclass (RChar ch icase) n (char_matches (fun x => fold_code_point x unicode) ch icase)) /\
  (forall unicode eqclass dot_all, atom foldf unicode utf16 cs eqclass (RAny dot_all) (dot_node dot_all) (fun d => dot_all || negb (is_lt d))) /\
  (forall icase e, vwf e = true -> sfree e = true ->
     atom foldf true utf16 cs unfold_char (RVClass e icase) (class_node icase e) (vmem fold unfold_char icase e)).
Proof.
  intros foldf utf16 cs Hw. split; [|split].
  - intros unicode eqclass ch icase n En. exact (char_is_atom foldf unicode utf16 cs Hw eqclass ch icase n En).
  - intros unicode eqclass dot_all. exact (dot_is_atom foldf unicode utf16 cs Hw eqclass dot_all).
  - intros icase e Hwf Hsf. exact (class_is_atom foldf utf16 cs Hw icase e Hwf Hsf).
Qed.

(* Non-vacuity: [\w--[k]] under iv in front of the Kelvin sign in "a" U+212A "b": both say no; in front of "a": both yes *)
Example c01_class_atom_example :
  let e := VSub [VEsc false [(48, 57); (65, 90); (95, 95); (97, 122)]; VUnion [VCh 107]] in
  wf_text [[97]; [226; 132; 170]; [98]] /\ vwf e = true /\ sfree e = true /\
  dec [226; 132; 170] = 8490 /\ vmem fold unfold_char true e 8490 = false /\ vmem fold unfold_char true e 97 = true.
Proof. vm_compute. repeat split; repeat constructor. Qed.

(* Non-vacuity of the sequence theorem: /k./iu on the Kelvin sign followed by "a" (bytes E2 84 AA 61): the literal becomes
   the set of its three case variants, the reference ends at character index 2, the IR at byte offset 4 *)
Example c01_sequence_example :
  let cs := [[226; 132; 170]; [97]] in
  wf_text cs /\ char_node true true 107 = Ok (NCharSet [75; 107; 8490]) /\
  es_results (fun x => fold_code_point x true) unfold_char (map dec cs) 3 (seq_of [RChar 107 true; RAny false]) Fwd (0%nat, []) = Some [(2%nat, [])] /\
  ir_results (utf8_indexer fold_code_point) true false (concat cs) 2 (NCat [NCharSet [75; 107; 8490]; NMatchAnyExceptLT]) true (0%nat, []) = Some [(4%nat, [])] /\
  off cs 2 = 4%nat.
Proof. vm_compute. repeat split; repeat constructor. Qed.
