(* C17 — replace/replace_all are splice-and-expand over the match sequence. *)
From RV Require Import Base.
From RV.Model Require Import Utf8 Api.
From RV.Proofs Require Import ApiProofs.

(* For a match sequence as the iterator yields it (ordered, non-overlapping, inside the text),
   replace_all_with never panics and returns the unmatched slices, byte for byte, interleaved
   with the replacements. *)
Theorem c17_replace_all_splice : forall text ms f r,
  ms_ok (length text) 0 ms -> (forall m, In m ms -> f m = AOk (r m)) ->
  replace_all_with text ms f = AOk (splice text ms r 0).
Proof. intros; apply replace_all_go_splice; assumption. Qed.

(* Replacing every match by its own text is the identity. *)
Theorem c17_replace_identity : forall text ms,
  ms_ok (length text) 0 ms ->
  replace_all_with text ms (fun m => AOk (text_slice text (am_range m))) = AOk text.
Proof.
  intros text ms H. unfold replace_all_with.
  rewrite (replace_all_go_splice text ms _ (fun m => text_slice text (am_range m)) 0 H) by reflexivity.
  rewrite splice_identity by exact H. rewrite slice_full. reflexivity.
Qed.

(* A haystack without a match is returned unchanged by all four functions. *)
Theorem c17_replace_nomatch : forall text t f,
  replace_all text [] t = AOk text /\ replace text [] t = AOk text /\
  replace_all_with text [] f = AOk text /\ replace_with text [] f = AOk text.
Proof.
  intros. unfold replace_all, replace, replace_all_with, replace_with. simpl.
  rewrite checked_slice_ok by lia. rewrite slice_full. repeat split.
Qed.

(* Template expansion, token by token, for every template. *)
Theorem c17_expand_literal_char : forall m text c t, c <> 36 ->
  expand_replacement m text (c :: t) = app_out (utf8_encode c) (expand_replacement m text t).
Proof. exact expand_lit. Qed.

Theorem c17_expand_dollar_dollar : forall m text t,
  expand_replacement m text (36 :: 36 :: t) = app_out [36] (expand_replacement m text t).
Proof. exact expand_dollar_dollar. Qed.

Theorem c17_expand_group : forall m text d t, is_digit d = true ->
  expand_replacement m text (36 :: d :: t) =
  let '(num, rest) := parse_group_num 0 (d :: t) in
  app_out (match group m (N.to_nat num) with Some r => text_slice text r | None => [] end)
          (expand_replacement m text rest).
Proof. exact expand_group. Qed.

Theorem c17_expand_named : forall m text t name rest, split_brace t = Some (name, rest) ->
  expand_replacement m text (36 :: 123 :: t) =
  match named_group m (encode_str name) with
  | APanic => APanic
  | AOk (Some r) => app_out (text_slice text r) (expand_replacement m text rest)
  | AOk None => expand_replacement m text rest
  end.
Proof. exact expand_named. Qed.

Theorem c17_expand_unterminated : forall m text t, split_brace t = None ->
  expand_replacement m text (36 :: 123 :: t) = AOk ([36; 123] ++ encode_str t).
Proof. exact expand_unterminated. Qed.

Theorem c17_expand_dollar_other : forall m text c t, c <> 36 -> is_digit c = false -> c <> 123 ->
  expand_replacement m text (36 :: c :: t) = app_out [36] (expand_replacement m text (c :: t)).
Proof. exact expand_dollar_other. Qed.

Theorem c17_expand_no_dollar : forall m text t,
  forallb (fun c => negb (c =? 36)) t = true -> expand_replacement m text t = AOk (encode_str t).
Proof. intros. apply expand_no_dollar; [lia | assumption]. Qed.

(* Non-vacuity: text "xay", one match "a" at [1,2) with capture 1 = [1,2); template "[$1$$]". *)
Example c17_example :
  let text := [120; 97; 121] in
  let m := mkAM (1, 2)%nat [Some (1, 2)%nat] [] in
  ms_ok (length text) 0 [m] /\
  replace_all text [m] [91; 36; 49; 36; 36; 93] = AOk [120; 91; 97; 36; 93; 121].
Proof. simpl. split; [lia | reflexivity]. Qed.
