(* RefCanon.v — ECMAScript Canonicalize from the *reference* data (V8/ICU via ref/gen_ref.js), used by the
   reference semantics.  Unicode mode: representative of the simple-case-folding class; legacy mode:
   the toUpperCase rule of §22.2.2.7.3. *)
From RV Require Import Base.
From RV.Ref Require Import RefFold.

Definition ref_class (c : N) : option (list N) := find (fun cl => existsb (N.eqb c) cl) ref_scf_classes.

Fixpoint assocN (c : N) (l : list (N * N)) : option N :=
  match l with [] => None | (a, b) :: t => if a =? c then Some b else assocN c t end.

Definition canon_ref (unicode : bool) (c : N) : N :=
  if unicode then match ref_class c with Some (h :: _) => h | _ => c end
  else match assocN c ref_legacy_canon with Some u => u | None => c end.

Definition eqclass_ref (unicode : bool) (c : N) : list N :=
  if unicode then match ref_class c with Some cl => cl | None => [c] end
  else let u := canon_ref false c in
       u :: map fst (filter (fun p => snd p =? u) ref_legacy_canon).
