(* Insn.v — model of src/insn.rs (bytecode, CompiledRegex) and the per-instruction helpers shared by
   both interpreters (src/scm.rs matchers, src/bytesearch.rs set probes, matchers::backref and backref_icase). *)
From RV Require Import Base.
From RV.Model Require Import Utf8 Indexer.

Inductive insn :=
| Goal
| Char (c : N)
| StartOfLine (multiline : bool)
| EndOfLine (multiline : bool)
| MatchAny
| MatchAnyExceptLT
| EnterLoop (lid : nat) (min max : N) (greedy : bool) (exit : nat)
| LoopAgain (begin : nat)
| Loop1CharBody (min max : N) (greedy : bool)
| Jump (target : nat)
| Alt (secondary : nat)
| BeginCG (g : nat)
| EndCG (g : nat)
| ResetCG (g : nat)
| BackRef (g : nat) (icase : bool)
| Bracket (idx : nat)
| AsciiBracket (bitmap : list N)          (* 16 bytes *)
| Lookahead (negate : bool) (sg eg : nat) (cont : nat)
| Lookbehind (negate : bool) (sg eg : nat) (cont : nat)
| WordBoundary (invert : bool)
| WordBoundaryUnicodeICase (invert : bool)
| CharSet (cs : list N)                   (* 4 entries, padded with the first *)
| ByteSet (bs : list N)                   (* ByteSet2/3/4 by length *)
| ByteSeq (bs : list N)                   (* ByteSeq1..16 by length *)
| JustFail.

Record bracket := mkBracket { br_invert : bool; br_ivs : list (N * N) }.

Inductive startpred :=
| SPArbitrary
| SPByteSet (bs : list N)                 (* ByteSet1/2/3 by length *)
| SPByteSeq (needle : list N)
| SPByteBracket (members : list N)        (* the bytes contained in the bitmap, ascending *)
| SPStartAnchored.

Record program := mkProgram {
  p_insns : list insn;
  p_brackets : list bracket;
  p_loops : nat;
  p_groups : nat;
  p_start_pred : startpred;
  p_unicode : bool;
}.

Record loopdata := mkLD { ld_iters : N; ld_entry : nat }.
Record groupdata := mkGD { gd_start : option nat; gd_end : option nat }.
Definition gd_empty : groupdata := mkGD None None.
Definition gd_range (g : groupdata) : option (nat * nat) :=
  match gd_start g, gd_end g with Some s, Some e => Some (s, e) | _, _ => None end.

(* codepointset::interval_contains.  The Rust code binary-searches; on the sorted disjoint lists the
   CodePointSet invariant guarantees this is membership in some interval (C12 proves the invariant). *)
Definition ivs_contains (ivs : list (N * N)) (c : N) : bool :=
  existsb (fun iv => (fst iv <=? c) && (c <=? snd iv)) ivs.

(* CharProperties::bracket *)
Definition bracket_matches (b : bracket) (c : N) : bool :=
  if ivs_contains (br_ivs b) c then negb (br_invert b) else br_invert b.

(* bytesearch::charset_contains, SmallArraySet::contains *)
Definition list_contains (l : list N) (c : N) : bool := existsb (N.eqb c) l.

(* AsciiBitmap::contains: bit (val & 7) of byte (val & 0x7F) >> 3, masked out when val >= 128. *)
Definition ascii_bitmap_contains (bm : list N) (v : N) : bool :=
  if 128 <=? v then false
  else N.testbit (nth (N.to_nat (N.shiftr v 3)) bm 0) (N.land v 7).

Section Match1.
  Variable ix : indexer.
  Variable prog : program.

  (* A single-element test after cursor::next. *)
  Definition next_if (fwd : bool) (h : hay) (p : nat) (test : N -> bool) : R (option nat) :=
    do r <- cnext ix fwd h p;
    Ok (match r with Some (c, p') => if test c then Some p' else None | None => None end).

  Definition byte_if (fwd : bool) (h : hay) (p : nat) (test : N -> bool) : R (option nat) :=
    do r <- next_byte fwd h p;
    Ok (match r with Some (b, p') => if test b then Some p' else None | None => None end).

  (* The single-character instructions other than Char, as executed by both interpreters.
     None = not a single-character instruction. *)
  Definition match1 (i : insn) (fwd : bool) (h : hay) (p : nat) : option (R (option nat)) :=
    match i with
    | CharSet cs => Some (next_if fwd h p (list_contains cs))
    | ByteSet bs => Some (byte_if fwd h p (list_contains bs))
    | ByteSeq bs => Some (match_bytes fwd h p bs)
    | AsciiBracket bm => Some (byte_if fwd h p (ascii_bitmap_contains bm))
    | Bracket idx =>
        Some (match nth_error (p_brackets prog) idx with
              | Some b => next_if fwd h p (bracket_matches b)
              | None => Err Panic   (* re.brackets[idx] is a checked index *)
              end)
    | MatchAny => Some (next_if fwd h p (fun _ => true))
    | MatchAnyExceptLT => Some (next_if fwd h p (fun c => negb (is_line_terminator c)))
    | _ => None
    end.

  (* Insn::Char in the backtracker: try_from first, then scm::Char. *)
  Definition char_bt (c : N) (fwd : bool) (h : hay) (p : nat) : R (option nat) :=
    if ix_elem_of_u32 ix c then next_if fwd h p (N.eqb c) else Ok None.

  (* Insn::Char in the PikeVM: next, then compare as u32. *)
  Definition char_pike (c : N) (fwd : bool) (h : hay) (p : nat) : R (option nat) :=
    next_if fwd h p (N.eqb c).

  (* matchers::backref_icase *)
  Fixpoint backref_icase_go (fuel : nat) (fwd : bool) (sub : hay) (rp : nat) (h : hay) (p : nat)
    : R (option nat) :=
    match fuel with
    | O => Err Unreach
    | S f =>
      do r1 <- cnext ix fwd sub rp;
      match r1 with
      | None => Ok (Some p)
      | Some (c1, rp') =>
        do r2 <- cnext ix fwd h p;
        match r2 with
        | None => Ok None
        | Some (c2, p') =>
          if fold_equals ix (p_unicode prog) c1 c2 then backref_icase_go f fwd sub rp' h p'
          else Ok None
        end
      end
    end.

  Definition backref_match (icase fwd : bool) (h : hay) (p rs re : nat) : R (option nat) :=
    if icase then
      if (re <? rs)%nat then Err Oob else if (length h <? re)%nat then Err Oob else
      let sub := slice h rs re in
      backref_icase_go (S (length sub)) fwd sub (if fwd then O else length sub) h p
    else subrange_eq fwd h p rs re.

  Definition word_boundary (icase_unicode : bool) (h : hay) (p : nat) : R bool :=
    let wc c := if icase_unicode
                then is_word_char c || (c =? 383) || (c =? 8490)   (* nonascii_folds_to_ascii_word_char *)
                else is_word_char c in
    do l <- peek_left ix h p; do r <- peek_right ix h p;
    let lw := match l with Some c => wc c | None => false end in
    let rw := match r with Some c => wc c | None => false end in
    Ok (negb (Bool.eqb lw rw)).

  Definition start_of_line (ml : bool) (h : hay) (p : nat) : R bool :=
    do l <- peek_left ix h p;
    Ok (match l with None => true | Some c => ml && is_line_terminator c end).
  Definition end_of_line (ml : bool) (h : hay) (p : nat) : R bool :=
    do r <- peek_right ix h p;
    Ok (match r with None => true | Some c => ml && is_line_terminator c end).
End Match1.
