(* Exec.v — model of the two executors' next_match (classicalbacktrack.rs BacktrackExecutor,
   pikevm.rs PikeVMExecutor), the byte searchers of bytesearch.rs as used by find_bytes (modelled by
   their specification: first index >= pos that satisfies the search), and exec.rs Matches. *)
From RV Require Import Base.
From RV.Model Require Import Utf8 Indexer Insn Pike BT.

Record mmatch := mkMatch { m_start : nat; m_end : nat; m_caps : list (option (nat * nat)) }.

(* First index i in [p, length h] (searching at most [fuel] positions) at which [test (skipn i h)] holds. *)
Fixpoint find_from (test : list N -> bool) (fuel : nat) (h : hay) (p : nat) : option nat :=
  match fuel with
  | O => None
  | S f => if (length h <? p)%nat then None
           else if test (skipn p h) then Some p else find_from test f h (S p)
  end.

Definition is_prefix (needle l : list N) : bool := bytes_eqb needle (firstn (length needle) l).

(* ByteSearcher::find_in for each StartPredicate kind; None for StartAnchored (not a search). *)
Definition searcher_test (sp : startpred) : option (list N -> bool) :=
  match sp with
  | SPArbitrary => Some (fun _ => true)                          (* EmptyString: Some(0) *)
  | SPByteSet bs => Some (fun l => match l with b :: _ => list_contains bs b | [] => false end)
  | SPByteSeq needle => Some (is_prefix needle)
  | SPByteBracket ms => Some (fun l => match l with b :: _ => list_contains ms b | [] => false end)
  | SPStartAnchored => None
  end.

(* Indexer::find_bytes *)
Definition find_bytes (test : list N -> bool) (h : hay) (p : nat) : R (option nat) :=
  if (length h <? p)%nat then Err Oob else Ok (find_from test (S (length h)) h p).

Inductive xres (S : Type) :=
| XMatch (m : mmatch) (next_start : option nat) (st : S)
| XNone (st : S)
| XError (e : err)
| XBudget.
Arguments XMatch {S} m next_start st.
Arguments XNone {S} st.
Arguments XError {S} e.
Arguments XBudget {S}.

Section Exec.
  Variable ix : indexer.
  Variable prog : program.
  Variable h : hay.
  Variable budget : N.
  Variable fuel : nat.

  Definition caps_of (groups : list groupdata) : list (option (nat * nat)) := map gd_range groups.

  (* after a match: next start is the end, or one character further when the match was empty *)
  Definition next_start_after (pos e : nat) : R (option nat) :=
    if (e =? pos)%nat then ix_next_right_pos ix h e else Ok (Some e).

  (* ---- BacktrackExecutor ---- *)
  Record bt_exec_state := mkBX { bx_loops : list loopdata; bx_groups : list groupdata }.

  Definition bt_init : bt_exec_state :=
    mkBX (repeat (mkLD 0 0) (p_loops prog)) (repeat gd_empty (p_groups prog)).

  Definition bt_try (st : bt_exec_state) (pos : nat) (n : N) : boutcome * N :=
    bt_run ix prog h budget fuel true (mkBC (MRun 0 pos) (bx_loops st) (bx_groups st) [BExhausted]) n.

  Definition bt_success (pos e : nat) (loops : list loopdata) (groups : list groupdata) (n : N)
    : xres bt_exec_state * N :=
    match next_start_after pos e with
    | Err er => (XError er, n)
    | Ok ns => (XMatch (mkMatch pos e (caps_of groups)) ns
                       (mkBX loops (repeat gd_empty (length groups))), n)
    end.

  (* next_match_with_prefix_search *)
  Fixpoint bt_search (test : list N -> bool) (k : nat) (st : bt_exec_state) (pos : nat) (n : N)
    : xres bt_exec_state * N :=
    match k with
    | O => (XError Unreach, n)
    | S k' =>
      match find_bytes test h pos with
      | Err e => (XError e, n)
      | Ok None => (XNone st, n)
      | Ok (Some p) =>
        match bt_try st p n with
        | (BMatched e loops groups, n') => bt_success p e loops groups n'
        | (BError e, n') => (XError e, n')
        | (BBudget, n') => (XBudget, n')
        | (BNoMatch loops groups, n') =>
          match ix_next_right_pos ix h p with
          | Err e => (XError e, n')
          | Ok None => (XNone (mkBX loops groups), n')
          | Ok (Some p') => bt_search test k' (mkBX loops groups) p' n'
          end
        end
      end
    end.

  Definition bt_next_match (st : bt_exec_state) (pos : nat) (n : N) : xres bt_exec_state * N :=
    match searcher_test (p_start_pred prog) with
    | Some test => bt_search test (S (S (length h))) st pos n
    | None =>                                                  (* next_match_anchored *)
      match bt_try st pos n with
      | (BMatched e loops groups, n') => bt_success pos e loops groups n'
      | (BError e, n') => (XError e, n')
      | (BBudget, n') => (XBudget, n')
      | (BNoMatch loops groups, n') => (XNone (mkBX loops groups), n')
      end
    end.

  (* ---- PikeVMExecutor (stateless between calls) ---- *)
  Definition pk_init_state (pos : nat) : pstate :=
    mkPS pos 0 0 (repeat (mkLD 0 pos) (p_loops prog)) (repeat gd_empty (p_groups prog)).

  Definition pk_success (start : nat) (s : pstate) (n : N) : xres unit * N :=
    match next_start_after start (ps_pos s) with
    | Err er => (XError er, n)
    | Ok ns => (XMatch (mkMatch start (ps_pos s) (caps_of (ps_groups s))) ns tt, n)
    end.

  Fixpoint pk_search (k : nat) (s0 : pstate) (n : N) : xres unit * N :=
    match k with
    | O => (XError Unreach, n)
    | S k' =>
      match pk_run ix prog h budget fuel true [s0] n with
      | (PMatched s, n') => pk_success (ps_pos s0) s n'
      | (PError e, n') => (XError e, n')
      | (PBudget, n') => (XBudget, n')
      | (PNoMatch, n') =>
        match ix_next_right_pos ix h (ps_pos s0) with
        | Err e => (XError e, n')
        | Ok None => (XNone tt, n')
        | Ok (Some p') => pk_search k' (ps_set_pos s0 p') n'
        end
      end
    end.

  Definition pk_next_match (_ : unit) (pos : nat) (n : N) : xres unit * N :=
    match p_start_pred prog with
    | SPStartAnchored =>
      match pk_run ix prog h budget fuel true [pk_init_state pos] n with
      | (PMatched s, n') => pk_success pos s n'
      | (PError e, n') => (XError e, n')
      | (PBudget, n') => (XBudget, n')
      | (PNoMatch, n') => (XNone tt, n')
      end
    | _ => pk_search (S (S (length h))) (pk_init_state pos) n
    end.

  (* ---- exec.rs Matches ---- *)
  Inductive iter_result := IterDone | IterError (e : err) | IterBudget.

  Section Iter.
    Variable St : Type.
    Variable next_match : St -> nat -> N -> xres St * N.

    (* Matches::new: initial_position = try_move_right(left_end, start) *)
    Definition initial_position (start : nat) : option nat :=
      if (length h <? start)%nat then None else Some start.

    (* Repeated Matches::next until it returns None: the yielded matches, in order, plus the total
       tick count and the executor state / position at the end. *)
    Fixpoint collect (k : nat) (st : St) (position : option nat) (n : N) (acc : list mmatch)
      : list mmatch * iter_result * N * St * option nat :=
      match k with
      | O => (rev acc, IterError Unreach, n, st, position)
      | S k' =>
        match position with
        | None => (rev acc, IterDone, n, st, position)
        | Some pos =>
          match next_match st pos n with
          | (XMatch m ns st', n') => collect k' st' ns n' (m :: acc)
          | (XNone st', n') => (rev acc, IterDone, n', st', position)
          | (XError e, n') => (rev acc, IterError e, n', st, position)
          | (XBudget, n') => (rev acc, IterBudget, n', st, position)
          end
        end
      end.
  End Iter.

  Definition bt_matches (start : nat) :=
    collect bt_exec_state bt_next_match (S (S (length h))) bt_init (initial_position start) 0 [].
  Definition pk_matches (start : nat) :=
    collect unit pk_next_match (S (S (length h))) tt (initial_position start) 0 [].
End Exec.
