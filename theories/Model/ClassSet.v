(* ClassSet.v — model of the v-mode class set evaluation in src/parse.rs: struct ClassSet with union_operand /
   intersect_operand / subtract_operand, ClassSetOperand, fold_class_set_operand (case folding of the operands under i),
   consume_class_set_expression (on the expression as written, Spec.vexpr, instead of on the text) and ClassSet::node.
   Strings are lists of code points; `alternatives` keeps the order the parser produces. *)
From RV Require Import Base.
From RV.Model Require Import Utf8 Indexer CodePointSet Insn Fold IR Optimizer Unfold.
From RV.Spec Require Import Spec.

Record cset := mkCset { cs_cps : cps; cs_alts : list (list N); cs_mcs : bool }.
Inductive operand := OChar (c : N) | OEsc (s : cps) | OClass (c : cset) | OStrs (l : list (list N)).

Fixpoint str_eqb (a b : list N) : bool :=
  match a, b with
  | [], [] => true
  | x :: a', y :: b' => (x =? y) && str_eqb a' b'
  | _, _ => false
  end.
Definition str_mem (s : list N) (l : list (list N)) : bool := existsb (str_eqb s) l.
Definition is_single (s : list N) : bool := match s with [_] => true | _ => false end.
Definition is_nil (s : list N) : bool := match s with [] => true | _ => false end.

Definition cs_new : cset := mkCset [] [] false.

(* ClassSetOperand::may_contain_strings *)
Definition op_mcs (o : operand) : bool :=
  match o with
  | OClass c => cs_mcs c
  | OStrs l => existsb (fun s => negb (is_single s)) l
  | _ => false
  end.

(* the strings of one code point that satisfy p / the code points of such strings *)
Definition singles_in (alts : list (list N)) (p : N -> bool) : list (list N) :=
  filter (fun a => match a with [c] => p c | _ => false end) alts.
Definition singles_cps (alts : list (list N)) (p : N -> bool) : cps :=
  fold_left (fun acc a => match a with [c] => if p c then cps_add_one acc c else acc | _ => acc end) alts [].

Definition union_operand (s : cset) (o : operand) : cset :=
  let mcs := cs_mcs s || op_mcs o in
  match o with
  | OChar c => mkCset (cps_add_one (cs_cps s) c) (cs_alts s) mcs
  | OEsc e => mkCset (cps_add_set (cs_cps s) e) (cs_alts s) mcs
  | OClass c => mkCset (cps_add_set (cs_cps s) (cs_cps c)) (cs_alts s ++ cs_alts c) mcs
  | OStrs l => mkCset (cs_cps s) (cs_alts s ++ l) mcs
  end.

Definition intersect_operand (s : cset) (o : operand) : cset :=
  let mcs := cs_mcs s && op_mcs o in
  match o with
  | OChar c =>
      mkCset (if cps_contains (cs_cps s) c then [(c, c)] else [])
             (if existsb (fun a => match a with [x] => x =? c | _ => false end) (cs_alts s) then [[c]] else []) mcs
  | OEsc e => mkCset (cps_intersect (cs_cps s) e) (singles_in (cs_alts s) (cps_contains e)) mcs
  | OClass c =>
      let retained_cps := singles_cps (cs_alts c) (cps_contains (cs_cps s)) in
      let retained_alts := singles_in (cs_alts s) (cps_contains (cs_cps c)) in
      mkCset (cps_add_set (cps_intersect (cs_cps s) (cs_cps c)) retained_cps)
             (filter (fun a => str_mem a (cs_alts c)) (cs_alts s) ++ retained_alts) mcs
  | OStrs l =>
      mkCset (singles_cps l (cps_contains (cs_cps s))) (filter (fun a => str_mem a l) (cs_alts s)) mcs
  end.

Definition subtract_operand (s : cset) (o : operand) : cset :=
  match o with
  | OChar c =>
      mkCset (cps_remove (cs_cps s) [(c, c)]) (filter (fun a => negb (str_mem a [[c]])) (cs_alts s)) (cs_mcs s)
  | OEsc e =>
      let rm := singles_in (cs_alts s) (cps_contains e) in
      mkCset (cps_remove (cs_cps s) e) (filter (fun a => negb (str_mem a rm)) (cs_alts s)) (cs_mcs s)
  | OClass c =>
      let cps_removed := singles_cps (cs_alts c) (cps_contains (cs_cps s)) in
      let alts_removed := singles_in (cs_alts s) (cps_contains (cs_cps c)) in
      mkCset (cps_remove (cps_remove (cs_cps s) cps_removed) (cs_cps c))
             (filter (fun a => negb (str_mem a (cs_alts c))) (filter (fun a => negb (str_mem a alts_removed)) (cs_alts s)))
             (cs_mcs s)
  | OStrs l =>
      let rm := singles_cps l (cps_contains (cs_cps s)) in
      mkCset (cps_remove (cs_cps s) rm) (filter (fun a => negb (str_mem a l)) (cs_alts s)) (cs_mcs s)
  end.

(* fold_class_set_operand *)
Definition fold_operand (icase : bool) (o : operand) : operand :=
  if negb icase then o else
  match o with
  | OChar c => OEsc (add_icase_code_points (cps_add_one [] c))
  | OEsc e => OEsc (add_icase_code_points e)
  | OStrs l =>
      OClass (mkCset (add_icase_code_points
                        (fold_left (fun acc s => match s with [c] => cps_add_one acc c | _ => acc end) l []))
                     (map (map fold) (filter (fun s => negb (is_single s)) l))
                     (existsb (fun s => negb (is_single s)) l))
  | OClass c => OClass c
  end.

(* a class escape or property escape as the operand the parser forms: the negated ones are the complement of the
   positive set, closed under case first when i is set *)
Definition esc_cps (icase neg : bool) (rs : cps) : cps :=
  if neg then cps_inverted (if icase then add_icase_code_points rs else rs) else rs.

Definition leaf_operand (icase : bool) (x : vexpr) : option operand :=
  match x with
  | VCh c => Some (OChar c)
  | VEsc neg rs => Some (OEsc (esc_cps icase neg rs))
  | VStrs l => Some (OStrs l)
  | _ => None
  end.

Definition close (icase : bool) (s : cset) : cset :=
  if icase then mkCset (add_icase_code_points (cs_cps s)) (cs_alts s) (cs_mcs s) else s.

(* consume_class_set_expression for the class written [e] (an operand that is not a class stands for the class that
   contains just it; a range as operand of && or -- is written as a nested class) *)
Fixpoint eval (icase : bool) (e : vexpr) {struct e} : cset :=
  match e with
  | VCh c => close icase (union_operand cs_new (fold_operand icase (OChar c)))
  | VEsc neg rs => close icase (union_operand cs_new (fold_operand icase (OEsc (esc_cps icase neg rs))))
  | VStrs l => close icase (union_operand cs_new (fold_operand icase (OStrs l)))
  | VRange a b => close icase (mkCset (cps_add [] a b) [] false)
  | VUnion l =>
      close icase
        ((fix go (l : list vexpr) (acc : cset) : cset :=
            match l with
            | [] => acc
            | x :: t =>
                go t (match x with
                      | VRange a b => mkCset (cps_add (cs_cps acc) a b) (cs_alts acc) (cs_mcs acc)
                      | _ => union_operand acc (fold_operand icase
                               (match leaf_operand icase x with Some o => o | None => OClass (eval icase x) end))
                      end)
            end) l cs_new)
  | VInter l =>
      match l with
      | [] => cs_new
      | h :: t =>
          close icase
            ((fix go (l : list vexpr) (acc : cset) : cset :=
                match l with
                | [] => acc
                | x :: t' =>
                    go t' (intersect_operand acc (fold_operand icase
                             (match leaf_operand icase x with Some o => o | None => OClass (eval icase x) end)))
                end) t
               (union_operand cs_new (fold_operand icase
                  (match leaf_operand icase h with Some o => o | None => OClass (eval icase h) end))))
      end
  | VSub l =>
      match l with
      | [] => cs_new
      | h :: t =>
          close icase
            ((fix go (l : list vexpr) (acc : cset) : cset :=
                match l with
                | [] => acc
                | x :: t' =>
                    go t' (subtract_operand acc (fold_operand icase
                             (match leaf_operand icase x with Some o => o | None => OClass (eval icase x) end)))
                end) t
               (union_operand cs_new (fold_operand icase
                  (match leaf_operand icase h with Some o => o | None => OClass (eval icase h) end))))
      end
  | VNeg e' => let r := eval icase e' in mkCset (cps_inverted (cs_cps r)) (cs_alts r) (cs_mcs r)
  end.

(* ClassSetAlternativeStrings::into_node sorts by descending length (a stable sort) *)
Fixpoint insert_len_desc (s : list N) (l : list (list N)) : list (list N) :=
  match l with
  | [] => [s]
  | x :: t => if (length x <? length s)%nat then s :: l else x :: insert_len_desc s t
  end.
Definition sort_len_desc (l : list (list N)) : list (list N) := fold_left (fun acc s => insert_len_desc s acc) l [].

(* ClassSet::node, make_alt on at most three nodes *)
Definition cs_node (icase negate : bool) (s : cset) : node :=
  let cps := if icase then add_icase_code_points (cs_cps s) else cs_cps s in
  let has_empty := existsb is_nil (cs_alts s) in
  let alts := filter (fun a => negb (is_nil a)) (cs_alts s) in
  let n1 := match alts with [] => [] | _ => [NStringSet (sort_len_desc alts) icase] end in
  let n2 := if negb (cps_is_empty cps) || (match n1 with [] => true | _ => false end && negb has_empty)
            then [NBracket (mkBracket negate cps)] else [] in
  let n3 := if has_empty then [NEmpty] else [] in
  match n1 ++ n2 ++ n3 with
  | [] => NEmpty
  | [a] => a
  | [a; b] => NAlt a b
  | [a; b; c] => NAlt a (NAlt b c)
  | _ => NEmpty
  end.

(* the node for the class as written: [^ ... ] at the top sets the invert flag of the bracket *)
Definition class_node (icase : bool) (e : vexpr) : node :=
  match e with
  | VNeg e' => cs_node icase true (eval icase e')
  | _ => cs_node icase false (eval icase e)
  end.

(* Parser::char_node (src/parse.rs): the node for a literal character; under i its case variants *)
Definition char_node (icase unicode : bool) (c : N) : R node :=
  if negb icase then Ok (NChar c) else
  match expand_code_point c icase unicode with
  | [x] => Ok (NChar x)
  | l => if ((2 <=? length l) && (length l <=? 4))%nat then Ok (NCharSet l) else Err Panic
  end.

(* the node for `.` *)
Definition dot_node (dot_all : bool) : node := if dot_all then NMatchAny else NMatchAnyExceptLT.

(* make_cat and make_alt (src/parse.rs): a term is its only node, Empty, or the flat Cat; an alternation is the
   balanced tree over its terms (split at n/2, left to right) *)
Definition make_cat (l : list node) : node := match l with [] => NEmpty | [x] => x | _ => NCat l end.
Fixpoint make_alt (fuel : nat) (l : list node) : node :=
  match l with
  | [] => NEmpty
  | [x] => x
  | _ => match fuel with
         | O => NEmpty
         | S k => let h := Nat.div (length l) 2 in NAlt (make_alt k (firstn h l)) (make_alt k (skipn h l))
         end
  end.
