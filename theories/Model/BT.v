(* BT.v — model of src/classicalbacktrack.rs MatchAttempter: run_loop, run_scm_loop (+ the
   with_scm_* dispatch), run_lookaround, try_backtrack, try_at_pos.  One mutable state plus a
   backtrack stack of choice and undo records (list head = top of stack). *)
From RV Require Import Base.
From RV.Model Require Import Utf8 Indexer Insn.

Inductive btinsn :=
| BExhausted
| BSetPosition (ip pos : nat)
| BSetLoopData (id : nat) (d : loopdata)
| BSetCaptureGroup (id : nat) (d : groupdata)
| BEnterNonGreedyLoop (ip : nat) (orig_pos : nat) (d : loopdata)
| BGreedyLoop1Char (cont : nat) (min max : nat)
| BNonGreedyLoop1Char (cont : nat) (min max : nat).

Inductive bmode := MRun (ip pos : nat) | MBack.

Record bconf := mkBC {
  bc_mode : bmode;
  bc_loops : list loopdata;
  bc_groups : list groupdata;
  bc_bts : list btinsn;
}.

Inductive boutcome :=
| BMatched (pos : nat) (loops : list loopdata) (groups : list groupdata)
| BNoMatch (loops : list loopdata) (groups : list groupdata)
| BError (e : err)
| BBudget.

Inductive bstep :=
| BSNext (c : bconf)
| BSDone (o : boutcome).

Section BT.
  Variable ix : indexer.
  Variable prog : program.
  Variable h : hay.

  (* Apply a single-char matcher exactly / at most [count] times.  [fuel] bounds the recursion: every
     successful application moves the position, so [S (length h)] always suffices. *)
  Fixpoint scm_exact (m : nat -> R (option nat)) (fuel : nat) (count : N) (p : nat) : R (option nat) :=
    if count =? 0 then Ok (Some p) else
    match fuel with
    | O => Err Unreach
    | S f => do r <- m p;
             match r with None => Ok None | Some p' => scm_exact m f (count - 1) p' end
    end.

  Fixpoint scm_upto (m : nat -> R (option nat)) (fuel : nat) (count : N) (p : nat) : R nat :=
    if count =? 0 then Ok p else
    match fuel with
    | O => Err Unreach
    | S f => do r <- m p;
             match r with None => Ok p | Some p' => scm_upto m f (count - 1) p' end
    end.

  (* The matcher selected by with_scm_loop_impl / with_scm_compute_max for the instruction after a
     Loop1CharBody.  Ok None is no longer produced (kept in the type for the dispatch result). *)
  Definition scm_dispatch (ip : nat) (fwd : bool) : R (option (nat -> R (option nat))) :=
    match nth_error (p_insns prog) (S ip) with
    | None => Err Oob
    | Some (Char c) =>
        if ix_elem_of_u32 ix c then Ok (Some (fun p => next_if ix fwd h p (N.eqb c)))
        else Ok (Some (fun _ => Ok None))   (* unrepresentable char: never matches, zero iterations *)
    | Some (ByteSeq bs) =>
        if (length bs <=? 6)%nat then Ok (Some (fun p => match_bytes fwd h p bs)) else Err Panic
    | Some i =>
        match match1 ix prog i fwd h 0 with
        | Some _ => Ok (Some (fun p => match match1 ix prog i fwd h p with
                                       | Some r => r | None => Err Unreach end))
        | None => Err Panic                                 (* unreachable!("Missing SCM") *)
        end
    end.

  Definition push_undo_groups (sg : nat) (saved : list groupdata) (bts : list btinsn) : list btinsn :=
    (* pushed in ascending id order, so the highest id ends on top *)
    fold_left (fun acc x => BSetCaptureGroup (sg + fst x) (snd x) :: acc)
              (combine (seq 0 (length saved)) saved) bts.

  Definition splice_groups (groups : list groupdata) (sg : nat) (saved : list groupdata)
    : list groupdata :=
    firstn sg groups ++ saved ++ skipn (sg + length saved) groups.

  (* run_loop *)
  Definition bt_run_loop (loops : list loopdata) (groups : list groupdata) (bts : list btinsn)
             (lid : nat) (min max : N) (greedy : bool) (exit : nat) (pos ip : nat) : bstep :=
    match nth_error loops lid with
    | None => BSDone (BError Panic)                          (* self.s.loops[..] checked index *)
    | Some ld =>
      let iteration := ld_iters ld in
      let do_taken := iteration <? max in
      let do_not_taken := min <=? iteration in
      let enter bts' :=
        BSNext (mkBC (MRun (S ip) pos)
                     (set_nth lid (mkLD (iteration + 1) pos) loops) groups
                     (BSetLoopData lid ld :: bts')) in
      if (ld_entry ld =? pos)%nat && (min <? iteration) then BSNext (mkBC MBack loops groups bts)
      else match do_taken, do_not_taken with
      | false, false => BSNext (mkBC MBack loops groups bts)
      | false, true => BSNext (mkBC (MRun exit pos) loops groups bts)
      | true, false => enter bts
      | true, true =>
          if greedy then enter (BSetPosition exit pos :: bts)
          else
            let ld' := mkLD iteration pos in
            BSNext (mkBC (MRun exit pos) (set_nth lid ld' loops) groups
                         (BEnterNonGreedyLoop ip (ld_entry ld) ld' :: bts))
      end
    end.

  (* One iteration of try_backtrack's loop. *)
  Definition bt_back (loops : list loopdata) (groups : list groupdata) (bts : list btinsn)
             (fwd : bool) : bstep :=
    match bts with
    | [] => BSDone (BError Unreach)
    | BExhausted :: _ => BSDone (BNoMatch loops groups)
    | BSetPosition ip pos :: rest => BSNext (mkBC (MRun ip pos) loops groups rest)
    | BSetLoopData id d :: rest =>
        if (id <? length loops)%nat then BSNext (mkBC MBack (set_nth id d loops) groups rest)
        else BSDone (BError Oob)
    | BSetCaptureGroup id d :: rest =>
        if (id <? length groups)%nat then BSNext (mkBC MBack loops (set_nth id d groups) rest)
        else BSDone (BError Oob)
    | BEnterNonGreedyLoop loop_ip orig_pos d :: rest =>
        match nth_error (p_insns prog) loop_ip with
        | Some (EnterLoop lid _ _ _ _) =>
            if (lid <? length loops)%nat then
              BSNext (mkBC (MRun (S loop_ip) (ld_entry d))
                           (set_nth lid (mkLD (ld_iters d + 1) (ld_entry d)) loops) groups
                           (BSetLoopData lid d :: BSetLoopData lid (mkLD (ld_iters d) orig_pos) :: rest))
            else BSDone (BError Oob)
        | Some _ => BSDone (BError Unreach)
        | None => BSDone (BError Oob)
        end
    | BGreedyLoop1Char cont mn mx :: rest =>
        if (mx =? mn)%nat then BSNext (mkBC MBack loops groups rest)
        else
          match (if fwd then ix_next_left_pos ix h mx else ix_next_right_pos ix h mx) with
          | Err e => BSDone (BError e)
          | Ok None => BSDone (BError Unreach)
          | Ok (Some nm) =>
              BSNext (mkBC (MRun cont nm) loops groups (BGreedyLoop1Char cont mn nm :: rest))
          end
    | BNonGreedyLoop1Char cont mn mx :: rest =>
        if (mx =? mn)%nat then BSNext (mkBC MBack loops groups rest)
        else
          match (if fwd then ix_next_right_pos ix h mn else ix_next_left_pos ix h mn) with
          | Err e => BSDone (BError e)
          | Ok None => BSDone (BError Unreach)
          | Ok (Some nm) =>
              BSNext (mkBC (MRun cont nm) loops groups (BNonGreedyLoop1Char cont nm mx :: rest))
          end
    end.

  (* run_scm_loop *)
  Definition bt_scm_loop (loops : list loopdata) (groups : list groupdata) (bts : list btinsn)
             (fwd : bool) (pos : nat) (min max : N) (ip : nat) (greedy : bool) : bstep :=
    let fuel := S (length h) in
    let fail := BSNext (mkBC MBack loops groups bts) in
    match scm_dispatch ip fwd with
    | Err e => BSDone (BError e)
    | Ok None => fail
    | Ok (Some m) =>
      match scm_exact m fuel min pos with
      | Err e => BSDone (BError e)
      | Ok None => fail
      | Ok (Some min_pos) =>
        let maxr := if min <? max then scm_upto m fuel (max - min) min_pos else Ok min_pos in
        match maxr with
        | Err e => BSDone (BError e)
        | Ok max_pos =>
          let cont := (ip + 2)%nat in
          let bts' := if (min_pos =? max_pos)%nat then bts
                      else (if greedy then BGreedyLoop1Char cont min_pos max_pos
                            else BNonGreedyLoop1Char cont min_pos max_pos) :: bts in
          BSNext (mkBC (MRun cont (if greedy then max_pos else min_pos)) loops groups bts')
        end
      end
    end.

  (* [nested]: result of the nested try_at_pos of a lookaround at (ip+1, pos), precomputed by bt_run. *)
  Variable nested : boutcome.

  Definition bt_lookaround (loops : list loopdata) (groups : list groupdata) (bts : list btinsn)
             (pos : nat) (negate : bool) (sg eg : nat) (cont : nat) : bstep :=
    if (eg <? sg)%nat || (length groups <? eg)%nat then BSDone (BError Oob) else
    let saved := slice groups sg eg in
    match nested with
    | BError e => BSDone (BError e)
    | BBudget => BSDone BBudget
    | BMatched _ loops' groups' =>
        if negate then BSNext (mkBC MBack loops' (splice_groups groups' sg saved) bts)
        else BSNext (mkBC (MRun cont pos) loops' groups' (push_undo_groups sg saved bts))
    | BNoMatch loops' groups' =>
        let g := splice_groups groups' sg saved in
        if negate then BSNext (mkBC (MRun cont pos) loops' g bts)
        else BSNext (mkBC MBack loops' g bts)
    end.

  Definition bt_exec (loops : list loopdata) (groups : list groupdata) (bts : list btinsn)
             (fwd : bool) (ip pos : nat) : bstep :=
    let back := BSNext (mkBC MBack loops groups bts) in
    let adv (r : R (option nat)) : bstep :=
      match r with
      | Err e => BSDone (BError e)
      | Ok (Some p') => BSNext (mkBC (MRun (S ip) p') loops groups bts)
      | Ok None => back
      end in
    let cond (r : R bool) : bstep :=
      match r with
      | Err e => BSDone (BError e)
      | Ok true => BSNext (mkBC (MRun (S ip) pos) loops groups bts)
      | Ok false => back
      end in
    match nth_error (p_insns prog) ip with
    | None => BSDone (BError Oob)                           (* re.insns.iat(ip): unchecked *)
    | Some i =>
      match i with
      | Goal =>
          BSDone (BMatched pos loops groups)
      | JustFail => back
      | Char c => adv (char_bt ix c fwd h pos)
      | StartOfLine ml => cond (start_of_line ix ml h pos)
      | EndOfLine ml => cond (end_of_line ix ml h pos)
      | WordBoundary inv =>
          cond (do b <- word_boundary ix false h pos; Ok (negb (Bool.eqb b inv)))
      | WordBoundaryUnicodeICase inv =>
          cond (do b <- word_boundary ix true h pos; Ok (negb (Bool.eqb b inv)))
      | Jump t => BSNext (mkBC (MRun t pos) loops groups bts)
      | Alt sec => BSNext (mkBC (MRun (S ip) pos) loops groups (BSetPosition sec pos :: bts))
      | BeginCG g =>
          match nth_error groups g with
          | None => BSDone (BError Oob)
          | Some gd =>
              let gd' := if fwd then mkGD (Some pos) (gd_end gd) else mkGD (gd_start gd) (Some pos) in
              BSNext (mkBC (MRun (S ip) pos) loops (set_nth g gd' groups)
                           (BSetCaptureGroup g gd :: bts))
          end
      | EndCG g =>
          match nth_error groups g with
          | None => BSDone (BError Oob)
          | Some gd =>
              let gd' := if fwd then mkGD (gd_start gd) (Some pos) else mkGD (Some pos) (gd_end gd) in
              BSNext (mkBC (MRun (S ip) pos) loops (set_nth g gd' groups)
                           (BSetCaptureGroup g gd :: bts))
          end
      | ResetCG g =>
          match nth_error groups g with
          | None => BSDone (BError Oob)
          | Some gd =>
              BSNext (mkBC (MRun (S ip) pos) loops (set_nth g gd_empty groups)
                           (BSetCaptureGroup g gd :: bts))
          end
      | BackRef g icase =>
          match nth_error groups g with
          | None => BSDone (BError Oob)
          | Some gd =>
              match gd_range gd with
              | None => BSNext (mkBC (MRun (S ip) pos) loops groups bts)
              | Some (rs, re) => adv (backref_match ix prog icase fwd h pos rs re)
              end
          end
      | Lookahead negate sg eg cont => bt_lookaround loops groups bts pos negate sg eg cont
      | Lookbehind negate sg eg cont => bt_lookaround loops groups bts pos negate sg eg cont
      | EnterLoop lid min max greedy exit =>
          match nth_error loops lid with
          | None => BSDone (BError Oob)                     (* self.s.loops.mat(..): unchecked *)
          | Some ld =>
              bt_run_loop (set_nth lid (mkLD 0 (ld_entry ld)) loops) groups
                          (BSetLoopData lid ld :: bts) lid min max greedy exit pos ip
          end
      | LoopAgain begin =>
          match nth_error (p_insns prog) begin with
          | Some (EnterLoop lid min max greedy exit) =>
              bt_run_loop loops groups bts lid min max greedy exit pos begin
          | Some _ => BSDone (BError Unreach)
          | None => BSDone (BError Oob)
          end
      | Loop1CharBody min max greedy => bt_scm_loop loops groups bts fwd pos min max ip greedy
      | other =>
          match match1 ix prog other fwd h pos with
          | Some r => adv r
          | None => BSDone (BError Unreach)
          end
      end
    end.
End BT.

(* try_at_pos.  One tick per interpreted instruction and per try_backtrack iteration. *)
Fixpoint bt_run (ix : indexer) (prog : program) (h : hay) (budget : N)
         (fuel : nat) (fwd : bool) (c : bconf) (n : N) : boutcome * N :=
  match fuel with
  | O => (BBudget, n)
  | S f =>
    let n1 := n + 1 in
    if budget <? n1 then (BBudget, n1) else
    match bc_mode c with
    | MBack =>
        match bt_back ix prog h (bc_loops c) (bc_groups c) (bc_bts c) fwd with
        | BSDone o => (o, n1)
        | BSNext c' => bt_run ix prog h budget f fwd c' n1
        end
    | MRun ip pos =>
        let look := match nth_error (p_insns prog) ip with
                    | Some (Lookahead _ _ _ _) => Some true
                    | Some (Lookbehind _ _ _ _) => Some false
                    | _ => None end in
        let '(nres, n2) :=
          match look with
          | Some d => bt_run ix prog h budget f d
                             (mkBC (MRun (S ip) pos) (bc_loops c) (bc_groups c) [BExhausted]) n1
          | None => (BBudget, n1)
          end in
        match bt_exec ix prog h nres (bc_loops c) (bc_groups c) (bc_bts c) fwd ip pos with
        | BSDone o => (o, n2)
        | BSNext c' => bt_run ix prog h budget f fwd c' n2
        end
    end
  end.
