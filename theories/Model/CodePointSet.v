(* CodePointSet.v — model of src/codepointset.rs: sorted, disjoint, non-abutting inclusive intervals.
   The Rust code locates the affected sub-range with binary searches (equal_range_by / binary_search_by);
   on lists satisfying the invariant these coincide with the linear scans written here. *)
From RV Require Import Base.

Definition CODE_POINT_MAX : N := 1114111.
Definition iv := (N * N)%type.
Definition cps := list iv.

Definition iv_contains (i : iv) (c : N) : bool := (fst i <=? c) && (c <=? snd i).
Definition iv_overlaps (a b : iv) : bool := negb (snd a <? fst b) && negb (snd b <? fst a).
Definition iv_count (i : iv) : N := snd i - fst i + 1.

(* CodePointSet::contains / interval_contains *)
Definition cps_contains (s : cps) (c : N) : bool := existsb (fun i => iv_contains i c) s.

(* CodePointSet::add *)
Fixpoint cps_add (s : cps) (nf nl : N) : cps :=
  match s with
  | [] => [(nf, nl)]
  | (f, l) :: t =>
      if l + 1 <? nf then (f, l) :: cps_add t nf nl               (* strictly before the new interval *)
      else if nl + 1 <? f then (nf, nl) :: (f, l) :: t            (* strictly after: insert here *)
      else cps_add t (N.min f nf) (N.max l nl)                    (* mergeable: absorb and go on *)
  end.

Definition cps_add_one (s : cps) (c : N) : cps := cps_add s c c.

(* CodePointSet::add_set: add the smaller interval list into the larger *)
Definition cps_add_set (s rhs : cps) : cps :=
  let '(a, b) := if (length s <? length rhs)%nat then (rhs, s) else (s, rhs) in
  fold_left (fun acc i => cps_add acc (fst i) (snd i)) b a.

(* CodePointSet::inverted *)
Fixpoint cps_inverted_go (s : cps) (start : N) : cps :=
  match s with
  | [] => if start <=? CODE_POINT_MAX then [(start, CODE_POINT_MAX)] else []
  | (f, l) :: t =>
      (if start <? f then [(start, f - 1)] else []) ++ cps_inverted_go t (l + 1)
  end.
Definition cps_inverted (s : cps) : cps := cps_inverted_go s 0.
Definition cps_inverted_interval_count (s : cps) : nat := length (cps_inverted s).

(* CodePointSet::remove (both lists sorted and disjoint) *)
Fixpoint cps_remove_go (fuel : nat) (cur : iv) (rest : cps) (rem : cps) : cps :=
  match fuel with
  | O => []
  | S k =>
    let next (rem' : cps) : cps :=
      match rest with [] => [] | i :: rest' => cps_remove_go k i rest' rem' end in
    match rem with
    | [] => cur :: rest
    | (rf, rl) :: rem' =>
        if rl <? fst cur then cps_remove_go k cur rest rem'
        else if snd cur <? rf then cur :: next rem
        else
          (if fst cur <? rf then [(fst cur, rf - 1)] else []) ++
          (if rl <? snd cur then cps_remove_go k (rl + 1, snd cur) rest rem' else next rem)
    end
  end.
Definition cps_remove (s rem : cps) : cps :=
  match s with
  | [] => []
  | i :: rest => cps_remove_go (S (length s + length rem)) i rest rem
  end.

(* CodePointSet::intersect *)
Definition cps_intersect (s ivs : cps) : cps :=
  flat_map (fun i => flat_map (fun si => if iv_overlaps i si
                                         then [(N.max (fst i) (fst si), N.min (snd i) (snd si))] else []) s) ivs.

Definition cps_is_empty (s : cps) : bool := match s with [] => true | _ => false end.
Definition cps_contains_all (s : cps) : bool :=
  match s with [(f, l)] => (f =? 0) && (l =? CODE_POINT_MAX) | _ => false end.

(* the representation invariant *)
Fixpoint cps_wf_from (lo : N) (s : cps) : bool :=
  match s with
  | [] => true
  | (f, l) :: t => (lo <=? f) && (f <=? l) && (l <=? CODE_POINT_MAX) && cps_wf_from (l + 2) t
  end.
Definition cps_wf (s : cps) : bool := cps_wf_from 0 s.
