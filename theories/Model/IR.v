(* IR.v — model of src/ir.rs: the IR node type, the predicates on nodes and try_duplicate. *)
From RV Require Import Base.
From RV.Model Require Import Indexer CodePointSet Insn.

Inductive node :=
| NEmpty
| NGoal
| NChar (c : N)
| NByteSequence (bs : list N)
| NByteSet (bs : list N)
| NCharSet (cs : list N)
| NCat (l : list node)
| NAlt (l r : node)
| NMatchAny
| NMatchAnyExceptLT
| NAnchor (start_of_line : bool) (multiline : bool)
| NWordBoundary (invert unicode_icase : bool)
| NCaptureGroup (id : nat) (contents : node) (name : option (list N))
| NBackRef (group : N) (icase : bool)
| NBracket (b : bracket)
| NStringSet (alts : list (list N)) (icase : bool)
| NLookaround (negate backwards : bool) (sg eg : nat) (contents : node)
| NLoop (loopee : node) (min : N) (max : option N) (greedy : bool) (egs ege : nat)
| NLoop1CharBody (loopee : node) (min : N) (max : option N) (greedy : bool).

(* BracketContents::is_empty *)
Definition bracket_is_empty (b : bracket) : bool :=
  if br_invert b then cps_contains_all (br_ivs b) else cps_is_empty (br_ivs b).

Definition is_empty_node (n : node) : bool := match n with NEmpty => true | _ => false end.
Definition is_cat (n : node) : bool := match n with NCat _ => true | _ => false end.
Definition list_is_empty {A} (l : list A) : bool := match l with [] => true | _ => false end.

(* Node::matches_exactly_one_char *)
Definition matches_exactly_one_char (n : node) : bool :=
  match n with
  | NChar _ => true
  | NCharSet cs => negb (list_is_empty cs)
  | NBracket b => negb (bracket_is_empty b)
  | NMatchAny | NMatchAnyExceptLT => true
  | _ => false
  end.

(* Node::match_always_fails *)
Definition match_always_fails (n : node) : bool :=
  match n with
  | NByteSet bs => list_is_empty bs
  | NCharSet cs => list_is_empty cs
  | NBracket b => bracket_is_empty b
  | _ => false
  end.

Definition make_always_fails : node := NCharSet [].

(* Node::try_duplicate.  Err Panic: "Refusing to duplicate a capture group" / the asserts on enclosed
   groups; Ok None: depth > 100 or a StringSet. *)
Fixpoint try_duplicate (n : node) (depth : nat) : R (option node) :=
  if (100 <? depth)%nat then Ok None else
  let d := S depth in
  match n with
  | NStringSet _ _ => Ok None
  | NCat l =>
      do o <- (fix go (l : list node) : R (option (list node)) :=
                 match l with
                 | [] => Ok (Some [])
                 | x :: t =>
                     do rx <- try_duplicate x d;
                     match rx with
                     | None => Ok None
                     | Some x' => do rt <- go t; Ok (option_map (cons x') rt)
                     end
                 end) l;
      Ok (option_map NCat o)
  | NAlt a b =>
      do ra <- try_duplicate a d;
      match ra with
      | None => Ok None
      | Some a' => do rb <- try_duplicate b d; Ok (option_map (NAlt a') rb)
      end
  | NLoop body mn mx g egs ege =>
      if (egs <? ege)%nat then Err Panic else
      do rb <- try_duplicate body d; Ok (option_map (fun b => NLoop b mn mx g egs ege) rb)
  | NLoop1CharBody body mn mx g =>
      do rb <- try_duplicate body d; Ok (option_map (fun b => NLoop1CharBody b mn mx g) rb)
  | NCaptureGroup _ _ _ => Err Panic
  | NLookaround ng bw sg eg c =>
      if (sg <? eg)%nat then Err Panic else
      do rc <- try_duplicate c d; Ok (option_map (NLookaround ng bw sg eg) rc)
  | other => Ok (Some other)
  end.
