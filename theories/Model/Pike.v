(* Pike.v — model of src/pikevm.rs: run_loop, try_match_state, MatchAttempter::try_at_pos.
   A stack of fully cloned states; Split pushes the preferred branch on top. *)
From RV Require Import Base.
From RV.Model Require Import Utf8 Indexer Insn.

Record pstate := mkPS {
  ps_pos : nat;
  ps_ip : nat;
  ps_l1 : N;                       (* loop1_iters *)
  ps_loops : list loopdata;
  ps_groups : list groupdata;
}.

Definition ps_set_ip (s : pstate) (ip : nat) : pstate :=
  mkPS (ps_pos s) ip (ps_l1 s) (ps_loops s) (ps_groups s).
Definition ps_set_pos (s : pstate) (p : nat) : pstate :=
  mkPS p (ps_ip s) (ps_l1 s) (ps_loops s) (ps_groups s).
Definition ps_set_l1 (s : pstate) (n : N) : pstate :=
  mkPS (ps_pos s) (ps_ip s) n (ps_loops s) (ps_groups s).
Definition ps_set_loops (s : pstate) (l : list loopdata) : pstate :=
  mkPS (ps_pos s) (ps_ip s) (ps_l1 s) l (ps_groups s).
Definition ps_set_groups (s : pstate) (g : list groupdata) : pstate :=
  mkPS (ps_pos s) (ps_ip s) (ps_l1 s) (ps_loops s) g.

(* StateMatch.  [PSplit cur new]: the current stack top becomes [cur] and [new] is pushed above it. *)
Inductive smatch :=
| PFail
| PContinue (s : pstate)
| PSplit (cur new : pstate)
| PComplete.

(* Outcome of one try_at_pos. *)
Inductive poutcome :=
| PMatched (s : pstate)
| PNoMatch
| PError (e : err)
| PBudget.

Section Pike.
  Variable ix : indexer.
  Variable prog : program.
  Variable h : hay.

  (* pikevm.rs run_loop *)
  Definition pk_run_loop (s : pstate) (lid : nat) (min max : N) (greedy : bool) (exit : nat)
             (initial : bool) : R smatch :=
    match nth_error (ps_loops s) lid with
    | None => Err Panic                                   (* s.loops[..] is a checked index *)
    | Some ld =>
      let iters := if initial then 0 else ld_iters ld + 1 in
      let enter_ok := if initial then 0 <? max else iters <? max in
      let skip_ok := if initial then min =? 0 else min <=? iters in
      if negb initial && (min <? iters) && (ld_entry ld =? ps_pos s)%nat then
        Ok PFail
      else
        let s1 := ps_set_ip (ps_set_loops s (set_nth lid (mkLD iters (ps_pos s)) (ps_loops s)))
                            (S (ps_ip s)) in
        if negb enter_ok && negb skip_ok then Ok PFail
        else if negb enter_ok then Ok (PContinue (ps_set_ip s1 exit))
        else if negb skip_ok then Ok (PContinue s1)
        else if greedy then Ok (PSplit (ps_set_ip s1 exit) s1)
        else Ok (PSplit s1 (ps_set_ip s1 exit))
    end.

  Definition next_or_fail (s : pstate) (b : bool) : smatch :=
    if b then PContinue (ps_set_ip s (S (ps_ip s))) else PFail.

  Definition adv_or_fail (s : pstate) (r : R (option nat)) : R smatch :=
    do o <- r;
    Ok (match o with
        | Some p' => PContinue (ps_set_ip (ps_set_pos s p') (S (ps_ip s)))
        | None => PFail
        end).

  Definition set_group (s : pstate) (g : nat) (f : groupdata -> groupdata) : R pstate :=
    match nth_error (ps_groups s) g with
    | None => Err Panic
    | Some gd => Ok (ps_set_groups s (set_nth g (f gd) (ps_groups s)))
    end.

  (* [nested fwd s] runs a fresh MatchAttempter on [s] in the given direction:
     Ok (Some s') = matched with final state s', Ok None = no match. *)
  Variable nested : bool -> pstate -> poutcome.

  Definition pk_lookaround (s : pstate) (fwd negate : bool) (cont : nat) : poutcome + smatch :=
    let s1 := ps_set_ip s (S (ps_ip s)) in
    match nested fwd s1 with
    | PError e => inl (PError e)
    | PBudget => inl PBudget
    | PMatched s' =>
        (* init_state was swapped with the successful state *)
        inr (if negate then PFail else PContinue (ps_set_pos (ps_set_ip s' cont) (ps_pos s)))
    | PNoMatch =>
        inr (if negate then PContinue (ps_set_pos (ps_set_ip s1 cont) (ps_pos s)) else PFail)
    end.

  (* try_match_state.  Result: inl = the whole attempt ends (error/budget in a nested run). *)
  Definition pk_step (fwd : bool) (s : pstate) : poutcome + smatch :=
    let lift (r : R smatch) : poutcome + smatch :=
      match r with Err e => inl (PError e) | Ok m => inr m end in
    match nth_error (p_insns prog) (ps_ip s) with
    | None => inl (PError Panic)                          (* re.insns[s.ip] is a checked index *)
    | Some i =>
      match i with
      | Goal => inr PComplete
      | JustFail => inr PFail
      | Char c => lift (adv_or_fail s (char_pike ix c fwd h (ps_pos s)))
      | StartOfLine ml => lift (do b <- start_of_line ix ml h (ps_pos s); Ok (next_or_fail s b))
      | EndOfLine ml => lift (do b <- end_of_line ix ml h (ps_pos s); Ok (next_or_fail s b))
      | Jump t => inr (PContinue (ps_set_ip s t))
      | Alt sec => inr (PSplit (ps_set_ip s sec) (ps_set_ip s (S (ps_ip s))))
      | BeginCG g =>
          lift (do s' <- set_group s g (fun gd => if fwd then mkGD (Some (ps_pos s)) (gd_end gd)
                                                   else mkGD (gd_start gd) (Some (ps_pos s)));
                Ok (next_or_fail s' true))
      | EndCG g =>
          lift (do s' <- set_group s g (fun gd => if fwd then mkGD (gd_start gd) (Some (ps_pos s))
                                                   else mkGD (Some (ps_pos s)) (gd_end gd));
                Ok (next_or_fail s' true))
      | ResetCG g => lift (do s' <- set_group s g (fun _ => gd_empty); Ok (next_or_fail s' true))
      | BackRef g icase =>
          match nth_error (ps_groups s) g with
          | None => inl (PError Panic)
          | Some gd =>
            match gd_range gd with
            | None => inr (next_or_fail s true)
            | Some (rs, re) => lift (adv_or_fail s (backref_match ix prog icase fwd h (ps_pos s) rs re))
            end
          end
      | Lookahead negate _ _ cont => pk_lookaround s true negate cont
      | Lookbehind negate _ _ cont => pk_lookaround s false negate cont
      | EnterLoop lid min max greedy exit => lift (pk_run_loop s lid min max greedy exit true)
      | LoopAgain begin =>
          match nth_error (p_insns prog) begin with
          | Some (EnterLoop lid min max greedy exit) =>
              lift (pk_run_loop (ps_set_ip s begin) lid min max greedy exit false)
          | _ => inl (PError Panic)
          end
      | Loop1CharBody min max greedy =>
          let loop_ip := ps_ip s in
          let cont := (loop_ip + 2)%nat in
          let iters := ps_l1 s in
          let taken : R (option nat) :=
            if iters <? max then
              match nth_error (p_insns prog) (S loop_ip) with
              | Some (Char c) => char_pike ix c fwd h (ps_pos s)
              | Some JustFail => Ok None                     (* try_match_state: Fail *)
              | Some bi => match match1 ix prog bi fwd h (ps_pos s) with
                           | Some r => r
                           | None => Err Panic            (* unreachable!: body must match one char *)
                           end
              | None => Err Panic
              end
            else Ok None in
          lift (do tk <- taken;
                Ok (match tk, min <=? iters with
                    | None, false => PFail
                    | None, true => PContinue (ps_set_l1 (ps_set_ip s cont) 0)
                    | Some tp, false => PContinue (ps_set_l1 (ps_set_pos s tp) (iters + 1))
                    | Some tp, true =>
                        let iterate := ps_set_l1 (ps_set_pos s tp) (iters + 1) in
                        let exit := ps_set_l1 (ps_set_ip s cont) 0 in
                        if greedy then PSplit exit iterate else PSplit iterate exit
                    end))
      | WordBoundary inv =>
          lift (do b <- word_boundary ix false h (ps_pos s); Ok (next_or_fail s (negb (Bool.eqb b inv))))
      | WordBoundaryUnicodeICase inv =>
          lift (do b <- word_boundary ix true h (ps_pos s); Ok (next_or_fail s (negb (Bool.eqb b inv))))
      | other =>
          match match1 ix prog other fwd h (ps_pos s) with
          | Some r => lift (adv_or_fail s r)
          | None => inl (PError Unreach)
          end
      end
    end.
End Pike.

(* try_at_pos: one tick per loop iteration (the hook counts exactly these), nested runs included.
   [fuel] only bounds the recursion; [budget] is the hook's step budget; [n] counts ticks. *)
Fixpoint pk_run (ix : indexer) (prog : program) (h : hay) (budget : N)
         (fuel : nat) (fwd : bool) (stack : list pstate) (n : N) : poutcome * N :=
  match fuel with
  | O => (PBudget, n)
  | S f =>
    match stack with
    | [] => (PNoMatch, n)
    | s :: rest =>
      let n1 := n + 1 in
      if budget <? n1 then (PBudget, n1) else
      (* the nested attempt's ticks are accounted by threading the counter through a reference cell:
         we run the nested attempt first when the instruction is a lookaround *)
      let is_look := match nth_error (p_insns prog) (ps_ip s) with
                     | Some (Lookahead _ _ _ _) => Some true
                     | Some (Lookbehind _ _ _ _) => Some false
                     | _ => None end in
      let '(nres, n2) :=
        match is_look with
        | Some d => pk_run ix prog h budget f d [ps_set_ip s (S (ps_ip s))] n1
        | None => (PNoMatch, n1)
        end in
      match pk_step ix prog h (fun _ _ => nres) fwd s with
      | inl o => (o, n2)
      | inr PFail => pk_run ix prog h budget f fwd rest n2
      | inr (PContinue s') => pk_run ix prog h budget f fwd (s' :: rest) n2
      | inr (PSplit cur new) => pk_run ix prog h budget f fwd (new :: cur :: rest) n2
      | inr PComplete => (PMatched s, n2)
      end
    end
  end.
