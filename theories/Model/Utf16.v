(* Utf16.v — model of the cursor of src/indexing.rs Utf16Input and Ucs2Input: next_right / next_left over a slice of
   16-bit code units.  A high surrogate followed by a low surrogate is read as one supplementary code point; any other
   unit, lone surrogates included, is read as itself.  Ucs2Input reads every unit as itself. *)
From RV Require Import Base.

Definition is_high_surrogate (u : N) : bool := (55296 <=? u) && (u <=? 56319).     (* D800..DBFF *)
Definition is_low_surrogate (u : N) : bool := (56320 <=? u) && (u <=? 57343).      (* DC00..DFFF *)
(* ((high & 0x3ff) << 10 | (low & 0x3ff)) + 0x10000 *)
Definition code_point_from_surrogates (hi lo : N) : N :=
  N.lor (N.shiftl (N.land hi 1023) 10) (N.land lo 1023) + 65536.

Definition u16_next_right (h : list N) (p : nat) : option (N * nat) :=
  match nth_error h p with
  | None => None
  | Some u1 =>
      if negb (is_high_surrogate u1) then Some (u1, S p)
      else match nth_error h (S p) with
           | None => Some (u1, S p)
           | Some u2 => if is_low_surrogate u2 then Some (code_point_from_surrogates u1 u2, S (S p)) else Some (u1, S p)
           end
  end.

Definition u16_next_left (h : list N) (p : nat) : option (N * nat) :=
  match p with
  | O => None
  | S q =>
      match nth_error h q with
      | None => None
      | Some u2 =>
          if (q =? 0)%nat || negb (is_low_surrogate u2) then Some (u2, q)
          else match nth_error h (q - 1) with
               | None => Some (u2, q)
               | Some u1 => if is_high_surrogate u1 then Some (code_point_from_surrogates u1 u2, (q - 1)%nat) else Some (u2, q)
               end
      end
  end.

Definition ucs2_next_right (h : list N) (p : nat) : option (N * nat) :=
  match nth_error h p with None => None | Some u => Some (u, S p) end.
Definition ucs2_next_left (h : list N) (p : nat) : option (N * nat) :=
  match p with O => None | S q => match nth_error h q with None => None | Some u => Some (u, q) end end.

(* the UTF-16 encoding of a code point (ECMAScript's CodePointToUTF16CodeUnits; a surrogate code point is one unit) *)
Definition utf16_encode (c : N) : list N :=
  if c <? 65536 then [c] else [55296 + (c - 65536) / 1024; 56320 + (c - 65536) mod 1024].
