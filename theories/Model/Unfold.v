(* Unfold.v — model of src/unicode.rs unfold_char / unfold_uppercase_char / expand_code_point /
   fold_interval / unfold_interval / add_icase_code_points, and src/literal.rs lower_code_point_sequence. *)
From RV Require Import Base.
From RV.Gen Require Import FoldTables.
From RV.Model Require Import Utf8 CodePointSet Fold IR Optimizer.

(* sort_unstable + dedup *)
Fixpoint insert_sorted (x : N) (l : list N) : list N :=
  match l with
  | [] => [x]
  | y :: t => if x <? y then x :: l else if x =? y then l else y :: insert_sorted x t
  end.
Definition sort_dedup (l : list N) : list N := fold_left (fun acc x => insert_sorted x acc) l [].

Definition fr_to_first (r : N * N * Z * N) : N := Z.to_N (Z.of_N (fr_first r) + fr_delta r).
Definition fr_to_last (r : N * N * Z * N) : N := Z.to_N (Z.of_N (fr_last r) + fr_delta r).
Definition fr_len (r : N * N * Z * N) : nat := N.to_nat (fr_last r - fr_first r + 1).

Definition unfold_with (table : list (N * N * Z * N)) (c : N) : list N :=
  let fcp := table_lookup table c in
  let base := c :: (if fcp =? c then [] else [fcp]) in
  let extra :=
    flat_map (fun tr =>
      if (fr_to_first tr <=? fcp) && (fcp <=? fr_to_last tr)
      then filter (fun cp => fr_apply tr cp =? fcp) (n_range (fr_first tr) (fr_len tr))
      else []) table in
  sort_dedup (base ++ extra).

Definition unfold_char (c : N) : list N := unfold_with FOLDS c.
Definition unfold_uppercase_char (c : N) : list N := unfold_with TO_UPPERCASE c.

Definition expand_code_point (c : N) (icase unicode : bool) : list N :=
  if negb icase then [c] else if unicode then unfold_char c else unfold_uppercase_char c.

(* fold_interval: add the images of the characters of [first,last] that change under folding *)
Fixpoint step_range (cu : N) (step : N) (last : N) (fuel : nat) : list N :=
  match fuel with
  | O => []
  | S k => if cu <=? last then cu :: step_range (cu + step) step last k else []
  end.

Definition fold_interval_in (table : list (N * N * Z * N)) (i : iv) (recv : cps) : cps :=
  fold_left (fun acc fr =>
    if (fr_last fr <? fst i) || (snd i <? fr_first fr) then acc else
    let first_trans := N.max (fr_first fr) (fst i) in
    let last_trans := N.min (fr_last fr) (snd i) in
    let modulo := fr_mask fr + 1 in
    let add_delta cu := Z.to_N (Z.of_N cu + fr_delta fr) in
    if modulo =? 1 then
      fold_left (fun a cu => let cs := add_delta cu in if cs =? cu then a else cps_add_one a cs)
                (step_range first_trans 1 last_trans (S (N.to_nat (last_trans - first_trans)))) acc
    else
      let offset_start := first_trans - fr_first fr in
      let start_aligned := first_trans + ((modulo - (offset_start mod modulo)) mod modulo) in
      fold_left (fun a cu => cps_add_one a (add_delta cu))
                (step_range start_aligned modulo last_trans (S (N.to_nat (last_trans - first_trans)))) acc)
    table recv.

Definition unfold_interval_in (table : list (N * N * Z * N)) (i : iv) (recv : cps) : cps :=
  fold_left (fun acc tr =>
    if negb (iv_overlaps i (fr_to_first tr, fr_to_last tr)) then acc else
    let modulo := fr_mask tr + 1 in
    fold_left (fun a cp => let tcp := fr_apply tr cp in
                           if negb (tcp =? cp) && iv_contains i tcp then cps_add_one a cp else a)
              (step_range (fr_first tr) modulo (fr_last tr) (fr_len tr)) acc)
    table recv.

(* add_icase_code_points_for: FOLDS in Unicode mode, TO_UPPERCASE in legacy mode *)
Definition add_icase_code_points_for (input : cps) (unicode : bool) : cps :=
  let table := if unicode then FOLDS else TO_UPPERCASE in
  let folded := fold_left (fun acc i => fold_interval_in table i acc) input input in
  fold_left (fun acc i => unfold_interval_in table i acc) folded folded.
Definition add_icase_code_points (input : cps) : cps := add_icase_code_points_for input true.

(* literal.rs *)
Inductive piece := PChar (c : N) | PByteSequence (bs : list N) | PByteSet (bs : list N) | PCharSet (cs : list N).

Definition node_of_piece (p : piece) : node :=
  match p with
  | PChar c => NChar c | PByteSequence b => NByteSequence b | PByteSet b => NByteSet b | PCharSet c => NCharSet c
  end.

(* pieces are accumulated in reverse; the head is the last piece *)
Fixpoint lower_go (cps_ : list N) (icase unicode : bool) (acc : list piece) : option (list piece) :=
  match cps_ with
  | [] => Some (rev acc)
  | cp :: t =>
      let chars := expand_code_point cp icase unicode in
      match chars with
      | [] => None                                            (* panic: should unfold to at least itself *)
      | [c] =>
          if is_scalar c then
            match acc with
            | PByteSequence prev :: acc' => lower_go t icase unicode (PByteSequence (prev ++ utf8_encode c) :: acc')
            | _ => lower_go t icase unicode (PByteSequence (utf8_encode c) :: acc)
            end
          else lower_go t icase unicode (PChar c :: acc)
      | _ =>
          if (4 <? length chars)%nat then None                (* panic: exceeded maximum expansion *)
          else if forallb (fun c => c <=? 127) chars
               then lower_go t icase unicode (PByteSet chars :: acc)
               else lower_go t icase unicode (PCharSet chars :: acc)
      end
  end.
Definition lower_code_point_sequence (cps_ : list N) (icase unicode : bool) : option (list piece) :=
  lower_go cps_ icase unicode [].
