(* Props.v — model of src/unicode.rs unicode_property_name_from_str / unicode_property_from_str over the
   generated name maps (Gen/PropTables.v). *)
From Coq Require Import String.
From RV Require Import Base.
From RV.Gen Require Import PropTables.
Local Open Scope string_scope.

Inductive prop_kind := KGeneralCategory | KScript | KScriptExtensions.

Definition property_name_from_str (s : string) : option prop_kind :=
  if String.eqb s "General_Category" || String.eqb s "gc" then Some KGeneralCategory
  else if String.eqb s "Script" || String.eqb s "sc" then Some KScript
  else if String.eqb s "Script_Extensions" || String.eqb s "scx" then Some KScriptExtensions
  else None.

Fixpoint assoc_s {A} (k : string) (l : list (string * A)) : option A :=
  match l with [] => None | (k', v) :: t => if String.eqb k k' then Some v else assoc_s k t end.

Inductive prop_result := PRClass (t : list (N * N)) | PRStrings (l : list (list N)).

(* unicode_property_from_str(s, name, unicode_sets) with name already resolved *)
Definition property_from_str (s : string) (name : option prop_kind) (unicode_sets : bool) : option prop_result :=
  match name with
  | Some KGeneralCategory => option_map PRClass (assoc_s s gc_names)
  | Some KScript => option_map PRClass (assoc_s s sc_names)
  | Some KScriptExtensions => option_map PRClass (assoc_s s scx_names)
  | None =>
      match assoc_s s binary_names with
      | Some t => Some (PRClass t)
      | None =>
          match (if unicode_sets then assoc_s s string_names else None) with
          | Some l => Some (PRStrings l)
          | None => option_map PRClass (assoc_s s gc_names)
          end
      end
  end.

(* the whole lookup as the parser performs it for \p{name=value} / \p{value} *)
Definition property_lookup (name : option string) (value : string) (unicode_sets : bool) : option prop_result :=
  match name with
  | Some n => match property_name_from_str n with
              | Some k => property_from_str value (Some k) unicode_sets
              | None => None
              end
  | None => property_from_str value None unicode_sets
  end.
