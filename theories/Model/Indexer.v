(* Indexer.v — model of src/indexing.rs (Utf8Input, AsciiInput), src/cursor.rs, and the
   element-level helpers of src/matchers.rs.  Positions are byte offsets (nat); out-of-range
   accesses, unchecked-unreachable sites and arithmetic underflow are explicit [Err] outcomes,
   never totalised away. *)
From RV Require Import Base.
From RV.Model Require Import Utf8.

Inductive err := Oob | Unreach | Panic.
Inductive R (A : Type) := Err (e : err) | Ok (a : A).
Arguments Err {A} e.
Arguments Ok {A} a.

Definition bindR {A B} (r : R A) (f : A -> R B) : R B :=
  match r with Err e => Err e | Ok a => f a end.
Notation "'do' x <- r ; k" := (bindR r (fun x => k)) (at level 200, x pattern, r at level 100, k at level 200).

Definition hay := list N.

Definition getb (h : hay) (p : nat) : R N :=
  match nth_error h p with Some b => Ok b | None => Err Oob end.

(* A position p minus k, with the Rust-side underflow made explicit. *)
Definition psub (p k : nat) : R nat := if (k <=? p)%nat then Ok (p - k)%nat else Err Oob.

Definition decoded (cp : N) (p : nat) : R (option (N * nat)) :=
  if is_scalar cp then Ok (Some (cp, p)) else Err Unreach.

(* ---- Utf8Input ---- *)
Definition u8_next_right (h : hay) (p : nat) : R (option (N * nat)) :=
  if (p =? length h)%nat then Ok None else
  do b0 <- getb h p;
  if b0 <? 128 then Ok (Some (b0, S p)) else
  match utf8_seq_len b0 with
  | 2%nat => do b1 <- getb h (p + 1); decoded (utf8_w2 b0 b1) (p + 2)
  | 3%nat => do b1 <- getb h (p + 1); do b2 <- getb h (p + 2); decoded (utf8_w3 b0 b1 b2) (p + 3)
  | 4%nat => do b1 <- getb h (p + 1); do b2 <- getb h (p + 2); do b3 <- getb h (p + 3);
             decoded (utf8_w4 b0 b1 b2 b3) (p + 4)
  | _ => Err Unreach
  end.

Definition u8_next_right_pos (h : hay) (p : nat) : R (option nat) :=
  if (p =? length h)%nat then Ok None else
  do b0 <- getb h p;
  if b0 <? 128 then Ok (Some (S p)) else Ok (Some (p + utf8_seq_len b0)%nat).

Definition u8_next_left (h : hay) (p : nat) : R (option (N * nat)) :=
  if (p =? 0)%nat then Ok None else
  do pz <- psub p 1; do z <- getb h pz;
  if z <? 128 then Ok (Some (z, pz)) else
  do py <- psub p 2; do y <- getb h py;
  if negb (is_utf8_continuation y) then decoded (utf8_w2 y z) py else
  do px <- psub p 3; do x <- getb h px;
  if negb (is_utf8_continuation x) then decoded (utf8_w3 x y z) px else
  do pw <- psub p 4; do w <- getb h pw;
  decoded (utf8_w4 w x y z) pw.

Definition u8_next_left_pos (h : hay) (p : nat) : R (option nat) :=
  if (p =? 0)%nat then Ok None else
  do pz <- psub p 1; do z <- getb h pz;
  if z <? 128 then Ok (Some pz) else
  do py <- psub p 2; do y <- getb h py;
  if negb (is_utf8_continuation y) then Ok (Some py) else
  do px <- psub p 3; do x <- getb h px;
  if negb (is_utf8_continuation x) then Ok (Some px) else
  do pw <- psub p 4; Ok (Some pw).

(* ---- AsciiInput ---- *)
Definition as_next_right (h : hay) (p : nat) : R (option (N * nat)) :=
  if (p =? length h)%nat then Ok None else
  do b <- getb h p; Ok (Some (b, S p)).

Definition as_next_left (h : hay) (p : nat) : R (option (N * nat)) :=
  if (p =? 0)%nat then Ok None else
  do q <- psub p 1; do b <- getb h q; Ok (Some (b, q)).

(* try_move_right / try_move_left (identical for both byte inputs). *)
Definition try_move_right (h : hay) (p amt : nat) : R (option nat) :=
  do room <- (if (p <=? length h)%nat then Ok (length h - p)%nat else Err Oob);
  if (room <? amt)%nat then Ok None else Ok (Some (p + amt)%nat).

Definition try_move_left (h : hay) (p amt : nat) : R (option nat) :=
  if (p <? amt)%nat then Ok None else Ok (Some (p - amt)%nat).

Definition as_next_right_pos (h : hay) (p : nat) : R (option nat) := try_move_right h p 1.
Definition as_next_left_pos (h : hay) (p : nat) : R (option nat) := try_move_left h p 1.

(* peek_byte_right / peek_byte_left: for both inputs, the byte at p / p-1 or None at the end. *)
Definition peek_byte_right (h : hay) (p : nat) : R (option N) :=
  if (p =? length h)%nat then Ok None else do b <- getb h p; Ok (Some b).
Definition peek_byte_left (h : hay) (p : nat) : R (option N) :=
  if (p =? 0)%nat then Ok None else do q <- psub p 1; do b <- getb h q; Ok (Some b).

(* cursor::next_byte *)
Definition next_byte (fwd : bool) (h : hay) (p : nat) : R (option (N * nat)) :=
  if fwd then do r <- peek_byte_right h p;
              Ok (match r with Some b => Some (b, S p) | None => None end)
  else do r <- peek_byte_left h p;
       Ok (match r with Some b => Some (b, (p - 1)%nat) | None => None end).

(* match_bytes: compare a literal against the bytes ahead of (behind) p. *)
Definition bytes_eqb : list N -> list N -> bool := list_eqb N.eqb.

Definition match_bytes (fwd : bool) (h : hay) (p : nat) (bs : list N) : R (option nat) :=
  let len := length bs in
  if fwd then
    do r <- try_move_right h p len;
    match r with
    | None => Ok None
    | Some e => Ok (if bytes_eqb bs (slice h p e) then Some e else None)
    end
  else
    do r <- try_move_left h p len;
    match r with
    | None => Ok None
    | Some s => Ok (if bytes_eqb bs (slice h s p) then Some s else None)
    end.

(* subrange_eq: compare h[rs,re) with the same number of bytes ahead of (behind) p. *)
Definition subrange_eq (fwd : bool) (h : hay) (p rs re : nat) : R (option nat) :=
  if (re <? rs)%nat then Err Oob else
  if (length h <? re)%nat then Err Oob else
  let len := (re - rs)%nat in
  if fwd then
    do r <- try_move_right h p len;
    match r with
    | None => Ok None
    | Some e => Ok (if bytes_eqb (slice h p e) (slice h rs re) then Some e else None)
    end
  else
    do r <- try_move_left h p len;
    match r with
    | None => Ok None
    | Some s => Ok (if bytes_eqb (slice h s p) (slice h rs re) then Some s else None)
    end.

(* The indexer interface the machines are parametric in. *)
Record indexer := {
  ix_next_right : hay -> nat -> R (option (N * nat));
  ix_next_left : hay -> nat -> R (option (N * nat));
  ix_next_right_pos : hay -> nat -> R (option nat);
  ix_next_left_pos : hay -> nat -> R (option nat);
  (* ElementType::try_from::<u32>: can this pattern code point be an element at all? *)
  ix_elem_of_u32 : N -> bool;
  (* CharProperties::fold (unicode flag first). *)
  ix_fold : bool -> N -> N;
}.

Section Folds.
  (* unicode::fold_code_point, supplied by the table model (Gen/Tables + Model/Fold). *)
  Variable fold_code_point : N -> bool -> N.

  Definition u8_fold (unicode : bool) (c : N) : N :=
    let f := fold_code_point c unicode in if is_scalar f then f else c.

  (* u8::to_ascii_lowercase / to_ascii_uppercase *)
  Definition ascii_lower (c : N) : N := if (65 <=? c) && (c <=? 90) then c + 32 else c.
  Definition ascii_upper (c : N) : N := if (97 <=? c) && (c <=? 122) then c - 32 else c.
  Definition as_fold (unicode : bool) (c : N) : N := if unicode then ascii_lower c else ascii_upper c.

  Definition utf8_indexer : indexer := {|
    ix_next_right := u8_next_right; ix_next_left := u8_next_left;
    ix_next_right_pos := u8_next_right_pos; ix_next_left_pos := u8_next_left_pos;
    ix_elem_of_u32 := is_scalar; ix_fold := u8_fold |}.

  Definition ascii_indexer : indexer := {|
    ix_next_right := as_next_right; ix_next_left := as_next_left;
    ix_next_right_pos := as_next_right_pos; ix_next_left_pos := as_next_left_pos;
    ix_elem_of_u32 := fun c => c <? 256; ix_fold := as_fold |}.
End Folds.

(* the positions a search visits from p (stepping right at most [fuel] times) all lie within the haystack:
   true of valid UTF-8 from a character boundary, and of any byte sequence in ASCII mode; a boolean the
   driver evaluates on every haystack and start *)
Fixpoint walk_ok (ix : indexer) (h : hay) (fuel : nat) (p : nat) : bool :=
  match fuel with
  | O => true
  | S f => (p <=? length h)%nat &&
           match ix_next_right_pos ix h p with
           | Ok (Some p') => walk_ok ix h f p'
           | _ => true
           end
  end.

Section Cursor.
  Variable ix : indexer.
  (* cursor::next *)
  Definition cnext (fwd : bool) (h : hay) (p : nat) : R (option (N * nat)) :=
    if fwd then ix_next_right ix h p else ix_next_left ix h p.
  Definition peek_right (h : hay) (p : nat) : R (option N) :=
    do r <- ix_next_right ix h p; Ok (option_map fst r).
  Definition peek_left (h : hay) (p : nat) : R (option N) :=
    do r <- ix_next_left ix h p; Ok (option_map fst r).
  (* InputIndexer::fold_equals *)
  Definition fold_equals (unicode : bool) (c1 c2 : N) : bool :=
    (c1 =? c2) || (ix_fold ix unicode c1 =? ix_fold ix unicode c2).
End Cursor.

(* matchers.rs: CharProperties *)
Definition is_word_char (c : N) : bool :=
  ((97 <=? c) && (c <=? 122)) || ((65 <=? c) && (c <=? 90)) || ((48 <=? c) && (c <=? 57)) || (c =? 95).
Definition is_line_terminator (c : N) : bool :=
  (c =? 10) || (c =? 13) || (c =? 8232) || (c =? 8233).
