(* Api.v — model of src/api.rs: Match accessors (group, named_group, named_groups, groups),
   Regex::replace / replace_all / replace_with / replace_all_with, expand_replacement, escape.
   Text is a list of bytes; templates and patterns are lists of code points; names are byte lists
   (the UTF-8 of the Box<str>), "" being the sentinel for an unnamed group. *)
From RV Require Import Base.
From RV.Model Require Import Utf8.

Definition range := (nat * nat)%type.
Record amatch := mkAM {
  am_range : range;
  am_caps : list (option range);
  am_names : list (list N);          (* empty, or one entry per capture ("" = unnamed) *)
}.

Definition name_eqb : list N -> list N -> bool := list_eqb N.eqb.

(* Match::group *)
Definition group (m : amatch) (idx : nat) : option range :=
  match idx with
  | O => Some (am_range m)
  | S i => match nth_error (am_caps m) i with Some c => c | None => None end
  end.

(* position of the first element satisfying p *)
Fixpoint position {A} (p : A -> bool) (l : list A) : option nat :=
  match l with
  | [] => None
  | x :: t => if p x then Some O else option_map S (position p t)
  end.

Inductive ares (A : Type) := APanic | AOk (a : A).
Arguments APanic {A}.
Arguments AOk {A} a.

(* Match::named_group: the first *participating* group carrying the name (zip of names and captures,
   filter by name, find_map on the capture). *)
Fixpoint named_group_go (name : list N) (names : list (list N)) (caps : list (option range))
  : option range :=
  match names, caps with
  | n :: ns, c :: cs =>
      if name_eqb n name then (match c with Some r => Some r | None => named_group_go name ns cs end)
      else named_group_go name ns cs
  | _, _ => None
  end.
Definition named_group (m : amatch) (name : list N) : ares (option range) :=
  match name with
  | [] => AOk None
  | _ => AOk (named_group_go name (am_names m) (am_caps m))
  end.

(* NamedGroups iterator, collected: first occurrence of each non-empty name, with the first Some value
   among the groups of that name (or the first group's None). *)
Fixpoint best_range (name : list N) (first : option range) (names : list (list N)) (caps : list (option range))
  : option range :=
  match first with
  | Some _ => first
  | None =>
    match names, caps with
    | n :: ns, c :: cs =>
        if name_eqb n name then (match c with Some _ => c | None => best_range name None ns cs end)
        else best_range name None ns cs
    | _, _ => None
    end
  end.

Fixpoint named_groups_go (seen : list (list N)) (names : list (list N)) (caps : list (option range))
  : list (list N * option range) :=
  match names, caps with
  | n :: ns, c :: cs =>
      if name_eqb n [] then named_groups_go (seen ++ [n]) ns cs
      else if existsb (name_eqb n) seen then named_groups_go (seen ++ [n]) ns cs
      else (n, best_range n c ns cs) :: named_groups_go (seen ++ [n]) ns cs
  | _, _ => []
  end.
Definition named_groups (m : amatch) : list (list N * option range) :=
  named_groups_go [] (am_names m) (am_caps m).

(* Groups iterator, collected *)
Definition groups (m : amatch) : list (option range) :=
  map (group m) (seq 0 (S (length (am_caps m)))).

(* ---- expand_replacement ---- *)
Definition is_digit (c : N) : bool := (48 <=? c) && (c <=? 57).
Definition MAX_CAPTURE_GROUPS : N := 65535.

(* the digit run after '$': consumes digits while the number stays <= 65535 (the digit that pushes it
   over is still consumed); returns (group number, rest) *)
Fixpoint parse_group_num (acc : N) (t : list N) : N * list N :=
  match t with
  | d :: t' =>
      if is_digit d then
        let acc' := acc * 10 + (d - 48) in
        if MAX_CAPTURE_GROUPS <? acc' then (acc', t') else parse_group_num acc' t'
      else (acc, t)
  | [] => (acc, [])
  end.

(* split at the first '}' : (name, rest after brace) or None if there is no closing brace *)
Fixpoint split_brace (t : list N) : option (list N * list N) :=
  match t with
  | [] => None
  | c :: t' => if c =? 125 then Some ([], t')
               else match split_brace t' with Some (n, r) => Some (c :: n, r) | None => None end
  end.

Definition text_slice (text : list N) (r : range) : list N := slice text (fst r) (snd r).
Definition encode_str (cps : list N) : list N := flat_map utf8_encode cps.

Fixpoint expand (fuel : nat) (m : amatch) (text : list N) (t : list N) : ares (list N) :=
  match fuel with
  | O => AOk []
  | S f =>
    match t with
    | [] => AOk []
    | ch :: rest =>
      let cons_out (pre : list N) (k : ares (list N)) :=
        match k with APanic => APanic | AOk o => AOk (pre ++ o) end in
      if ch =? 36 then                                   (* '$' *)
        match rest with
        | c2 :: rest2 =>
          if c2 =? 36 then cons_out [36] (expand f m text rest2)
          else if is_digit c2 then
            let '(num, rest3) := parse_group_num 0 rest in
            cons_out (match group m (N.to_nat num) with Some r => text_slice text r | None => [] end)
                     (expand f m text rest3)
          else if c2 =? 123 then                          (* '{' *)
            match split_brace rest2 with
            | Some (name, rest3) =>
                match named_group m (encode_str name) with
                | APanic => APanic
                | AOk (Some r) => cons_out (text_slice text r) (expand f m text rest3)
                | AOk None => expand f m text rest3
                end
            | None => AOk ([36; 123] ++ encode_str rest2)
            end
          else cons_out [36] (expand f m text rest)
        | [] => AOk [36]
        end
      else cons_out (utf8_encode ch) (expand f m text rest)
    end
  end.
Definition expand_replacement (m : amatch) (text t : list N) : ares (list N) :=
  expand (S (length t)) m text t.

(* ---- replace / replace_all over a given match sequence ---- *)
(* &text[a..b] panics when a > b or b > len *)
Definition checked_slice (text : list N) (a b : nat) : ares (list N) :=
  if (b <? a)%nat || (length text <? b)%nat then APanic else AOk (slice text a b).

Fixpoint replace_all_go (text : list N) (ms : list amatch) (f : amatch -> ares (list N)) (last_end : nat)
  : ares (list N) :=
  match ms with
  | [] => checked_slice text last_end (length text)
  | m :: ms' =>
    match checked_slice text last_end (fst (am_range m)) with
    | APanic => APanic
    | AOk pre =>
      match f m with
      | APanic => APanic
      | AOk r =>
        match replace_all_go text ms' f (snd (am_range m)) with
        | APanic => APanic
        | AOk post => AOk (pre ++ r ++ post)
        end
      end
    end
  end.

Definition replace_all_with (text : list N) (ms : list amatch) (f : amatch -> ares (list N)) : ares (list N) :=
  replace_all_go text ms f 0.
Definition replace_all (text : list N) (ms : list amatch) (template : list N) : ares (list N) :=
  replace_all_with text ms (fun m => expand_replacement m text template).

(* replace: only the first match *)
Definition replace_with (text : list N) (ms : list amatch) (f : amatch -> ares (list N)) : ares (list N) :=
  match ms with
  | [] => AOk text
  | m :: _ =>
    match checked_slice text 0 (fst (am_range m)), f m, checked_slice text (snd (am_range m)) (length text) with
    | AOk a, AOk r, AOk b => AOk (a ++ r ++ b)
    | _, _, _ => APanic
    end
  end.
Definition replace (text : list N) (ms : list amatch) (template : list N) : ares (list N) :=
  replace_with text ms (fun m => expand_replacement m text template).

(* ---- escape ---- *)
Definition is_special (c : N) : bool :=
  existsb (N.eqb c) [92; 94; 36; 46; 124; 63; 42; 43; 40; 41; 91; 93; 123; 125].
Definition escape (s : list N) : list N :=
  flat_map (fun c => if is_special c then [92; c] else [c]) s.
