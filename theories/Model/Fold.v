(* Fold.v — model of src/unicode.rs FoldRange / fold / uppercase / fold_code_point over the generated
   tables.  The Rust code binary-searches the table for the range containing the code point; the
   model takes the first containing range, which is the same thing on a sorted disjoint table
   (Proofs/FoldTablesWf proves the tables are sorted and disjoint). *)
From RV Require Import Base.
From RV.Gen Require Import FoldTables.

Definition fr_first (r : N * N * Z * N) : N := let '(s, _, _, _) := r in s.
Definition fr_last (r : N * N * Z * N) : N := let '(s, l, _, _) := r in s + l - 1.
Definition fr_delta (r : N * N * Z * N) : Z := let '(_, _, d, _) := r in d.
Definition fr_mask (r : N * N * Z * N) : N := let '(_, _, _, m) := r in m - 1.

(* FoldRange::apply *)
Definition fr_apply (r : N * N * Z * N) (cu : N) : N :=
  if N.land (cu - fr_first r) (fr_mask r) =? 0 then Z.to_N (Z.of_N cu + fr_delta r) else cu.

Definition table_lookup (t : list (N * N * Z * N)) (cu : N) : N :=
  match find (fun r => (fr_first r <=? cu) && (cu <=? fr_last r)) t with
  | Some r => fr_apply r cu
  | None => cu
  end.

Definition fold (cu : N) : N := table_lookup FOLDS cu.
Definition uppercase (cu : N) : N := table_lookup TO_UPPERCASE cu.
Definition fold_code_point (cu : N) (unicode : bool) : N := if unicode then fold cu else uppercase cu.
