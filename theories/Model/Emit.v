(* Emit.v — model of src/emit.rs (IR -> CompiledRegex) and src/startpredicate.rs.
   The Rust emitter drives an explicit work stack; it visits nodes in depth-first left-to-right order
   and patches jump targets afterwards, which is the compositional recursion written here. *)
From RV Require Import Base.
From RV.Model Require Import Utf8 Indexer CodePointSet Insn Fold IR Optimizer Unfold.

Record estate := mkES {
  es_brackets : list bracket;       (* in index order *)
  es_next_loop : nat;
  es_groups : nat;
  es_names : list (list N);         (* indexed by group id; [] = unnamed *)
}.

(* bracket_as_ascii *)
Definition ascii_bitmap_of (ivs : cps) : list N :=
  map (fun k => fold_left (fun acc b => if cps_contains ivs (8 * k + b) then acc + N.shiftl 1 b else acc)
                          [0; 1; 2; 3; 4; 5; 6; 7] 0)
      [0; 1; 2; 3; 4; 5; 6; 7; 8; 9; 10; 11; 12; 13; 14; 15].
Definition bracket_as_ascii (b : bracket) : option (list N) :=
  if br_invert b then None
  else if forallb (fun i => snd i <? 128) (br_ivs b) then Some (ascii_bitmap_of (br_ivs b)) else None.

Fixpoint chunks16 (fuel : nat) (bs : list N) : list (list N) :=
  match fuel with
  | O => []
  | S k => match bs with [] => [] | _ => firstn 16 bs :: chunks16 k (skipn 16 bs) end
  end.

Definition emit_byte_set (bs : list N) : R (list insn) :=
  match length bs with
  | 0%nat => Ok [JustFail]
  | 1%nat => Ok [ByteSeq bs]
  | 2%nat | 3%nat | 4%nat => Ok [ByteSet bs]
  | _ => Err Panic
  end.

Definition emit_char_set (cs : list N) : R (list insn) :=
  match cs with
  | [] => Ok [JustFail]
  | c0 :: _ => if (4 <? length cs)%nat then Err Panic
               else Ok [CharSet (cs ++ repeat c0 (4 - length cs))]
  end.

Definition emit_byte_sequence (lb : bool) (bs : list N) : list insn :=
  let ch := chunks16 (S (length bs)) bs in
  map ByteSeq (if lb then rev ch else ch).

(* group_names[id] = name: the table is indexed by the group id, whatever order the groups are emitted in
   (the contents of a lookbehind are emitted right to left) *)
Definition set_name (id : nat) (nm : list N) (names : list (list N)) : list (list N) :=
  set_nth id nm (names ++ repeat [] (S id - length names)).

Section Emit.
  Variable utf16_feature : bool.
  Variable unicode : bool.          (* flags.unicode *)

  (* a leaf node produced by piece lowering *)
  Definition emit_piece_node (lb : bool) (n : node) : R (list insn) :=
    match n with
    | NChar c => Ok [Char c]
    | NByteSequence bs => Ok (emit_byte_sequence lb bs)
    | NByteSet bs => emit_byte_set bs
    | NCharSet cs => emit_char_set cs
    | _ => Err Unreach
    end.

  (* emit_code_point_sequence *)
  Definition emit_cp_sequence (lb : bool) (cps_ : list N) (icase : bool) : R (list insn) :=
    if utf16_feature then
      (fun l => fold_left (fun acc cp =>
                   do a <- acc;
                   let chars := expand_code_point cp icase unicode in
                   match chars with
                   | [] => Err Panic
                   | [c] => Ok (a ++ [Char c])
                   | _ => if (4 <? length chars)%nat then Err Panic
                          else do i <- emit_char_set chars; Ok (a ++ i)
                   end) l (Ok [])) (if lb then rev cps_ else cps_)
    else
      match lower_code_point_sequence cps_ icase unicode with
      | None => Err Panic
      | Some pieces =>
          (* inside a lookbehind the pieces are emitted last to first *)
          fold_left (fun acc p => do a <- acc; do i <- emit_piece_node lb (node_of_piece p); Ok (a ++ i))
                    (if lb then rev pieces else pieces) (Ok [])
      end.

  (* emit_string_set: a right-leaning chain of Alt over the alternatives *)
  Fixpoint emit_string_set (lb : bool) (alts : list (list N)) (icase : bool) (off : nat) (endoff : nat)
    : R (list insn) :=
    match alts with
    | [] => Ok [JustFail]
    | [last] => emit_cp_sequence lb last icase
    | a :: rest =>
        do code <- emit_cp_sequence lb a icase;
        let next := (off + 2 + length code)%nat in
        do r <- emit_string_set lb rest icase next endoff;
        Ok (Alt next :: code ++ Jump endoff :: r)
    end.

  (* total length of the code of a string set, needed for the forward jump targets *)
  Fixpoint string_set_len (lb : bool) (alts : list (list N)) (icase : bool) : R nat :=
    match alts with
    | [] => Ok 1%nat
    | [last] => do c <- emit_cp_sequence lb last icase; Ok (length c)
    | a :: rest => do c <- emit_cp_sequence lb a icase; do r <- string_set_len lb rest icase;
                   Ok (2 + length c + r)%nat
    end.

  Fixpoint emit_node (n : node) (off : nat) (lb : bool) (es : estate) : R (list insn * estate) :=
    match n with
    | NEmpty => Ok ([], es)
    | NGoal => Ok ([Goal], es)
    | NChar c => Ok ([Char c], es)
    | NCat l =>
        (fix go (l : list node) (off : nat) (es : estate) : R (list insn * estate) :=
           match l with
           | [] => Ok ([], es)
           | x :: t =>
               do rx <- emit_node x off lb es;
               do rt <- go t (off + length (fst rx))%nat (snd rx);
               Ok (fst rx ++ fst rt, snd rt)
           end) l off es
    | NAlt a b =>
        do ra <- emit_node a (S off) lb es;
        let right := (off + 2 + length (fst ra))%nat in
        do rb <- emit_node b right lb (snd ra);
        let exit := (right + length (fst rb))%nat in
        Ok (Alt right :: fst ra ++ Jump exit :: fst rb, snd rb)
    | NBracket b =>
        match bracket_as_ascii b with
        | Some bm => Ok ([AsciiBracket bm], es)
        | None => Ok ([Bracket (length (es_brackets es))],
                      mkES (es_brackets es ++ [b]) (es_next_loop es) (es_groups es) (es_names es))
        end
    | NStringSet alts icase =>
        do len <- string_set_len lb alts icase;
        do code <- emit_string_set lb alts icase off (off + len)%nat;
        Ok (code, es)
    | NMatchAny => Ok ([MatchAny], es)
    | NMatchAnyExceptLT => Ok ([MatchAnyExceptLT], es)
    | NAnchor sol ml => Ok ([if sol then StartOfLine ml else EndOfLine ml], es)
    | NLoop body mn mx g egs ege =>
        let lid := es_next_loop es in
        let es1 := mkES (es_brackets es) (S lid) (es_groups es) (es_names es) in
        let resets := map ResetCG (seq egs (ege - egs)) in
        do rb <- emit_node body (off + 1 + length resets)%nat lb es1;
        let exit := (off + 1 + length resets + length (fst rb) + 1)%nat in
        Ok (EnterLoop lid mn (match mx with Some v => v | None => USIZE_MAX end) g exit
              :: resets ++ fst rb ++ [LoopAgain off], snd rb)
    | NLoop1CharBody body mn mx g =>
        do rb <- emit_node body (S off) lb es;
        Ok (Loop1CharBody mn (match mx with Some v => v | None => USIZE_MAX end) g :: fst rb, snd rb)
    | NCaptureGroup id c nm =>
        let es1 := mkES (es_brackets es) (es_next_loop es) (S (es_groups es))
                        (set_name id (match nm with Some s => s | None => [] end) (es_names es)) in
        do rc <- emit_node c (S off) lb es1;
        Ok (BeginCG id :: fst rc ++ [EndCG id], snd rc)
    | NLookaround ng bw sg eg c =>
        do rc <- emit_node c (S off) bw es;
        let cont := (off + 1 + length (fst rc) + 1)%nat in
        Ok ((if bw then Lookbehind ng sg eg cont else Lookahead ng sg eg cont) :: fst rc ++ [Goal], snd rc)
    | NWordBoundary inv ui => Ok ([if ui then WordBoundaryUnicodeICase inv else WordBoundary inv], es)
    | NBackRef g ic =>
        if g =? 0 then Err Panic else Ok ([BackRef (N.to_nat (g - 1)) ic], es)
    | NByteSet bs => do i <- emit_byte_set bs; Ok (i, es)
    | NCharSet cs => do i <- emit_char_set cs; Ok (i, es)
    | NByteSequence bs => Ok (emit_byte_sequence lb bs, es)
    end.
End Emit.

(* ---------------- startpredicate.rs ---------------- *)
Fixpoint is_start_anchored (n : node) : bool :=
  match n with
  | NAnchor true ml => negb ml
  | NCat (x :: _) => is_start_anchored x
  | NCaptureGroup _ c _ => is_start_anchored c
  | NAlt a b => is_start_anchored a && is_start_anchored b
  | _ => false
  end.

Inductive asp := AArbitrary | ASequence (bs : list N) | ASet (members : list N).   (* members sorted, unique *)

Definition bitmap_set (ms : list N) (b : N) : list N := insert_sorted b ms.
Definition bitmap_of (bs : list N) : list N := fold_left bitmap_set bs [].

(* add_utf8_first_bytes_to_bitmap *)
Definition add_first_bytes (i : iv) (bm : list N) : list N :=
  let '(first, last) := i in
  fold_left (fun acc r =>
               let '(f, l) := r in
               if f <=? l then
                 fold_left bitmap_set
                           (n_range (utf8_first_byte f) (S (N.to_nat (utf8_first_byte l - utf8_first_byte f)))) acc
               else acc)
            [(first, N.min last 127); (N.max first 128, N.min last 2047);
             (N.max first 2048, N.min last 65535); (N.max first 65536, last)] bm.

Fixpoint shared_prefix (a b : list N) : list N :=
  match a, b with
  | x :: a', y :: b' => if x =? y then x :: shared_prefix a' b' else []
  | _, _ => []
  end.

Definition asp_disjunction (x y : asp) : R asp :=
  match x, y with
  | AArbitrary, _ | _, AArbitrary => Ok AArbitrary
  | ASequence s1, ASequence s2 =>
      match shared_prefix s1 s2 with
      | [] => match s1, s2 with
              | a :: _, b :: _ => Ok (ASet (bitmap_of [a; b]))
              | _, _ => Err Panic                       (* s1[0] / s2[0] on an empty sequence *)
              end
      | p => Ok (ASequence p)
      end
  | ASet s1, ASet s2 => Ok (ASet (fold_left bitmap_set s2 s1))
  | ASet s1, ASequence s2 => match s2 with b :: _ => Ok (ASet (bitmap_set s1 b)) | [] => Err Panic end
  | ASequence s1, ASet s2 => match s1 with b :: _ => Ok (ASet (bitmap_set s2 b)) | [] => Err Panic end
  end.

Fixpoint compute_start_predicate (n : node) : R (option asp) :=
  match n with
  | NByteSequence bs => Ok (Some (ASequence bs))
  | NByteSet bs => Ok (Some (ASet (bitmap_of bs)))
  | NCharSet cs => Ok (Some (ASet (bitmap_of (map utf8_first_byte cs))))
  | NCat l =>
      (fix go (l : list node) : R (option asp) :=
         match l with
         | [] => Ok None
         | x :: t => do r <- compute_start_predicate x;
                     match r with Some p => Ok (Some p) | None => go t end
         end) l
  | NCaptureGroup _ c _ => compute_start_predicate c
  | NLookaround _ _ _ _ _ => Ok None
  | NLoop body mn _ _ _ _ => if 0 <? mn then compute_start_predicate body else Ok (Some AArbitrary)
  | NLoop1CharBody body mn _ _ => if 0 <? mn then compute_start_predicate body else Ok (Some AArbitrary)
  | NAlt a b =>
      do ra <- compute_start_predicate a; do rb <- compute_start_predicate b;
      match ra, rb with
      | Some x, Some y => do d <- asp_disjunction x y; Ok (Some d)
      | _, _ => Ok (Some AArbitrary)
      end
  | NBracket b =>
      let s := if br_invert b then cps_inverted (br_ivs b) else br_ivs b in
      Ok (Some (ASet (fold_left (fun acc i => add_first_bytes i acc) s [])))
  | _ => Ok (Some AArbitrary)
  end.

Definition resolve_to_insn (p : asp) : startpred :=
  match p with
  | AArbitrary => SPArbitrary
  | ASequence [] => SPArbitrary
  | ASequence [b] => SPByteSet [b]
  | ASequence bs => SPByteSeq bs
  | ASet ms => match length ms with
               | 0%nat => SPArbitrary
               | 1%nat | 2%nat | 3%nat => SPByteSet ms
               | _ => SPByteBracket ms
               end
  end.

Definition predicate_for_re (n : node) (multiline : bool) : R startpred :=
  if is_start_anchored n && negb multiline then Ok SPStartAnchored
  else do r <- compute_start_predicate n;
       Ok (resolve_to_insn (match r with Some p => p | None => AArbitrary end)).

(* emit::emit *)
Definition emit (utf16_feature unicode multiline : bool) (n : node) : R (program * list (list N)) :=
  do sp <- predicate_for_re n multiline;
  do r <- emit_node utf16_feature unicode n 0 false (mkES [] 0 0 []);
  let es := snd r in
  let names := if existsb (fun s => negb (list_is_empty s)) (es_names es) then es_names es else [] in
  Ok (mkProgram (fst r) (es_brackets es) (es_next_loop es) (es_groups es) sp unicode, names).
