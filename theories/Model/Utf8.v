(* Utf8.v — model of the UTF-8 helpers of src/util.rs and src/indexing.rs
   (utf8_seq_len, is_seq_start, is_utf8_continuation, utf8_w2/w3/w4, mask_shift).
   Bytes and code points are N. *)
From RV Require Import Base.

(* util.rs: mask_shift(b, mask, shift) = ((b & ((1<<mask)-1)) as u32) << shift *)
Definition mask_shift (b mask shift : N) : N :=
  N.shiftl (N.land b (N.shiftl 1 mask - 1)) shift.

Definition UTF8_CONT_SIGBITS : N := 6.

(* util.rs: (b & 0b1100_0000) == 0b1000_0000 *)
Definition is_utf8_continuation (b : N) : bool := N.land b 192 =? 128.

Definition utf8_w2 (b0 b1 : N) : N :=
  N.lor (mask_shift b0 5 UTF8_CONT_SIGBITS) (mask_shift b1 UTF8_CONT_SIGBITS 0).

Definition utf8_w3 (b0 b1 b2 : N) : N :=
  N.lor (N.lor (mask_shift b0 4 (2 * UTF8_CONT_SIGBITS))
               (mask_shift b1 UTF8_CONT_SIGBITS UTF8_CONT_SIGBITS))
        (mask_shift b2 UTF8_CONT_SIGBITS 0).

Definition utf8_w4 (b0 b1 b2 b3 : N) : N :=
  N.lor (N.lor (N.lor (mask_shift b0 3 (3 * UTF8_CONT_SIGBITS))
                      (mask_shift b1 UTF8_CONT_SIGBITS (2 * UTF8_CONT_SIGBITS)))
               (mask_shift b2 UTF8_CONT_SIGBITS UTF8_CONT_SIGBITS))
        (mask_shift b3 UTF8_CONT_SIGBITS 0).

(* indexing.rs: utf8_seq_len *)
Definition utf8_seq_len (b : N) : nat :=
  if b <? 128 then 1%nat
  else let h := N.land b 240 in
       if h =? 224 then 3%nat else if h =? 240 then 4%nat else 2%nat.

(* indexing.rs: is_seq_start:  (b as i8) >= -0x40, i.e. b < 128 || b >= 192 *)
Definition is_seq_start (b : N) : bool := (b <? 128) || (192 <=? b).

(* util.rs: utf8_first_byte *)
Definition utf8_first_byte (cp : N) : N :=
  if cp <? 128 then cp
  else if cp <? 2048 then N.lor (N.land (N.shiftr cp 6) 31) 192
  else if cp <? 65536 then N.lor (N.land (N.shiftr cp 12) 15) 224
  else N.lor (N.land (N.shiftr cp 18) 7) 240.

(* Reference encoder (used by specifications and generators, not a model of regress code). *)
Definition utf8_encode (cp : N) : list N :=
  if cp <? 128 then [cp]
  else if cp <? 2048 then [N.lor 192 (N.shiftr cp 6); N.lor 128 (N.land cp 63)]
  else if cp <? 65536 then
    [N.lor 224 (N.shiftr cp 12); N.lor 128 (N.land (N.shiftr cp 6) 63); N.lor 128 (N.land cp 63)]
  else
    [N.lor 240 (N.shiftr cp 18); N.lor 128 (N.land (N.shiftr cp 12) 63);
     N.lor 128 (N.land (N.shiftr cp 6) 63); N.lor 128 (N.land cp 63)].

(* char::from_u32: a Unicode scalar value. *)
Definition is_scalar (c : N) : bool :=
  (c <=? 1114111) && negb ((55296 <=? c) && (c <=? 57343)).
