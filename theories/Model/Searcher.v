(* Searcher.v — model of api.rs pattern_impl::RegexSearcher (nightly `pattern` feature): the forward
   Searcher::next state machine over find_from, and ReverseSearcher::next_back over the find_iter list. *)
From RV Require Import Base.

Inductive sstep := SMatch (a b : nat) | SReject (a b : nat) | SDone.

Record fstate := mkFS { fs_cur : nat; fs_search : option nat; fs_done : bool }.
Record rstate := mkRS { rs_pos : nat; rs_matches : list (nat * nat); rs_done : bool }.   (* matches in reverse: head = last *)

Section Searcher.
  Variable len : nat.
  Variable find_from : nat -> option (nat * nat).      (* regex.find_from(haystack, p).next() *)
  Variable next_boundary : nat -> nat.                 (* first char boundary after p *)

  Definition fs_init : fstate := mkFS 0 (Some 0%nat) false.

  Definition s_next (s : fstate) : sstep * fstate :=
    if fs_done s then (SDone, s) else
    match (match fs_search s with Some p => find_from p | None => None end) with
    | Some (ms, me) =>
        if (fs_cur s <? ms)%nat then (SReject (fs_cur s) ms, mkFS ms (Some ms) false)
        else (SMatch ms me,
              mkFS me (if (ms =? me)%nat then (if (me <? len)%nat then Some (next_boundary me) else None) else Some me) false)
    | None =>
        if (fs_cur s <? len)%nat then (SReject (fs_cur s) len, mkFS len (fs_search s) true)
        else (SDone, mkFS (fs_cur s) (fs_search s) true)
    end.

  Fixpoint s_run (fuel : nat) (s : fstate) : list sstep :=
    match fuel with
    | O => []
    | S k => let '(st, s') := s_next s in
             match st with SDone => [SDone] | _ => st :: s_run k s' end
    end.

  Definition rs_init (find_iter : list (nat * nat)) : rstate := mkRS len (rev find_iter) false.

  Definition s_next_back (s : rstate) : sstep * rstate :=
    if rs_done s then (SDone, s) else
    match rs_matches s with
    | (ms, me) :: rest =>
        if (me <? rs_pos s)%nat then (SReject me (rs_pos s), mkRS me (rs_matches s) false)
        else (SMatch ms me, mkRS ms rest false)
    | [] =>
        if (0 <? rs_pos s)%nat then (SReject 0 (rs_pos s), mkRS 0 [] true)
        else (SDone, mkRS 0 [] true)
    end.

  Fixpoint r_run (fuel : nat) (s : rstate) : list sstep :=
    match fuel with
    | O => []
    | S k => let '(st, s') := s_next_back s in
             match st with SDone => [SDone] | _ => st :: r_run k s' end
    end.
End Searcher.
