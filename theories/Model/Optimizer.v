(* Optimizer.v — model of src/optimizer.rs: the seven passes, the post-order mutable walk with the
   in_lookbehind flag, run_to_fixpoint, and optimize() as it really behaves (run_pass returns the
   `changed` flag of the *last* fixpoint iteration, i.e. always false, so the outer loop runs once). *)
From RV Require Import Base.
From RV.Model Require Import Utf8 Indexer CodePointSet Insn IR.

Inductive action := Keep | Modified (n : node) | Remove | Replace (n : node).

Section Walk.
  Variable func : bool -> node -> R action.

  (* walk_mut(postorder = true): children first, then the node itself.  Returns the new node and
     whether any call reported a change. *)
  Fixpoint walk (lb : bool) (n : node) : R (node * bool) :=
    let finish (n' : node) (ch : bool) : R (node * bool) :=
      do a <- func lb n';
      Ok (match a with
          | Keep => (n', ch)
          | Modified m => (m, true)
          | Remove => (NEmpty, true)
          | Replace m => (m, true)
          end) in
    match n with
    | NCat l =>
        do r <- (fix go (l : list node) : R (list node * bool) :=
                   match l with
                   | [] => Ok ([], false)
                   | x :: t => do rx <- walk lb x; do rt <- go t;
                               Ok (fst rx :: fst rt, snd rx || snd rt)
                   end) l;
        finish (NCat (fst r)) (snd r)
    | NAlt a b =>
        do ra <- walk lb a; do rb <- walk lb b;
        finish (NAlt (fst ra) (fst rb)) (snd ra || snd rb)
    | NLoop body mn mx g egs ege =>
        do rb <- walk lb body; finish (NLoop (fst rb) mn mx g egs ege) (snd rb)
    | NLoop1CharBody body mn mx g =>
        do rb <- walk lb body; finish (NLoop1CharBody (fst rb) mn mx g) (snd rb)
    | NCaptureGroup id c nm =>
        do rc <- walk lb c; finish (NCaptureGroup id (fst rc) nm) (snd rc)
    | NLookaround ng bw sg eg c =>
        do rc <- walk bw c; finish (NLookaround ng bw sg eg (fst rc)) (snd rc)
    | leaf => finish leaf false
    end.

  (* Pass::run_to_fixpoint *)
  Fixpoint run_to_fixpoint (fuel : nat) (n : node) : R node :=
    match fuel with
    | O => Err Unreach                   (* fuel exhausted: reported, never silently accepted *)
    | S k => do r <- walk false n; if snd r then run_to_fixpoint k (fst r) else Ok (fst r)
    end.
End Walk.

Definition PASS_FUEL : nat := 200.

(* ---- simplify_brackets ---- *)
Definition MAX_CHAR_SET_LENGTH : N := 4.

Fixpoint n_range (first : N) (count : nat) : list N :=
  match count with O => [] | S k => first :: n_range (first + 1) k end.

Definition try_reduce_bracket (b : bracket) : option node :=
  if br_invert b then None
  else
    let total := fold_left (fun acc i => acc + iv_count i) (br_ivs b) 0 in
    if MAX_CHAR_SET_LENGTH <? total then None
    else Some (NCharSet (flat_map (fun i => n_range (fst i) (N.to_nat (iv_count i))) (br_ivs b))).

Definition simplify_brackets (_ : bool) (n : node) : R action :=
  match n with
  | NBracket b =>
      match try_reduce_bracket b with
      | Some m => Ok (Replace m)
      | None =>
          if (cps_inverted_interval_count (br_ivs b) <? length (br_ivs b))%nat
          then Ok (Modified (NBracket (mkBracket (negb (br_invert b)) (cps_inverted (br_ivs b)))))
          else Ok Keep
      end
  | _ => Ok Keep
  end.

(* ---- decat ---- *)
Definition decat (_ : bool) (n : node) : R action :=
  match n with
  | NCat [] => Ok Remove
  | NCat [x] => Ok (Replace x)
  | NCat l =>
      if existsb is_cat l
      then Ok (Replace (NCat (flat_map (fun x => match x with NCat l' => l' | _ => [x] end) l)))
      else Ok Keep
  | _ => Ok Keep
  end.

(* ---- unroll_loops ---- *)
Definition LOOP_UNROLL_THRESHOLD : N := 5.
Definition UNROLL_BODY_BUDGET : nat := 256.

(* is_unrollable with its mutable budget threaded through (and the short-circuit of `all` / `&&`) *)
Fixpoint is_unrollable (n : node) (budget : nat) : bool * nat :=
  match budget with
  | O => (false, O)
  | S b =>
    match n with
    | NLoop _ _ _ _ _ _ | NLoop1CharBody _ _ _ _ => (false, b)
    | NCat l =>
        (fix go (l : list node) (b : nat) : bool * nat :=
           match l with
           | [] => (true, b)
           | x :: t => let '(r, b') := is_unrollable x b in if r then go t b' else (false, b')
           end) l b
    | NAlt x y => let '(r, b') := is_unrollable x b in if r then is_unrollable y b' else (false, b')
    | NCaptureGroup _ c _ => is_unrollable c b
    | NLookaround _ _ _ _ c => is_unrollable c b
    | _ => (true, b)
    end
  end.

Fixpoint dup_n (body : node) (count : nat) : R (option (list node)) :=
  match count with
  | O => Ok (Some [])
  | S k =>
      do r <- try_duplicate body 0;
      match r with
      | None => Ok None
      | Some x => do rt <- dup_n body k; Ok (option_map (cons x) rt)
      end
  end.

Definition unroll_loops (_ : bool) (n : node) : R action :=
  match n with
  | NLoop body mn mx g egs ege =>
      if (egs <? ege)%nat then Ok Keep
      else if (mn =? 0) || (LOOP_UNROLL_THRESHOLD <? mn) then Ok Keep
      else if negb (fst (is_unrollable body UNROLL_BODY_BUDGET)) then Ok Keep
      else
        do r <- dup_n body (N.to_nat mn);
        match r with
        | None => Ok Keep
        | Some copies =>
            let mx' := option_map (fun v => v - mn) mx in
            let tail := match mx' with
                        | Some 0 => []
                        | _ => [NLoop body 0 mx' g egs ege]
                        end in
            Ok (Modified (NCat (copies ++ tail)))
        end
  | _ => Ok Keep
  end.

(* ---- promote_1char_loops ---- *)
Definition promote_1char_loops (_ : bool) (n : node) : R action :=
  match n with
  | NLoop body mn mx g egs ege =>
      if negb (matches_exactly_one_char body) then Ok Keep
      else if (egs <? ege)%nat then Err Panic              (* assert!: "Should have no enclosed groups" *)
      else Ok (Modified (NLoop1CharBody body mn mx g))
  | _ => Ok Keep
  end.

(* ---- form_literal_bytes (compiled out under the utf16 feature) ---- *)
Fixpoint merge_bytes (lb : bool) (l : list node) : list node * bool :=
  match l with
  | p :: ((c :: t) as rest) =>
      match p, c with
      | NByteSequence pb, NByteSequence cb =>
          if negb (list_is_empty pb) && negb (list_is_empty cb) then
            let merged := if lb then cb ++ pb else pb ++ cb in
            let '(r, _) := merge_bytes_tail lb (NByteSequence merged) t in
            (NByteSequence [] :: r, true)
          else let '(r, m) := merge_bytes lb rest in (p :: r, m)
      | _, _ => let '(r, m) := merge_bytes lb rest in (p :: r, m)
      end
  | other => (other, false)
  end
with merge_bytes_tail (lb : bool) (cur : node) (t : list node) : list node * bool :=
  match t with
  | [] => ([cur], false)
  | c :: t' =>
      match cur, c with
      | NByteSequence pb, NByteSequence cb =>
          if negb (list_is_empty pb) && negb (list_is_empty cb) then
            let merged := if lb then cb ++ pb else pb ++ cb in
            let '(r, _) := merge_bytes_tail lb (NByteSequence merged) t' in
            (NByteSequence [] :: r, true)
          else let '(r, m) := merge_bytes_tail lb c t' in (cur :: r, m)
      | _, _ => let '(r, m) := merge_bytes_tail lb c t' in (cur :: r, m)
      end
  end.

Definition form_literal_bytes (lb : bool) (n : node) : R action :=
  match n with
  | NChar c => if is_scalar c then Ok (Replace (NByteSequence (utf8_encode c))) else Ok Keep
  | NCharSet cs => if forallb (fun c => c <=? 127) cs then Ok (Replace (NByteSet cs)) else Ok Keep
  | NCat (x :: t) =>
      let '(l', m) := merge_bytes_tail lb x t in
      if m then Ok (Modified (NCat l')) else Ok Keep
  | _ => Ok Keep
  end.

(* ---- remove_empties ---- *)
Definition remove_empties (_ : bool) (n : node) : R action :=
  match n with
  | NByteSequence [] => Ok Remove
  | NCat l =>
      let kept := filter (fun x => negb (is_empty_node x)) l in
      if (length kept =? length l)%nat then Ok Keep
      else match kept with
           | [] => Ok Remove
           | [x] => Ok (Replace x)
           | _ => Ok (Modified (NCat kept))
           end
  | NAlt a b => if is_empty_node a && is_empty_node b then Ok Remove else Ok Keep
  | NLoop body _ mx _ egs ege =>
      if is_empty_node body || ((match mx with Some 0 => true | _ => false end) && (egs =? ege)%nat)
      then Ok Remove else Ok Keep
  | NLookaround ng _ _ _ c => if negb ng && is_empty_node c then Ok Remove else Ok Keep
  | _ => Ok Keep
  end.

(* ---- propagate_early_fails ---- *)
Fixpoint contains_capture_groups (n : node) : bool :=
  match n with
  | NCaptureGroup _ _ _ => true
  | NCat l => (fix go (l : list node) : bool :=
                 match l with [] => false | x :: t => contains_capture_groups x || go t end) l
  | NAlt a b => contains_capture_groups a || contains_capture_groups b
  | NLoop body _ _ _ _ _ => contains_capture_groups body
  | NLookaround _ _ _ _ c => contains_capture_groups c
  | _ => false
  end.

Definition propagate_early_fails (_ : bool) (n : node) : R action :=
  if contains_capture_groups n then Ok Keep else
  match n with
  | NCat l => if existsb match_always_fails l then Ok (Replace make_always_fails) else Ok Keep
  | NAlt a b =>
      match match_always_fails a, match_always_fails b with
      | true, true => Ok (Replace make_always_fails)
      | false, false => Ok Keep
      | true, false => Ok (Replace b)
      | false, true => Ok (Replace a)
      end
  | NLoop body mn _ _ egs ege =>
      if (egs <? ege)%nat then Ok Keep
      else if (0 <? mn) && match_always_fails body then Ok (Replace make_always_fails) else Ok Keep
  | _ => Ok Keep
  end.

(* ---- optimize ---- *)
Definition optimize_with (fuel : nat) (utf16_feature : bool) (n : node) : R node :=
  do n0 <- run_to_fixpoint simplify_brackets fuel n;
  do n1 <- run_to_fixpoint decat fuel n0;
  do n2 <- run_to_fixpoint unroll_loops fuel n1;
  do n3 <- run_to_fixpoint promote_1char_loops fuel n2;
  do n4 <- (if utf16_feature then Ok n3 else run_to_fixpoint form_literal_bytes fuel n3);
  do n5 <- run_to_fixpoint remove_empties fuel n4;
  run_to_fixpoint propagate_early_fails fuel n5.
Definition optimize (utf16_feature : bool) (n : node) : R node := optimize_with PASS_FUEL utf16_feature n.
