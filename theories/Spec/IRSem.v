(* IRSem.v — big-step semantics of the IR (src/ir.rs nodes) as ordered lists of successes over the
   byte-level input, in the direction the matcher moves.  Structural nodes (Cat, Alt, Loop, CaptureGroup,
   BackRef, Lookaround, StringSet, Loop1CharBody) get the ECMAScript meaning (priority order, per-iteration
   capture reset, empty-iteration rule, atomic lookarounds); leaves are the single-step matchers of
   Model/Insn.v.  This is the reference the two interpreters are proved against; its own agreement with
   Spec.v (code-point level) is a separate layer. *)
From RV Require Import Base.
From RV.Model Require Import Utf8 Indexer CodePointSet Insn IR Optimizer Unfold Emit.

Definition mst := (nat * list groupdata)%type.      (* position, capture slots *)

Fixpoint obindm {A} (f : A -> option (list mst)) (l : list A) : option (list mst) :=
  match l with
  | [] => Some []
  | x :: tl => match f x, obindm f tl with Some a, Some b => Some (a ++ b) | _, _ => None end
  end.

Section Sem.
  Variable ix : indexer.
  Variable unicode : bool.            (* flags.unicode: selects the fold of case-insensitive backreferences *)
  Variable utf16_feature : bool.
  Variable h : hay.

  Definition dummy_prog : program := mkProgram [] [] 0 0 SPArbitrary unicode.

  (* run a straight-line sequence of single-step instructions *)
  Fixpoint run_insns (code : list insn) (fwd : bool) (p : nat) : option (option nat) :=
    match code with
    | [] => Some (Some p)
    | i :: t =>
        let r := match i with
                 | Char c => Some (char_pike ix c fwd h p)
                 | JustFail => Some (Ok None)
                 | other => match1 ix dummy_prog other fwd h p
                 end in
        match r with
        | Some (Ok (Some p')) => run_insns t fwd p'
        | Some (Ok None) => Some None
        | _ => None                                   (* an error outcome or not a single-step instruction *)
        end
    end.

  (* the instructions emit produces for a leaf (brackets that need the table are handled separately) *)
  Definition leaf_code (lb : bool) (n : node) : option (list insn) :=
    match n with
    | NChar c => Some [Char c]
    | NByteSequence bs => Some (emit_byte_sequence lb bs)
    | NByteSet bs => match emit_byte_set bs with Ok c => Some c | Err _ => None end
    | NCharSet cs => match emit_char_set cs with Ok c => Some c | Err _ => None end
    | NMatchAny => Some [MatchAny]
    | NMatchAnyExceptLT => Some [MatchAnyExceptLT]
    | NBracket b => match bracket_as_ascii b with Some bm => Some [AsciiBracket bm] | None => None end
    | _ => None
    end.

  Definition results_of (x : mst) (r : option (option nat)) : option (list mst) :=
    match r with
    | Some (Some p') => Some [(p', snd x)]
    | Some None => Some []
    | None => None
    end.

  Definition cond_results (x : mst) (r : R bool) : option (list mst) :=
    match r with Ok true => Some [x] | Ok false => Some [] | Err _ => None end.

  Definition set_group_start (fwd : bool) (p : nat) (gd : groupdata) : groupdata :=
    if fwd then mkGD (Some p) (gd_end gd) else mkGD (gd_start gd) (Some p).
  Definition set_group_end (fwd : bool) (p : nat) (gd : groupdata) : groupdata :=
    if fwd then mkGD (gd_start gd) (Some p) else mkGD (Some p) (gd_end gd).

  Definition upd_group (g : nat) (f : groupdata -> groupdata) (gs : list groupdata) : option (list groupdata) :=
    match nth_error gs g with Some gd => Some (set_nth g (f gd) gs) | None => None end.

  Fixpoint reset_groups (gs : list groupdata) (lo n : nat) : option (list groupdata) :=
    match n with
    | O => Some gs
    | S k => match upd_group lo (fun _ => gd_empty) gs with
             | Some gs' => reset_groups gs' (S lo) k
             | None => None
             end
    end.

  Definition max_val (mx : option N) : N := match mx with Some v => v | None => USIZE_MAX end.

  (* sequence: thread every result of the prefix through the next node *)
  Fixpoint cat_results (rf : node -> mst -> option (list mst)) (l : list node) (xs : list mst) : option (list mst) :=
    match l with
    | [] => Some xs
    | c :: t => match obindm (rf c) xs with Some ys => cat_results rf t ys | None => None end
    end.

  (* Loop: k = completed iterations; entry = position at the start of the last iteration.
     The decision is the one of ES RepeatMatcher in regress's counting: an empty iteration beyond min
     fails; enter while k < max; exit once k >= min; greedy prefers iterating. Captures of the body are
     reset at the start of every iteration and kept on exit. *)
  Fixpoint loop_results (bodyf : mst -> option (list mst)) (mn : N) (mx : option N) (greedy : bool)
           (egs ege : nat) (lf : nat) (k : N) (entry : nat) (y : mst) {struct lf} : option (list mst) :=
    match lf with
    | O => None
    | S lf' =>
      if (0 <? k) && (mn <? k) && (entry =? fst y)%nat then Some []
      else
        let enter_ok := k <? max_val mx in
        let skip_ok := mn <=? k in
        let iterate :=
          match reset_groups (snd y) egs (ege - egs) with
          | None => None
          | Some g1 =>
              match bodyf (fst y, g1) with
              | None => None
              | Some zs => obindm (loop_results bodyf mn mx greedy egs ege lf' (k + 1) (fst y)) zs
              end
          end in
        if negb enter_ok && negb skip_ok then Some []
        else if negb enter_ok then Some [y]
        else if negb skip_ok then iterate
        else match iterate with
             | None => None
             | Some it => Some (if greedy then it ++ [y] else y :: it)
             end
    end.

  (* Loop1CharBody: the body is a single-character leaf, run through its one-step function *)
  Definition single_step (lb : bool) (n : node) (fwd : bool) : option (nat -> option (option nat)) :=
    match leaf_code lb n with
    | Some code => Some (run_insns code fwd)
    | None =>
        match n with
        | NBracket b => Some (fun q => match next_if ix fwd h q (bracket_matches b) with
                                       | Ok r => Some r | Err _ => None end)
        | _ => None
        end
    end.

  (* one step of a single-character loop is also required to stay inside the haystack, to move in the direction
     of the match, and to be undone by stepping back one character (and redone by stepping forward one): what
     the backtracker relies on when it gives back iterations of Loop1CharBody by next_left_pos / next_right_pos.  True on well-formed text; where it fails the semantics is
     undefined (None), which the driver counts as inconclusive. *)
  Definition step_inv (fwd : bool) (q q' : nat) : bool :=
    match (if fwd then ix_next_left_pos ix h q' else ix_next_right_pos ix h q'),
          (if fwd then ix_next_right_pos ix h q else ix_next_left_pos ix h q) with
    | Ok (Some a), Ok (Some b) =>
        (a =? q)%nat && (b =? q')%nat && (q <=? length h)%nat && (q' <=? length h)%nat &&
        (if fwd then q <? q' else q' <? q)%nat
    | _, _ => false
    end.

  Fixpoint l1_results (stepf : nat -> option (option nat)) (chk : nat -> nat -> bool) (gs : list groupdata)
           (mn : N) (mx : option N) (greedy : bool)
           (lf : nat) (k : N) (q : nat) {struct lf} : option (list mst) :=
    match lf with
    | O => None
    | S lf' =>
      let taken := if k <? max_val mx then stepf q else Some None in
      match taken with
      | None => None
      | Some None => Some (if mn <=? k then [(q, gs)] else [])
      | Some (Some q') =>
          if chk q q' then
            match l1_results stepf chk gs mn mx greedy lf' (k + 1) q' with
            | None => None
            | Some it => Some (if mn <=? k then (if greedy then it ++ [(q, gs)] else (q, gs) :: it) else it)
            end
          else None
      end
    end.

  (* a sequence of leaf nodes (the pieces of one string alternative) *)
  Fixpoint pieces_run (lb : bool) (l : list node) (fwd : bool) (q : nat) : option (option nat) :=
    match l with
    | [] => Some (Some q)
    | c :: t => match leaf_code lb c with
                | Some code => match run_insns code fwd q with
                               | Some (Some q') => pieces_run lb t fwd q'
                               | other => other
                               end
                | None => None
                end
    end.

  Definition strset_results (alts : list (list N)) (icase fwd : bool) (x : mst) : option (list mst) :=
    obindm (fun a =>
              match (if utf16_feature then None else lower_code_point_sequence a icase unicode) with
              | Some pieces =>
                  results_of x (pieces_run (negb fwd) (map node_of_piece (if fwd then pieces else rev pieces)) fwd (fst x))
              | None => None
              end) alts.

  Fixpoint ir_results (fuel : nat) (n : node) (fwd : bool) (x : mst) {struct fuel} : option (list mst) :=
    match fuel with
    | O => None
    | S f =>
      let '(p, gs) := x in
      match n with
      | NEmpty => Some [x]
      | NGoal => Some [x]                                    (* Goal ends a match: as a node it succeeds without moving (only the top level carries it, see ir_top) *)
      | NCat l => cat_results (fun c => ir_results f c fwd) l [x]
      | NAlt a b =>
          match ir_results f a fwd x, ir_results f b fwd x with Some u, Some v => Some (u ++ v) | _, _ => None end
      | NAnchor sol ml =>
          cond_results x (if sol then start_of_line ix ml h p else end_of_line ix ml h p)
      | NWordBoundary inv ui =>
          cond_results x (do b <- word_boundary ix ui h p; Ok (negb (Bool.eqb b inv)))
      | NCaptureGroup id c _ =>
          match upd_group id (set_group_start fwd p) gs with
          | None => None
          | Some gs1 =>
              match ir_results f c fwd (p, gs1) with
              | None => None
              | Some l => obindm (fun y => match upd_group id (set_group_end fwd (fst y)) (snd y) with
                                           | Some g2 => Some [(fst y, g2)] | None => None end) l
              end
          end
      | NBackRef g ic =>
          if g =? 0 then None else
          match nth_error gs (N.to_nat (g - 1)) with
          | None => None
          | Some gd =>
              match gd_range gd with
              | None => Some [x]
              | Some (rs, re) =>
                  match backref_match ix dummy_prog ic fwd h p rs re with
                  | Ok (Some p') => Some [(p', gs)]
                  | Ok None => Some []
                  | Err _ => None
                  end
              end
          end
      | NBracket b =>
          match bracket_as_ascii b with
          | Some bm => results_of x (run_insns [AsciiBracket bm] fwd p)
          | None => match next_if ix fwd h p (bracket_matches b) with
                    | Ok (Some p') => Some [(p', gs)] | Ok None => Some [] | Err _ => None end
          end
      | NStringSet alts icase => strset_results alts icase fwd x
      | NLookaround ng bw sg eg c =>
          match ir_results f c (negb bw) x with
          | None => None
          | Some [] => Some (if ng then [x] else [])
          | Some (y :: _) => Some (if ng then [] else [(p, snd y)])
          end
      | NLoop body mn mx greedy egs ege =>
          loop_results (ir_results f body fwd) mn mx greedy egs ege f 0 p x
      | NLoop1CharBody body mn mx greedy =>
          match single_step (negb fwd) body fwd with
          | None => None
          | Some stepf => l1_results stepf (step_inv fwd) gs mn mx greedy f 0 p
          end
      | leaf =>
          match leaf_code (negb fwd) leaf with
          | Some code => results_of x (run_insns code fwd p)
          | None => None
          end
      end
    end.
End Sem.

(* leftmost search with the IR semantics: the top-level node is Cat [...; Goal] *)
Definition ir_top (n : node) : node :=
  match n with
  | NCat l => match rev l with NGoal :: r => NCat (rev r) | _ => n end
  | NGoal => NCat []                                        (* the optimizer reduces an always-matching pattern to Goal *)
  | NCharSet [] => NCat [NCharSet []]                       (* ... and a never-matching one to make_always_fails() *)
  | _ => n
  end.

(* the two shapes of a whole-pattern IR: Cat [body...; Goal], or Goal alone *)
Definition top_shape (n : node) (body : list node) : Prop :=
  n = NCat (body ++ [NGoal]) \/ (n = NGoal /\ body = []) \/
  (* propagate_early_fails collapses a pattern that cannot match to make_always_fails() = CharSet [], Goal included *)
  (n = NCharSet [] /\ body = [NCharSet []]).

Fixpoint ir_search (ix : indexer) (unicode utf16 : bool) (h : hay) (fuel : nat) (n : node) (ngroups : nat)
         (tries : nat) (p : nat) : option (option (nat * nat * list groupdata)) :=
  match tries with
  | O => None                                                  (* out of tries: inconclusive *)
  | S t =>
      match ir_results ix unicode utf16 h fuel n true (p, repeat gd_empty ngroups) with
      | None => None
      | Some (y :: _) => Some (Some (p, fst y, snd y))
      | Some [] =>
          match ix_next_right_pos ix h p with
          | Ok (Some p') => ir_search ix unicode utf16 h fuel n ngroups t p'
          | Ok None => Some None
          | Err _ => None
          end
      end
  end.

(* Loop1CharBody is only formed around a node that emits exactly one single-character instruction
   (ir.rs: the parser forms it when the loopee matches exactly one character).  The driver checks this
   predicate on every IR the implementation produces. *)
Definition l1_body_ok (body : node) : bool :=
  match body with
  | NBracket _ => true
  | _ => match leaf_code false body, leaf_code true body with Some [_], Some [_] => true | _, _ => false end
  end.

Fixpoint ir_wf (n : node) : bool :=
  match n with
  | NGoal => false
  | NCat l => (fix go (l : list node) : bool := match l with [] => true | x :: t => ir_wf x && go t end) l
  | NAlt a b => ir_wf a && ir_wf b
  | NCaptureGroup _ c _ => ir_wf c
  | NLookaround _ _ _ _ c => ir_wf c
  | NLoop body _ _ _ _ _ => ir_wf body
  | NLoop1CharBody body _ _ _ => l1_body_ok body
  | _ => true
  end.
