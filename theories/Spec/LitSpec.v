(* LitSpec.v — reference semantics of a *literal* pattern (used by C18): the non-overlapping
   occurrences of a code-point string s in a UTF-8 text t, left to right, optionally up to the
   canonical equivalence [canon c = canon d].  This is a specification, not a model of regress. *)
From RV Require Import Base.
From RV.Model Require Import Utf8 Indexer.

(* decode the whole text into (code point, start offset, end offset); None if it is not valid UTF-8 *)
Fixpoint decode_all (fuel : nat) (h : hay) (p : nat) : option (list (N * nat * nat)) :=
  match fuel with
  | O => None
  | S f =>
    match u8_next_right h p with
    | Ok None => Some []
    | Ok (Some (c, p')) =>
        match decode_all f h p' with Some l => Some ((c, p, p') :: l) | None => None end
    | Err _ => None
    end
  end.

Section Lit.
  Variable canon : N -> N.
  Definition ceq (a b : N) : bool := canon a =? canon b.

  (* does s match a prefix of cs?  returns the end offset of the match *)
  Fixpoint prefix_end (s : list N) (cs : list (N * nat * nat)) (at_ : nat) : option nat :=
    match s with
    | [] => Some at_
    | c :: s' =>
      match cs with
      | (d, _, e) :: cs' => if ceq c d then prefix_end s' cs' e else None
      | [] => None
      end
    end.

  (* scan; [skip] = number of characters still covered by the previous match *)
  Fixpoint occ_go (s : list N) (cs : list (N * nat * nat)) (len : nat) (skip : nat) : list (nat * nat) :=
    match cs with
    | [] => match skip, s with O, [] => [(len, len)] | _, _ => [] end
    | (d, a, e) :: cs' =>
      match skip with
      | S k => occ_go s cs' len k
      | O =>
        match prefix_end s cs a with
        | Some en => (a, en) :: occ_go s cs' len (pred (length s))
        | None => occ_go s cs' len 0
        end
      end
    end.

  Definition lit_occurrences (s : list N) (t : hay) : option (list (nat * nat)) :=
    match decode_all (S (length t)) t 0 with
    | Some cs => Some (occ_go s cs (length t) 0)
    | None => None
    end.
End Lit.
