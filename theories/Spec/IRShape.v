(* IRShape.v — structural facts about an IR the backtracker's proof relies on, as boolean checks the driver
   evaluates on every IR the implementation produces:
     nloops    the number of loop slots emit allocates for a node;
     lslot     whether a slot belongs to the body of a lookaround (a nested attempt drops its undo records);
     caps_in   every capture group and every loop reset range of a node lies in [sg, eg);
     bt_wf     a lookaround's [sg, eg) covers its body and lies within the group table. *)
From RV Require Import Base.
From RV.Model Require Import Utf8 Indexer CodePointSet Insn IR Optimizer Unfold Emit.
From RV.Spec Require Import IRSem.

Fixpoint nloops (n : node) : nat :=
  match n with
  | NCat l => (fix go (l : list node) : nat := match l with [] => 0 | x :: t => nloops x + go t end) l
  | NAlt a b => nloops a + nloops b
  | NCaptureGroup _ c _ => nloops c
  | NLookaround _ _ _ _ c => nloops c
  | NLoop body _ _ _ _ _ => S (nloops body)
  | NLoop1CharBody body _ _ _ => nloops body
  | _ => 0
  end%nat.

Fixpoint lslot (i : nat) (n : node) (lo : nat) {struct n} : bool :=
  match n with
  | NCat l => (fix go (l : list node) (lo : nat) : bool :=
                 match l with [] => false | x :: t => lslot i x lo || go t (lo + nloops x)%nat end) l lo
  | NAlt a b => lslot i a lo || lslot i b (lo + nloops a)%nat
  | NCaptureGroup _ c _ => lslot i c lo
  | NLookaround _ _ _ _ c => (lo <=? i)%nat && (i <? lo + nloops c)%nat
  | NLoop body _ _ _ _ _ => lslot i body (S lo)
  | _ => false
  end.

Fixpoint caps_in (sg eg : nat) (n : node) : bool :=
  match n with
  | NCat l => (fix go (l : list node) : bool := match l with [] => true | x :: t => caps_in sg eg x && go t end) l
  | NAlt a b => caps_in sg eg a && caps_in sg eg b
  | NCaptureGroup id c _ => (sg <=? id)%nat && (id <? eg)%nat && caps_in sg eg c
  | NLookaround _ _ _ _ c => caps_in sg eg c
  | NLoop body _ _ _ egs ege => ((ege <=? egs)%nat || ((sg <=? egs)%nat && (ege <=? eg)%nat)) && caps_in sg eg body
  | _ => true
  end.

(* what the backtracker's theorem assumes of an IR ([ng] = size of the group table) *)
(* Loop1CharBody in the backtracker: the dispatch of with_scm_loop_impl knows byte literals of at most 6 bytes and
   has no matcher for JustFail (an empty set); min <= max as the parser guarantees *)
Definition bt_l1_ok (body : node) (mn : N) (mx : option N) : bool :=
  l1_body_ok body &&
  match body with
  | NByteSequence bs => (length bs <=? 6)%nat
  | NByteSet [] | NCharSet [] => false
  | _ => true
  end &&
  (mn <=? match mx with Some v => v | None => USIZE_MAX end).

Fixpoint bt_wf (ng : nat) (n : node) : bool :=
  match n with
  | NGoal => false
  | NLoop1CharBody body mn mx _ => bt_l1_ok body mn mx
  | NCat l => (fix go (l : list node) : bool := match l with [] => true | x :: t => bt_wf ng x && go t end) l
  | NAlt a b => bt_wf ng a && bt_wf ng b
  | NCaptureGroup _ c _ => bt_wf ng c
  | NLookaround _ _ sg eg c => (sg <=? eg)%nat && (eg <=? ng)%nat && caps_in sg eg c && bt_wf ng c
  | NLoop body _ _ _ _ _ => bt_wf ng body
  | _ => true
  end.

(* the same with Loop1CharBody admitted (the PikeVM theorem needs no more than IRSem.ir_wf): used by the driver to
   check the lookaround ranges on every IR, optimised or not *)
Fixpoint look_wf (ng : nat) (n : node) : bool :=
  match n with
  | NCat l => (fix go (l : list node) : bool := match l with [] => true | x :: t => look_wf ng x && go t end) l
  | NAlt a b => look_wf ng a && look_wf ng b
  | NCaptureGroup _ c _ => look_wf ng c
  | NLookaround _ _ sg eg c => (sg <=? eg)%nat && (eg <=? ng)%nat && caps_in sg eg c && look_wf ng c
  | NLoop body _ _ _ _ _ => look_wf ng body
  | _ => true
  end.

(* every bracket of a node satisfies the CodePointSet invariant (C12 proves the operations preserve it) *)
Fixpoint brackets_wf (n : node) : bool :=
  match n with
  | NBracket b => cps_wf (br_ivs b)
  | NCat l => (fix go (l : list node) : bool := match l with [] => true | x :: t => brackets_wf x && go t end) l
  | NAlt a b => brackets_wf a && brackets_wf b
  | NCaptureGroup _ c _ => brackets_wf c
  | NLookaround _ _ _ _ c => brackets_wf c
  | NLoop body _ _ _ _ _ => brackets_wf body
  | NLoop1CharBody body _ _ _ => brackets_wf body
  | _ => true
  end.

(* what a prefiltered search assumes of the haystack along the positions it visits from p: the byte under the
   cursor is the first byte of the UTF-8 encoding of the element the cursor reads; stepping right moves right;
   after a position the prefilter rejects, it does not fire strictly inside that character; the walk ends at the end of the haystack.  True of
   valid UTF-8 for every prefilter the compiler derives (they test lead bytes and literal prefixes); evaluated
   by the driver on every case. *)
Definition fb_ok (ix : indexer) (h : hay) (p : nat) : bool :=
  match cnext ix true h p with
  | Ok (Some (c, _)) => match nth_error h p with
                        | Some b => (b =? utf8_first_byte c) && (c <=? CODE_POINT_MAX)
                        | None => false
                        end
  | _ => true
  end.

Fixpoint pref_walk_ok (ix : indexer) (h : hay) (test : list N -> bool) (fuel : nat) (p : nat) : bool :=
  match fuel with
  | O => true
  | S f =>
      fb_ok ix h p &&
      match ix_next_right_pos ix h p with
      | Ok (Some p') => (p <? p')%nat && (test (skipn p h) || forallb (fun i => negb (test (skipn i h))) (seq (S p) (p' - S p))) &&
                        pref_walk_ok ix h test f p'
      | Ok None => (p =? length h)%nat
      | Err _ => true
      end
  end.

(* ---- the invariant of the optimizer proofs (Proofs/Opt*.v): [ng] counts the capture groups of a node; [qok]: a
   loop's minimum does not exceed its maximum, its group range has the size of the number of groups of its body, and
   the body of a one-character loop is a one-instruction leaf.  Evaluated by the driver on every IR. ---- *)
Fixpoint ng (n : node) : nat :=
  match n with
  | NCat l => list_sum (map ng l)
  | NAlt a b => ng a + ng b
  | NCaptureGroup _ c _ => S (ng c)
  | NLookaround _ _ _ _ c => ng c
  | NLoop b _ _ _ _ _ => ng b
  | _ => 0
  end.

Fixpoint qok (n : node) : bool :=
  match n with
  | NCat l => forallb qok l
  | NAlt a b => qok a && qok b
  | NCaptureGroup _ c _ => qok c
  | NLookaround _ _ sg eg c => qok c && (eg - sg =? ng c)%nat
  | NLoop b mn mx _ egs ege => qok b && (mn <=? max_val mx) && (ege - egs =? ng b)%nat
  | NLoop1CharBody b mn mx _ => qok b && (mn <=? max_val mx) && l1_body_ok b
  | NCharSet cs => (length cs <=? 4)%nat
  | NBracket b => cps_wf (br_ivs b)
  | _ => true
  end.


(* ---- the text hypotheses of the optimizer theorems (Proofs/OptTop.v text_ok), as a check over the character
   boundaries of a haystack (the end, and every byte that is not a UTF-8 continuation byte): reading an element or
   stepping to the next attempt from a boundary leads to a boundary; the element read is a code point; an element
   below 128 is the byte at that position and a byte below 128 is the element; an element from 128 up starts (ends)
   with a byte from 128 up and conversely. ---- *)
Definition is_bnd (h : hay) (q : nat) : bool :=
  (q =? length h)%nat || match nth_error h q with Some b => negb (is_utf8_continuation b) | None => false end.

Definition byte_res_eqb (r : R (option (N * nat))) (c : N) (q : nat) : bool :=
  match r with Ok (Some (b, q1)) => (b =? c) && (q1 =? q)%nat | _ => false end.

Definition text_pos_ok (ix : indexer) (h : hay) (fwd : bool) (q : nat) : bool :=
  (match cnext ix fwd h q with
   | Ok (Some (c, q2)) =>
       is_bnd h q2 && (c <=? CODE_POINT_MAX) &&
       (if c <? 128 then byte_res_eqb (next_byte fwd h q) c q2
        else match next_byte fwd h q with Ok (Some (b, _)) => 128 <=? b | _ => false end)
   | Ok None => match next_byte fwd h q with Ok None => true | _ => false end
   | Err _ => true
   end) &&
  (match next_byte fwd h q with
   | Ok (Some (b, q1)) =>
       if b <? 128 then byte_res_eqb (cnext ix fwd h q) b q1
       else match cnext ix fwd h q with Ok (Some (c, _)) => 128 <=? c | _ => false end
   | Ok None => match cnext ix fwd h q with Ok None => true | _ => false end
   | Err _ => true
   end).

Definition text_ok_b (ix : indexer) (h : hay) : bool :=
  forallb (fun q => negb (is_bnd h q) ||
                    (text_pos_ok ix h true q && text_pos_ok ix h false q &&
                     match ix_next_right_pos ix h q with Ok (Some q') => is_bnd h q' | _ => true end))
          (seq 0 (S (length h))).

(* a node without byte-level leaves or string sets: what the parser produces for a pattern without \q{...}; for such nodes the optimizer theorems need no hypothesis on the node besides qok *)
(* the node kinds the parser produces: everything but the byte-level leaves the optimizer introduces *)
Fixpoint parsed (n : node) : bool :=
  match n with
  | NCat l => forallb parsed l
  | NAlt a b => parsed a && parsed b
  | NCaptureGroup _ c _ => parsed c
  | NLookaround _ _ _ _ c => parsed c
  | NLoop b _ _ _ _ _ => parsed b
  | NLoop1CharBody b _ _ _ => parsed b
  | NByteSequence _ | NByteSet _ => false
  | _ => true
  end.

Fixpoint simple (n : node) : bool :=
  match n with
  | NCat l => forallb simple l
  | NAlt a b => simple a && simple b
  | NCaptureGroup _ c _ => simple c
  | NLookaround _ _ _ _ c => simple c
  | NLoop b _ _ _ _ _ => simple b
  | NLoop1CharBody b _ _ _ => simple b
  | NByteSequence _ | NByteSet _ | NStringSet _ _ => false
  | _ => true
  end.

