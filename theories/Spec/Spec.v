(* Spec.v — REFERENCE semantics of ECMAScript patterns (ES2025 §22.2.2) on code-point input, as ordered
   lists of successes (the defunctionalised form of the standard's continuation-passing matchers:
   m(x, c) = first success of c over [results m x]).  This is not a model of regress: it defines what
   "the match ECMAScript prescribes" means in C01.  Flags are resolved into the nodes (so inline
   modifiers need no special treatment); [canon] is Canonicalize for the regex's mode. *)
From RV Require Import Base.

Inductive dir := Fwd | Bwd.

(* a v-mode class as written: operands, nested classes and the three operators.  A class escape or property escape
   is its positive set with a negation mark (\D \W \S \P{..}), because under v+i the complement is taken after
   simple case folding (CharacterComplement over the folded universe), not before. *)
Inductive vexpr :=
| VCh (c : N)
| VRange (a b : N)
| VEsc (neg : bool) (rs : list (N * N))
| VStrs (strs : list (list N))                 (* \q{..|..} *)
| VUnion (l : list vexpr)
| VInter (l : list vexpr)
| VSub (l : list vexpr)
| VNeg (e : vexpr).                            (* [^ ... ] *)

(* MayContainStrings (ES2025 22.2.1.6), the static property behind the early error "a negated class may not contain
   strings": a string disjunction with a string that is not one code point; a union if some operand may; an
   intersection if all operands may; a subtraction if its first operand may; never a character, a range, a class
   escape or a negated class *)
Fixpoint vmcs (e : vexpr) : bool :=
  match e with
  | VStrs strs => existsb (fun s => negb (length s =? 1)%nat) strs
  | VUnion l => (fix go (l : list vexpr) : bool := match l with [] => false | x :: t => vmcs x || go t end) l
  | VInter l => match l with
                | [] => false
                | _ => (fix go (l : list vexpr) : bool := match l with [] => true | x :: t => vmcs x && go t end) l
                end
  | VSub l => match l with [] => false | h :: _ => vmcs h end
  | _ => false
  end.
(* the early error itself: no negated class, at any depth, over contents that may contain strings *)
Fixpoint vnegok (e : vexpr) : bool :=
  match e with
  | VNeg e' => negb (vmcs e') && vnegok e'
  | VUnion l | VInter l | VSub l => (fix go (l : list vexpr) : bool := match l with [] => true | x :: t => vnegok x && go t end) l
  | _ => true
  end.

Inductive regex :=
| REmpty
| RChar (c : N) (icase : bool)
| RAny (dotall : bool)
| RClass (inv : bool) (rs : list (N * N)) (icase : bool)
| RStrClass (strs : list (list N)) (rs : list (N * N)) (icase : bool)   (* v-mode class with \q strings *)
| RVClass (e : vexpr) (icase : bool)                                   (* v-mode class expression *)
| RSeq (a b : regex)
| RAlt (a b : regex)
| RGroup (gid : nat) (r : regex)
| RBackRef (gids : list nat) (icase : bool)       (* several ids only for a duplicated group name *)
| RQuant (r : regex) (min : nat) (max : option nat) (greedy : bool) (gs ge : nat)
| RLook (ahead neg : bool) (r : regex)
| RBol (multiline : bool)
| REol (multiline : bool)
| RWordB (inv : bool) (extra : bool).             (* extra: u+i, so U+017F and U+212A count as word chars *)

Definition caps := list (option (nat * nat)).
Definition mstate := (nat * caps)%type.

Fixpoint reset_range {A} (l : list A) (lo n : nat) (v : A) : list A :=
  match n with O => l | S k => reset_range (set_nth lo v l) (S lo) k v end.

Fixpoint obind {A B} (f : A -> option (list B)) (l : list A) : option (list B) :=
  match l with
  | [] => Some []
  | x :: tl => match f x, obind f tl with Some a, Some b => Some (a ++ b) | _, _ => None end
  end.

Section Sem.
  Variable canon : N -> N.
  Variable eqclass : N -> list N.
  Definition eqclass_spec : Prop := forall c a, In a (eqclass c) <-> canon a = canon c.
  Variable inp : list N.            (* the haystack as code points *)

  Definition is_lt (c : N) : bool := (c =? 10) || (c =? 13) || (c =? 8232) || (c =? 8233).
  Definition is_word (extra : bool) (c : N) : bool :=
    ((48 <=? c) && (c <=? 57)) || ((65 <=? c) && (c <=? 90)) || ((97 <=? c) && (c <=? 122)) || (c =? 95)
    || (extra && ((c =? 383) || (c =? 8490))).
  Definition in_ranges (rs : list (N * N)) (c : N) : bool :=
    existsb (fun r => (fst r <=? c) && (c <=? snd r)) rs.

  (* CharacterSetMatcher: some member a of the set with Canonicalize(a) = Canonicalize(ch).
     [eqclass ch] enumerates the code points whose canonical form equals that of ch (the side condition
     [eqclass_spec] ties it to [canon]); testing its members against the set is the executable form of
     "exists a in A, canon a = canon ch". *)
  Definition set_matches (rs : list (N * N)) (icase : bool) (ch : N) : bool :=
    if icase then existsb (in_ranges rs) (eqclass ch) else in_ranges rs ch.
  Definition char_matches (c : N) (icase : bool) (ch : N) : bool :=
    if icase then canon c =? canon ch else c =? ch.

  (* v-mode class expressions (ES2025 22.2.2.9 CompileToCharSet with UnicodeSets): under i every leaf is folded
     (MaybeSimpleCaseFolding), the operators act on the folded sets, a complement is taken within the folded
     universe, and a character matches when its canonical form is a member.  Stated on the character itself:
     ch is in the folded leaf set iff some member of the leaf has the canonical form of ch. *)
  Fixpoint list_N_eqb (a b : list N) : bool :=
    match a, b with
    | [], [] => true
    | x :: a', y :: b' => (x =? y) && list_N_eqb a' b'
    | _, _ => false
    end.
  Definition str_in (s : list N) (l : list (list N)) : bool := existsb (list_N_eqb s) l.
  Definition cn (icase : bool) (c : N) : N := if icase then canon c else c.

  Fixpoint vmem (icase : bool) (e : vexpr) (ch : N) : bool :=
    match e with
    | VCh c => char_matches c icase ch
    | VRange a b => set_matches [(a, b)] icase ch
    | VEsc neg rs => xorb neg (set_matches rs icase ch)
    | VStrs strs => existsb (fun s => match s with [a] => char_matches a icase ch | _ => false end) strs
    | VUnion l => (fix go (l : list vexpr) : bool := match l with [] => false | e :: t => vmem icase e ch || go t end) l
    | VInter l =>
        match l with
        | [] => false
        | _ => (fix go (l : list vexpr) : bool := match l with [] => true | e :: t => vmem icase e ch && go t end) l
        end
    | VSub l =>
        match l with
        | [] => false
        | h :: t => vmem icase h ch &&
                    negb ((fix go (l : list vexpr) : bool := match l with [] => false | e :: t => vmem icase e ch || go t end) t)
        end
    | VNeg e => negb (vmem icase e ch)
    end.

  (* the member strings that are not single characters, in canonical form *)
  Fixpoint vstrs (icase : bool) (e : vexpr) : list (list N) :=
    match e with
    | VStrs strs => map (map (cn icase)) (filter (fun s => negb (length s =? 1)%nat) strs)
    | VUnion l => (fix go (l : list vexpr) : list (list N) := match l with [] => [] | e :: t => vstrs icase e ++ go t end) l
    | VInter l =>
        match l with
        | [] => []
        | h :: t =>
            filter (fun s => (fix go (l : list vexpr) : bool :=
                                match l with [] => true | e :: t => str_in s (vstrs icase e) && go t end) t) (vstrs icase h)
        end
    | VSub l =>
        match l with
        | [] => []
        | h :: t =>
            filter (fun s => negb ((fix go (l : list vexpr) : bool :=
                                      match l with [] => false | e :: t => str_in s (vstrs icase e) || go t end) t)) (vstrs icase h)
        end
    | _ => []
    end.

  Definition peek (d : dir) (p : nat) : option (N * nat) :=
    match d with
    | Fwd => match nth_error inp p with Some c => Some (c, S p) | None => None end
    | Bwd => match p with
             | O => None
             | S q => match nth_error inp q with Some c => Some (c, q) | None => None end
             end
    end.
  Definition one (d : dir) (x : mstate) (ok : N -> bool) : list mstate :=
    match peek d (fst x) with Some (c, p') => if ok c then [(p', snd x)] else [] | None => [] end.

  (* match the code points [s] from x in direction d (Bwd: last character first) *)
  Fixpoint str_match (d : dir) (s : list N) (icase : bool) (x : mstate) : list mstate :=
    match s with
    | [] => [x]
    | c :: t =>
        match d with
        | Fwd => flat_map (str_match d t icase) (one d x (char_matches c icase))
        | Bwd => flat_map (fun y => one d y (char_matches c icase)) (str_match d t icase x)
        end
    end.

  Fixpoint slice_eq (icase : bool) (a p len : nat) : bool :=
    match len with
    | O => true
    | S k => match nth_error inp a, nth_error inp p with
             | Some x, Some y => (if icase then canon x =? canon y else x =? y) && slice_eq icase (S a) (S p) k
             | _, _ => false
             end
    end.

  Definition word_at (extra : bool) (p : nat) : bool :=
    match nth_error inp p with Some c => is_word extra c | None => false end.
  Definition word_before (extra : bool) (p : nat) : bool :=
    match p with O => false | S q => word_at extra q end.

  Definition omax_zero (m : option nat) := match m with Some O => true | _ => false end.
  Definition opred (m : option nat) := match m with Some k => Some (pred k) | None => None end.

  (* longest strings first (stable), as ClassStringDisjunction alternatives are tried *)
  Fixpoint insert_by_len (s : list N) (l : list (list N)) : list (list N) :=
    match l with
    | [] => [s]
    | x :: t => if (length x <? length s)%nat then s :: l else x :: insert_by_len s t
    end.
  Definition longest_first (l : list (list N)) : list (list N) := fold_left (fun acc s => insert_by_len s acc) l [].

  Fixpoint es_results (fuel : nat) (r : regex) (d : dir) (x : mstate) {struct fuel} : option (list mstate) :=
    match fuel with
    | O => None
    | S f =>
      let '(p, cp) := x in
      match r with
      | REmpty => Some [x]
      | RChar c ic => Some (one d x (char_matches c ic))
      | RAny dotall => Some (one d x (fun c => dotall || negb (is_lt c)))
      | RClass inv rs ic => Some (one d x (fun c => xorb inv (set_matches rs ic c)))
      | RStrClass strs rs ic =>
          (* strings of length <> 1, longest first; single characters behave as set members *)
          Some (flat_map (fun s => str_match d s ic x) (longest_first (filter (fun s => (1 <? length s)%nat) strs))
                ++ one d x (fun c => set_matches rs ic c
                                     || existsb (fun s => match s with [a] => char_matches a ic c | _ => false end) strs)
                ++ (if existsb (fun s => match s with [] => true | _ => false end) strs then [x] else []))
      | RVClass e ic =>
          let ss := vstrs ic e in
          Some (flat_map (fun s => str_match d s ic x) (longest_first (filter (fun s => (1 <? length s)%nat) ss))
                ++ one d x (vmem ic e)
                ++ (if existsb (fun s => match s with [] => true | _ => false end) ss then [x] else []))
      | RSeq a b =>
          let '(r1, r2) := match d with Fwd => (a, b) | Bwd => (b, a) end in
          match es_results f r1 d x with Some l => obind (es_results f r2 d) l | None => None end
      | RAlt a b =>
          match es_results f a d x, es_results f b d x with Some u, Some v => Some (u ++ v) | _, _ => None end
      | RGroup gid body =>
          match es_results f body d x with
          | Some l => Some (map (fun y => (fst y, set_nth gid
                                    (Some (match d with Fwd => (p, fst y) | Bwd => (fst y, p) end)) (snd y))) l)
          | None => None
          end
      | RBackRef gids ic =>
          (* the participating group among gids (at most one can have participated) *)
          let cap := fold_left (fun acc g => match acc with Some _ => acc | None => nth g cp None end) gids None in
          Some (match cap with
                | None => [x]
                | Some (s, e) =>
                    let len := (e - s)%nat in
                    match d with
                    | Fwd => if (p + len <=? length inp)%nat && slice_eq ic s p len then [((p + len)%nat, cp)] else []
                    | Bwd => if (len <=? p)%nat && slice_eq ic s (p - len) len then [((p - len)%nat, cp)] else []
                    end
                end)
      | RQuant body min max g gs ge =>
          if omax_zero max then Some [x] else
          match es_results f body d (p, reset_range cp gs (ge - gs) None) with
          | None => None
          | Some qs =>
            match obind (fun q => if (min =? 0)%nat && (fst q =? p)%nat then Some []
                                  else es_results f (RQuant body (pred min) (opred max) g gs ge) d q) qs with
            | None => None
            | Some iter => Some (if (0 <? min)%nat then iter else if g then iter ++ [x] else x :: iter)
            end
          end
      | RLook ahead neg body =>
          match es_results f body (if ahead then Fwd else Bwd) x with
          | None => None
          | Some [] => Some (if neg then [x] else [])
          | Some (y :: _) => Some (if neg then [] else [(p, snd y)])
          end
      | RBol ml =>
          Some (if (p =? 0)%nat || (ml && match p with
                                          | O => false
                                          | S q => match nth_error inp q with Some c => is_lt c | None => false end
                                          end) then [x] else [])
      | REol ml =>
          Some (if (p =? length inp)%nat || (ml && match nth_error inp p with Some c => is_lt c | None => false end)
                then [x] else [])
      | RWordB inv extra => Some (if xorb inv (xorb (word_before extra p) (word_at extra p)) then [x] else [])
      end
    end.

  (* leftmost search from [start]: Some (Some (start, end, caps)) | Some None ; outer None = out of fuel *)
  Fixpoint search (fuel : nat) (r : regex) (ngroups : nat) (start : nat) (tries : nat)
    : option (option (nat * nat * caps)) :=
    match tries with
    | O => Some None
    | S t =>
        match es_results fuel r Fwd (start, repeat None ngroups) with
        | None => None
        | Some (y :: _) => Some (Some (start, fst y, snd y))
        | Some [] => if (start <? length inp)%nat then search fuel r ngroups (S start) t else Some None
        end
    end.

  Definition es_first (fuel : nat) (r : regex) (ngroups : nat) (start : nat) : option (option (nat * nat * caps)) :=
    search fuel r ngroups start (S (length inp)).
End Sem.
