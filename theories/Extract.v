(* Extract.v — extraction of the executable models to OCaml for the correspondence driver.
   ExtrOcamlBasic only: bool, option, unit, list, prod, sumbool, sumor map to OCaml's; N, Z, positive,
   nat stay the extracted inductive types. *)
From Coq Require Import Extraction ExtrOcamlBasic.
From RV.Proofs Require Import Utf8Facts Utf8Valid.
From RV Require Import Base.
From RV.Model Require Import Utf8 Indexer CodePointSet Insn Fold IR Optimizer Unfold Emit Pike BT Exec Api.
From RV.Spec Require Import LitSpec Spec IRSem IRShape.
From RV.Model Require Import Props Searcher ClassSet Utf16.
From RV.Ref Require Import RefProps RefCanon.

Definition ix_utf8 : indexer := utf8_indexer fold_code_point.
Definition ix_ascii : indexer := ascii_indexer.

Definition drv_bt (ascii : bool) (prog : program) (h : hay) (budget : N) (fuel start : nat) :=
  bt_matches (if ascii then ix_ascii else ix_utf8) prog h budget fuel start.
Definition drv_pk (ascii : bool) (prog : program) (h : hay) (budget : N) (fuel start : nat) :=
  pk_matches (if ascii then ix_ascii else ix_utf8) prog h budget fuel start.

Extraction Language OCaml.
Definition drv_ident (text : list N) (ms : list amatch) :=
  replace_all_with text ms (fun m => AOk (text_slice text (am_range m))).
Definition drv_first_ident (text : list N) (ms : list amatch) :=
  replace_with text ms (fun m => AOk (text_slice text (am_range m))).
Definition drv_all_const (text : list N) (ms : list amatch) (c : list N) :=
  replace_all_with text ms (fun _ => AOk c).

Definition drv_lit_occ (icase unicode : bool) (s : list N) (t : list N) :=
  lit_occurrences (fun c => if icase then fold_code_point c unicode else c) s t.

Definition drv_es_first (unicode : bool) (inp : list N) (fuel : nat) (r : regex) (ngroups start : nat) :=
  es_first (fun c => fold_code_point c unicode) (fun c => if unicode then unfold_char c else unfold_uppercase_char c)
           inp fuel r ngroups start.

Definition drv_ir_first (ascii unicode utf16 : bool) (h : list N) (fuel : nat) (n : node) (ngroups start : nat) :=
  ir_search (if ascii then ix_ascii else ix_utf8) unicode utf16 h fuel (ir_top n) ngroups (S (S (length h))) start.

Extraction "model.ml" drv_ir_first ir_wf ir_top look_wf bt_wf brackets_wf qok simple parsed utf8_chars text_ok_b pref_walk_ok searcher_test walk_ok ix_utf8 s_run r_run fs_init rs_init property_lookup ref_binary ref_gc ref_gc_named ref_sc ref_scx ref_strings ref_probes canon_ref eqclass_ref cps_add cps_add_one cps_add_set cps_inverted cps_inverted_interval_count cps_remove cps_intersect cps_contains cps_wf
  class_node char_node dot_node make_cat make_alt eval vmcs u16_next_right u16_next_left ucs2_next_right ucs2_next_left add_icase_code_points_for unfold_char unfold_uppercase_char drv_es_first optimize emit drv_lit_occ drv_bt drv_pk fold_code_point
  group named_group named_groups groups replace replace_all drv_ident drv_first_ident drv_all_const escape.
