// gen_ref.js — reference Unicode data from an independent implementation (V8 / ICU via node):
//   node gen_ref.js <proptables.json> <out-dir>
// Writes ref_props.json: for every (kind, name) regress accepts, the code point ranges V8 assigns to
//   \p{name} / \p{gc=..} / \p{sc=..} / \p{scx=..} (or "REJECTED"); plus probe names regress must reject.
// ref_strings.json: the strings of every property of strings under /v.
// ref_fold.json: simple-case-folding equivalence classes (from /iu matching) and the legacy
//   Canonicalize map (toUpperCase rule of ES §22.2.2.7.3) as [c, canon(c)] pairs for non-identity points.
const fs = require('fs');
const P = JSON.parse(fs.readFileSync(process.argv[2], 'utf8'));
const out = process.argv[3];
const parts = []; for (let c = 0; c <= 0x10FFFF; c++) parts.push(String.fromCodePoint(c));
function ranges(re) { const r = []; let start = -1;
  for (let c = 0; c <= 0x10FFFF; c++) { const m = re.test(parts[c]); if (m && start < 0) start = c; if (!m && start >= 0) { r.push([start, c - 1]); start = -1; } }
  if (start >= 0) r.push([start, 0x10FFFF]); return r; }
const cache = new Map();
function setOf(expr) { if (cache.has(expr)) return cache.get(expr); let v;
  try { v = ranges(new RegExp('^\\p{' + expr + '}$', 'u')); } catch (e) { v = 'REJECTED'; } cache.set(expr, v); return v; }
const props = { binary: {}, gc: {}, gc_named: {}, sc: {}, scx: {} };
for (const [n] of P.maps.binary) props.binary[n] = setOf(n);
for (const [n] of P.maps.gc) { props.gc[n] = setOf(n); props.gc_named[n] = setOf('gc=' + n); }
for (const [n] of P.maps.sc) props.sc[n] = setOf('sc=' + n);
for (const [n] of P.maps.scx) props.scx[n] = setOf('scx=' + n);
// names that are NOT in the ECMAScript tables: every one of these must be rejected by both
const probes = ['Hrkt', 'Katakana_Or_Hiragana', 'sc=Hrkt', 'Block=Basic_Latin', 'InBasicLatin', 'alpha', 'ALPHABETIC', 'lu', 'L&', 'LC ', 'Composition_Exclusion',
  'Expands_On_NFC', 'Grapheme_Link', 'Hyphen', 'Other_Alphabetic', 'Other_Lowercase', 'Other_Math', 'Prepended_Concatenation_Mark', 'Full_Composition_Exclusion',
  'sc=Zzzz ', 'Script=latin', 'scx=', 'gc=', 'General_Category=Alphabetic', 'Script=Lu', 'Age=1.1', 'Numeric_Type=Decimal', 'East_Asian_Width=W', 'IsAlphabetic', 'Any=Y', 'ASCII=Y', 'Emoji=true'];
props.probes = {}; for (const p of probes) { let ok = true; try { new RegExp('\\p{' + p + '}', 'u'); } catch (e) { ok = false; } props.probes[p] = ok; }
fs.writeFileSync(out + '/ref_props.json', JSON.stringify(props));
// properties of strings
const strs = {};
for (const [n] of P.strings) {
  // candidates: the strings regress lists for this property, plus all single code points
  const tname = P.strings.find(x => x[0] === n)[1];
  const cand = P.strsets[tname].map(s => String.fromCodePoint(...s));
  let re; try { re = new RegExp('^\\p{' + n + '}$', 'v'); } catch (e) { strs[n] = 'REJECTED'; continue; }
  const members = new Set();
  for (const s of cand) if (re.test(s)) members.add(s);
  const singles = ranges(re);      // single code point members
  // also try every candidate of the largest set (RGI_Emoji) to find members regress does not list
  for (const t of Object.keys(P.strsets)) for (const s of P.strsets[t]) { const x = String.fromCodePoint(...s); if (re.test(x)) members.add(x); }
  strs[n] = { members: [...members].map(s => [...s].map(ch => ch.codePointAt(0))), singles };
}
fs.writeFileSync(out + '/ref_strings.json', JSON.stringify(strs));
// case folding
function legacyCanon(c) { if (c >= 0xD800 && c <= 0xDFFF) return c; const u = parts[c].toUpperCase(); const cps = [...u];
  if (cps.length !== 1) return c; const uc = cps[0].codePointAt(0); if (c >= 128 && uc < 128) return c; return uc; }
const legacy = []; for (let c = 0; c <= 0x10FFFF; c++) { const u = legacyCanon(c); if (u !== c) legacy.push([c, u]); }
const cased = []; for (let c = 0; c <= 0x10FFFF; c++) { if (c >= 0xD800 && c <= 0xDFFF) continue; const s = parts[c];
  if (s.toLowerCase() !== s || s.toUpperCase() !== s) cased.push(c); }
// add images and a margin of candidates: every code point that some cased character matches under /iu
const candSet = new Set(cased);
for (const c of cased) { for (const d of [...parts[c].toLowerCase(), ...parts[c].toUpperCase()]) candSet.add(d.codePointAt(0)); }
const cand = [...candSet].sort((a, b) => a - b);
const all = cand.map(c => parts[c]).join('');
const classes = []; const seen = new Set();
for (const c of cand) { if (seen.has(c)) continue;
  const re = new RegExp('\\u{' + c.toString(16) + '}', 'giu');
  const ms = [...new Set((all.match(re) || []).map(x => x.codePointAt(0)))].sort((a, b) => a - b);
  for (const d of ms) seen.add(d);
  if (ms.length > 1) classes.push(ms); }
fs.writeFileSync(out + '/ref_fold.json', JSON.stringify({ legacy, classes, unicode: process.versions.unicode, icu: process.versions.icu, v8: process.versions.v8 }));
console.log('props', Object.keys(props.binary).length + Object.keys(props.gc).length * 2 + Object.keys(props.sc).length * 2, 'fold classes', classes.length, 'legacy', legacy.length, 'unicode', process.versions.unicode);
