// v8_syntax.js — accept/reject oracle for C08: reads "Z id cps flags result" lines (rvharness advfuzz),
// builds the pattern as a JS string (code points -> UTF-16, lone surrogates kept) and asks V8.
// Prints "D id cps flags regress=<ok|err> v8=<ok|err>" for every disagreement and a SUMMARY line.
// Constructs this V8 does not implement (inline modifiers, duplicate named groups) are skipped.
const rl = require('readline').createInterface({ input: process.stdin });
let n = 0, dis = 0, skipped = 0;
rl.on('line', (line) => {
  const t = line.split(' ');
  if (t[0] !== 'Z') return;
  const cps = t[2] === '-' ? [] : t[2].split(',').map(x => parseInt(x, 16));
  const flags = t[3] === '-' ? '' : t[3];
  let s = '';
  for (const c of cps) s += (c >= 0xD800 && c <= 0xDFFF) ? String.fromCharCode(c) : String.fromCodePoint(c);
  if (/\(\?[ims-]+:/.test(s) || /\(\?-?:/.test(s)) { skipped++; return; }
  const names = [...s.matchAll(/\(\?<([A-Za-z0-9_]+)>/g)].map(m => m[1]);
  if (new Set(names).size !== names.length) { skipped++; return; }
  let v8;
  try { new RegExp(s, flags); v8 = 'ok'; } catch (e) { v8 = 'err'; }
  n++;
  if (t[4] !== v8) { dis++; console.log('D', t[1], t[2], t[3], 'regress=' + t[4], 'v8=' + v8); }
});
rl.on('close', () => console.log('SUMMARY compared=' + n + ' disagreements=' + dis + ' skipped=' + skipped));
