(* srchdrv.ml — C20: the std Searcher / ReverseSearcher contract evaluated on the implementation's step
   sequences, and the correspondence with the model of RegexSearcher. *)
open Model
module String = Stdlib.String
module List = Stdlib.List
type string = Stdlib.String.t
open Conv

let split s = List.filter (fun x -> x <> "") (String.split_on_char ' ' s)
let ios = int_of_string
type step = M of int * int | R of int * int | D

let rec parse_steps toks = match toks with
  | "M" :: a :: b :: t -> M (ios a, ios b) :: parse_steps t
  | "R" :: a :: b :: t -> R (ios a, ios b) :: parse_steps t
  | "D" :: t -> D :: parse_steps t
  | [] -> []
  | _ -> failwith "steps"
let show st = String.concat "," (List.map (function M (a, b) -> Printf.sprintf "M%d-%d" a b | R (a, b) -> Printf.sprintf "R%d-%d" a b | D -> "D") st)

let run () =
  let cases = ref 0 and checks = ref 0 and mism = ref 0 and pviol = ref 0 and nontrivial = ref 0 and skipped = ref 0 in
  let id = ref "" and pat = ref "" and hay = ref "" in
  let ms : (int * int) list ref = ref [] in
  let fsteps = ref [] and bsteps = ref [] in
  let ff : (int * (int * int) option) list ref = ref [] in
  let bmodel = ref [] in
  let viol d = incr pviol; Printf.printf "PROPVIOL prop=C20 case=%s pat=%s flags=- hay=%s start=0 detail=%s\n" !id !pat !hay d in
  let bytes () = if !hay = "-" then [||] else Array.init (String.length !hay / 2) (fun i -> int_of_string ("0x" ^ String.sub !hay (2 * i) 2)) in
  let boundary b p = let n = Array.length b in p = n || (p < n && (b.(p) < 128 || b.(p) >= 192)) in
  (* forward tiling: ranges adjacent from 0 to len, then Done *)
  let tiles_forward st len b =
    let rec go cur l = (match l with
      | [D] -> cur = len
      | (M (a, e) | R (a, e)) :: t -> a = cur && a <= e && e <= len && boundary b a && boundary b e && go e t
      | _ -> false) in go 0 st in
  let tiles_backward st len b =
    let rec go cur l = (match l with
      | [D] -> cur = 0
      | (M (a, e) | R (a, e)) :: t -> e = cur && a <= e && boundary b a && boundary b e && go a t
      | _ -> false) in go len st in
  (try while true do
    let line = input_line stdin in
    match split line with
    | "S" :: i :: p :: h :: _ -> incr cases; id := i; pat := p; hay := h; ms := []; fsteps := []; bsteps := []
    | "I" :: _ :: rest -> let rec go l = (match l with a :: b :: t -> (ios a, ios b) :: go t | _ -> []) in ms := go rest
    | "G" :: rest ->
      let rec go l = (match l with p :: "-" :: "-" :: t -> (ios p, None) :: go t | p :: a :: e :: t -> (ios p, Some (ios a, ios e)) :: go t | _ -> []) in
      ff := go rest
    | "F" :: rest ->
      incr checks;
      let st = parse_steps rest in fsteps := st;
      let b = bytes () in let len = Array.length b in
      (* the model of Searcher::next on the implementation's own find_from answers *)
      let find_from p = (match List.assoc_opt (int_of_nat p) !ff with Some (Some (a, e)) -> Some (nat_of_int a, nat_of_int e) | _ -> None) in
      let next_boundary p = (let rec nb q = if q >= len || boundary b q then q else nb (q + 1) in nat_of_int (nb (int_of_nat p + 1))) in
      let conv = List.map (function SMatch (a, e) -> M (int_of_nat a, int_of_nat e) | SReject (a, e) -> R (int_of_nat a, int_of_nat e) | SDone -> D) in
      let model = conv (s_run (nat_of_int len) find_from next_boundary (nat_of_int (4 * len + 8)) fs_init) in
      if model <> st then begin incr mism; Printf.printf "MISMATCH stage=S7-searcher case=%s pat=%s hay=%s what=next impl=%s model=%s\n" !id !pat !hay (show st) (show model) end;
      let modelb = conv (r_run (nat_of_int (4 * len + 8)) (rs_init (nat_of_int len) (List.map (fun (a, e) -> (nat_of_int a, nat_of_int e)) !ms))) in
      bmodel := modelb;
      if List.length st > 2 then incr nontrivial;
      if not (tiles_forward st len b) then viol (Printf.sprintf "forward-steps-do-not-tile-[0,%d]:%s" len (show st));
      let matches = List.filter_map (function M (a, e) -> Some (a, e) | _ -> None) st in
      if matches <> !ms then viol (Printf.sprintf "forward-Match-steps<>find_iter:%s" (show st))
    | "B" :: rest ->
      incr checks;
      let st = parse_steps rest in bsteps := st;
      if !bmodel <> st then begin incr mism; Printf.printf "MISMATCH stage=S7-searcher case=%s pat=%s hay=%s what=next_back impl=%s model=%s\n" !id !pat !hay (show st) (show !bmodel) end;
      let b = bytes () in let len = Array.length b in
      if not (tiles_backward st len b) then viol (Printf.sprintf "backward-steps-do-not-tile-[0,%d]:%s" len (show st))
    | "X" :: rest ->
      incr checks;
      let rec go l (f, bk) = (match l with
        | "f" :: t -> let (s, r) = (match t with "M" :: a :: b :: r -> ([M (ios a, ios b)], r) | "R" :: a :: b :: r -> ([R (ios a, ios b)], r) | "D" :: r -> ([D], r) | _ -> failwith "X") in go r (f @ s, bk)
        | "b" :: t -> let (s, r) = (match t with "M" :: a :: b :: r -> ([M (ios a, ios b)], r) | "R" :: a :: b :: r -> ([R (ios a, ios b)], r) | "D" :: r -> ([D], r) | _ -> failwith "X") in go r (f, bk @ s)
        | [] -> (f, bk)
        | _ -> failwith "X2") in
      let (f, bk) = go rest ([], []) in
      if f <> !fsteps then viol "interleaved-forward-steps-differ-from-forward-only";
      if bk <> !bsteps then viol "interleaved-backward-steps-differ-from-backward-only"
    | [] -> ()
    | "K" :: n :: _ -> skipped := !skipped + int_of_string n   (* cases over the step budget, skipped by the harness *)
    | _ -> failwith ("bad line: " ^ line)
  done with End_of_file -> ());
  Printf.printf "SUMMARY cases=%d runs=%d mismatches=%d nontrivial=%d propviol=%d skipped_over_budget=%d\n" !cases !checks !mism !nontrivial !pviol !skipped
