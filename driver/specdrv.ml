(* specdrv.ml — end-to-end check of C01: regress's first match vs the reference semantics Spec.v. *)
open Model
module String = Stdlib.String
module List = Stdlib.List
type string = Stdlib.String.t
open Conv

let split s = List.filter (fun x -> x <> "") (String.split_on_char ' ' s)
let ios = int_of_string
let bos s = s = "1"
let rec take n l = if n = 0 then ([], l) else match l with [] -> failwith "take" | x :: t -> let (a, b) = take (n - 1) t in (x :: a, b)
let nn s = n_of_int (ios s)
let rec pairs l = match l with [] -> [] | a :: b :: t -> (nn a, nn b) :: pairs t | _ -> failwith "pairs"

(* v-mode class expression, prefix form: c cp | r a b | e neg k a1 b1 .. | s k len cps.. | U k .. | I k .. | S k .. | N e *)
let rec parse_ve (toks : string list) : vexpr * string list =
  let many k t = (let rec go k t = if k = 0 then ([], t) else let (e, r) = parse_ve t in let (es, r2) = go (k - 1) r in (e :: es, r2) in go k t) in
  match toks with
  | "c" :: c :: t -> (VCh (nn c), t)
  | "r" :: a :: b :: t -> (VRange (nn a, nn b), t)
  | "e" :: ng :: k :: t -> let (a, r) = take (2 * ios k) t in (VEsc (bos ng, pairs a), r)
  | "s" :: k :: t ->
    let rec strs k t = if k = 0 then ([], t) else
      (match t with len :: t' -> let (a, r) = take (ios len) t' in let (xs, r2) = strs (k - 1) r in (List.map nn a :: xs, r2) | [] -> failwith "VCls s") in
    let (ss, r) = strs (ios k) t in (VStrs ss, r)
  | "U" :: k :: t -> let (es, r) = many (ios k) t in (VUnion es, r)
  | "I" :: k :: t -> let (es, r) = many (ios k) t in (VInter es, r)
  | "S" :: k :: t -> let (es, r) = many (ios k) t in (VSub es, r)
  | "N" :: t -> let (e, r) = parse_ve t in (VNeg e, r)
  | _ -> failwith "VCls"

(* the IR of a class (^E$): Cat 3 Anchor .. X Anchor .., X built from Empty / Brk / SS / Alt *)
let rec parse_cnode (toks : string list) : node * string list =
  match toks with
  | "Empty" :: t -> (NEmpty, t)
  | "Goal" :: t -> (NGoal, t)
  | "WB" :: i :: u :: t -> (NWordBoundary (bos i, bos u), t)
  | "Char" :: c :: t -> (NChar (nn c), t)
  | "CSet" :: k :: t -> let (a, r) = take (ios k) t in (NCharSet (List.map nn a), r)
  | "Any" :: t -> (NMatchAny, t)
  | "AnyNL" :: t -> (NMatchAnyExceptLT, t)
  | "Anchor" :: s :: m :: t -> (NAnchor (bos s, bos m), t)
  | "Brk" :: inv :: k :: t -> let (a, r) = take (2 * ios k) t in (NBracket { br_invert = bos inv; br_ivs = pairs a }, r)
  | "SS" :: ic :: k :: t ->
    let rec go k t = if k = 0 then ([], t) else
      (match t with
       | len :: t' -> let (a, r) = take (ios len) t' in let (xs, r2) = go (k - 1) r in (List.map nn a :: xs, r2)
       | [] -> failwith "SS") in
    let (alts, r) = go (ios k) t in (NStringSet (alts, bos ic), r)
  | "Alt" :: t -> let (a, r) = parse_cnode t in let (b, r2) = parse_cnode r in (NAlt (a, b), r2)
  | "Loop" :: mn :: mx :: g :: gs :: ge :: t ->
    let (c, r) = parse_cnode t in
    (NLoop (c, nn mn, (if mx = "-" then None else Some (nn mx)), bos g, nat_of_int (ios gs), nat_of_int (ios ge)), r)
  | "LA" :: ng :: bw :: sg :: eg :: t ->
    let (c, r) = parse_cnode t in (NLookaround (bos ng, bos bw, nat_of_int (ios sg), nat_of_int (ios eg), c), r)
  | "Cat" :: k :: t ->
    let rec go k t = if k = 0 then ([], t) else let (x, r) = parse_cnode t in let (xs, r2) = go (k - 1) r in (x :: xs, r2) in
    let (l, r) = go (ios k) t in (NCat l, r)
  | _ -> failwith ("parse_cnode: " ^ String.concat " " (match toks with a :: b :: _ -> [a; b] | l -> l))

let rec parse (toks : string list) : regex * string list =
  match toks with
  | "E" :: t -> (REmpty, t)
  | "C" :: c :: ic :: t -> (RChar (nn c, bos ic), t)
  | "Any" :: d :: t -> (RAny (bos d), t)
  | "Cls" :: inv :: ic :: k :: t -> let (a, r) = take (2 * ios k) t in (RClass (bos inv, pairs a, bos ic), r)
  | "SCls" :: ic :: ns :: t ->
    let rec strs k t = if k = 0 then ([], t) else
      (match t with len :: t' -> let (a, r) = take (ios len) t' in let (xs, r2) = strs (k - 1) r in (List.map nn a :: xs, r2) | [] -> failwith "SCls") in
    let (ss, r) = strs (ios ns) t in
    (match r with k :: r' -> let (a, r2) = take (2 * ios k) r' in (RStrClass (ss, pairs a, bos ic), r2) | [] -> failwith "SCls2")
  | "VCls" :: ic :: t -> let (e, r) = parse_ve t in (RVClass (e, bos ic), r)
  | "Seq" :: t -> let (a, r) = parse t in let (b, r2) = parse r in (RSeq (a, b), r2)
  | "Alt" :: t -> let (a, r) = parse t in let (b, r2) = parse r in (RAlt (a, b), r2)
  | "Grp" :: id :: t -> let (a, r) = parse t in (RGroup (nat_of_int (ios id), a), r)
  | "BR" :: ic :: k :: t -> let (a, r) = take (ios k) t in (RBackRef (List.map (fun x -> nat_of_int (ios x)) a, bos ic), r)
  | "Q" :: mn :: mx :: g :: gs :: ge :: t ->
    let (a, r) = parse t in
    (RQuant (a, nat_of_int (ios mn), (if mx = "-" then None else Some (nat_of_int (ios mx))), bos g, nat_of_int (ios gs), nat_of_int (ios ge)), r)
  | "Look" :: ah :: ng :: t -> let (a, r) = parse t in (RLook (bos ah, bos ng, a), r)
  | "Bol" :: m :: t -> (RBol (bos m), t)
  | "Eol" :: m :: t -> (REol (bos m), t)
  | "WB" :: inv :: ex :: t -> (RWordB (bos inv, bos ex), t)
  | _ -> failwith ("spec parse: " ^ String.concat " " (match toks with a :: b :: _ -> [a; b] | l -> l))

(* decode UTF-8 bytes to code points with the byte offset of every boundary *)
let decode (bytes : int array) : int list * int array =
  let n = Array.length bytes in
  let cps = ref [] and offs = ref [] in
  let i = ref 0 in
  while !i < n do
    offs := !i :: !offs;
    let b0 = bytes.(!i) in
    if b0 < 128 then (cps := b0 :: !cps; i := !i + 1)
    else if b0 land 0xE0 = 0xC0 then (cps := ((b0 land 31) lsl 6) lor (bytes.(!i + 1) land 63) :: !cps; i := !i + 2)
    else if b0 land 0xF0 = 0xE0 then (cps := ((b0 land 15) lsl 12) lor ((bytes.(!i + 1) land 63) lsl 6) lor (bytes.(!i + 2) land 63) :: !cps; i := !i + 3)
    else (cps := ((b0 land 7) lsl 18) lor ((bytes.(!i + 1) land 63) lsl 12) lor ((bytes.(!i + 2) land 63) lsl 6) lor (bytes.(!i + 3) land 63) :: !cps; i := !i + 4)
  done;
  offs := n :: !offs;
  (List.rev !cps, Array.of_list (List.rev !offs))

exception Timeout
let run () =
  Sys.set_signal Sys.sigalrm (Sys.Signal_handle (fun _ -> raise Timeout));
  let cases = ref 0 and runs = ref 0 and pviol = ref 0 and nontrivial = ref 0 and fuelout = ref 0 and rej = ref 0 in
  let id = ref "" and pat = ref "" and flags = ref "" and ngroups = ref 0 and unicode = ref false in
  let re : regex option ref = ref None in
  let jn = ref 0 and mism = ref 0 and kn = ref 0 and an = ref 0 and altn = ref 0 in
  let fuel = nat_of_int_big 600 in
  (try while true do
    let line = input_line stdin in
    match split line with
    | "P" :: i :: p :: f :: ng :: u :: _ -> incr cases; id := i; pat := p; flags := f; ngroups := ios ng; unicode := bos u; re := None
    | "A" :: toks -> re := Some (fst (parse toks))
    | "J" :: toks ->
      (* S1 (atoms): ^ a1 ... ak $ - the flat Cat the parser builds against the models of the functions that build each
         atom (Parser::char_node, the dot, the class set evaluation) *)
      let rec flat r = (match r with RSeq (a, b) -> a :: flat b | x -> [x]) in
      let atom_node a = (match a with
        | RChar (c, ic) -> (match char_node ic !unicode c with Ok m -> Some m | _ -> None)
        | RAny d -> Some (dot_node d)
        | RVClass (e, ic) -> Some (class_node ic e)
        | RBol ml -> Some (NAnchor (true, ml))
        | REol ml -> Some (NAnchor (false, ml))
        | RWordB (inv, extra) -> Some (NWordBoundary (inv, extra))
        | _ -> None) in
      (match !re, fst (parse_cnode toks) with
       | Some (RAlt (_, _) as r), NCat [x; NGoal] ->
         (* an alternation of terms of atoms: make_alt over make_cat *)
         let rec alts r = (match r with RAlt (a, b) -> a :: alts b | y -> [y]) in
         let term r = (match r with REmpty -> [] | y -> flat y) in
         (* a factor that is an alternation is a non-capturing group (the generator never puts one alone in a term) *)
         let rec group_node r : node option =
           (let ts = List.map term (alts r) in
            let fs = List.map (fun t -> List.map (fun x -> match x with
                | RAlt (_, _) -> group_node x
                (* a lookahead over terms of the fragment (no capture groups: start_group = end_group = 0) *)
                | RLook (true, ng, b) -> (match group_node b with Some m -> Some (NLookaround (ng, false, nat_of_int 0, nat_of_int 0, m)) | None -> None)
                (* r{m,n} (incl. ? * +), greedy or lazy, over a factor of the fragment: the Loop node of the parser (no capture groups enclosed) *)
                | RQuant (b, mn, mx, g, _, _) when (match mx with None -> true | Some m -> int_of_nat mn <= int_of_nat m) ->
                  (match group_node b with
                   | Some m -> Some (NLoop (m, n_of_int (int_of_nat mn), (match mx with None -> None | Some x -> Some (n_of_int (int_of_nat x))), g, nat_of_int 0, nat_of_int 0))
                   | None -> None)
                | y -> atom_node y) t) ts in
            if List.for_all (List.for_all (fun o -> o <> None)) fs then begin
              let ns = List.map (fun t -> make_cat (List.map (fun o -> match o with Some m -> m | None -> NEmpty) t)) fs in
              Some (make_alt (nat_of_int (List.length ns + 1)) ns) end
            else None) in
         (match group_node r with
          | None -> ()
          | Some m ->
           incr altn;
           if m <> x then begin
             incr mism;
             Printf.printf "MISMATCH stage=S1-alt case=%s pat=%s flags=%s detail=model-of-make_alt/make_cat-differs\n" !id !pat !flags end)
       | Some r, NCat [NCat body; NGoal] ->
         let rs = flat r in
         let n = List.length rs in
         if n >= 3 && List.length body = n then begin
           let mid l = l in
           List.iter2 (fun a x ->
             let ok = (match a with
               | RVClass (e, ic) -> incr jn; class_node ic e = x
               | _ -> incr an; (match atom_node a with Some m -> m = x | None -> true)) in
             if not ok then begin
               incr mism;
               Printf.printf "MISMATCH stage=S1-atom case=%s pat=%s flags=%s detail=model-of-the-atom-node-differs\n" !id !pat !flags end)
             (mid rs) (mid body)
         end
       | _ -> ())
    | "K" :: acc :: np :: _ ->
      (* C08: the early error on [^E] against MayContainStrings of E (reference) and the flag of the class set model *)
      (match !re with
       | Some (RSeq (_, RSeq (RVClass (e, ic), _))) ->
         incr kn;
         let refd = not (vmcs e) and modeld = not (eval ic e).cs_mcs in
         if modeld <> (acc = "1") then begin
           incr mism;
           Printf.printf "MISMATCH stage=S1-classset-earlyerror case=%s pat=%s flags=%s detail=model-accepts:%b\n" !id np !flags modeld end;
         if refd <> (acc = "1") then begin
           incr pviol;
           Printf.printf "PROPVIOL prop=C08 case=%s pat=%s flags=%s hay=- start=0 detail=negated-class:regress-accepts:%s/ES-MayContainStrings-accepts:%b\n" !id np !flags acc refd end
       | _ -> ())
    | "REJ" :: i :: p :: f :: _ ->
      incr rej;
      Printf.printf "PROPVIOL prop=C08 case=%s pat=%s flags=%s hay=- start=0 detail=valid-pattern-rejected\n" i p f
    | "F" :: hx :: st :: rest ->
      incr runs;
      let bytes = if hx = "-" then [||] else Array.init (String.length hx / 2) (fun i -> int_of_string ("0x" ^ String.sub hx (2 * i) 2)) in
      let (cps, offs) = decode bytes in
      let cp_of_byte b = let r = ref (-1) in Array.iteri (fun i o -> if o = b then r := i) offs; !r in
      let start_cp = cp_of_byte (ios st) in
      (match !re with
       | None -> ()
       | Some r ->
         (* per-evaluation time box: an evaluation that does not finish is inconclusive, never a verdict *)
         let model = (try
             ignore (Unix.alarm 2);
             let m = drv_es_first !unicode (List.map n_of_int cps) fuel r (nat_of_int !ngroups) (nat_of_int start_cp) in
             ignore (Unix.alarm 0); m
           with Timeout -> (ignore (Unix.alarm 0); None)) in
         let show_caps l = String.concat "," (List.map (fun c -> match c with None -> "-" | Some (a, b) -> Printf.sprintf "%d-%d" a b) l) in
         let model_s = (match model with
           | None -> "FUEL"
           | Some None -> "N"
           | Some (Some ((s, e), caps)) ->
             let b i = offs.(int_of_nat i) in
             Printf.sprintf "M %d-%d[%s]" (b s) (b e) (show_caps (List.map (fun c -> match c with None -> None | Some (x, y) -> Some (b x, b y)) caps))) in
         let impl_s = (match rest with
           | ["N"] -> "N"
           | ["BUDGET"] -> "BUDGET"
           | ["PANIC"] -> "PANIC"
           | "M" :: s :: e :: nc :: caps ->
             let rec go k l = if k = 0 then [] else (match l with "-" :: t -> None :: go (k - 1) t | x :: y :: t -> Some (ios x, ios y) :: go (k - 1) t | _ -> failwith "caps") in
             Printf.sprintf "M %s-%s[%s]" s e (show_caps (go (ios nc) caps))
           | _ -> failwith "F line") in
         if model_s = "FUEL" || impl_s = "BUDGET" then incr fuelout
         else begin
           if String.length impl_s > 1 then incr nontrivial;
           if model_s <> impl_s then begin
             incr pviol;
             Printf.printf "PROPVIOL prop=C01 case=%s pat=%s flags=%s hay=%s start=%s detail=regress=%s/ES-reference=%s\n" !id !pat !flags hx st
               (String.concat "_" (split impl_s)) (String.concat "_" (split model_s))
           end
         end)
    | [] -> ()
    | _ -> failwith ("bad line: " ^ line)
  done with End_of_file -> ());
  Printf.printf "SUMMARY cases=%d runs=%d mismatches=%d nontrivial=%d propviol=%d inconclusive=%d rejected=%d classset_irs=%d negated_class_decisions=%d atom_irs=%d alternation_irs=%d\n" !cases !runs !mism !nontrivial !pviol !fuelout !rej !jn !kn !an !altn
