(* driver.ml — correspondence driver: reads the harness's case stream, runs the extracted models on
   the implementation's own bytecode and inputs, and reports every disagreement.
   Usage: driver exec < cases   (prints one line per disagreement and a final SUMMARY line) *)
open Model
module String = Stdlib.String
module List = Stdlib.List
type string = Stdlib.String.t
open Conv

let split (s : string) : string list = List.filter (fun x -> x <> "") (String.split_on_char ' ' s)
let ios = int_of_string
let bos s = s = "1"

let rec take n l = if n = 0 then ([], l) else match l with [] -> failwith "take" | x :: t -> let (a, b) = take (n - 1) t in (x :: a, b)
let nlist toks = match toks with [] -> failwith "nlist" | c :: t -> let (a, rest) = take (ios c) t in (List.map (fun x -> n_of_int (ios x)) a, rest)

let parse_insn (toks : string list) : insn =
  match toks with
  | ["Goal"] -> Goal
  | ["Char"; c] -> Char (n_of_string c)
  | ["SOL"; m] -> StartOfLine (bos m)
  | ["EOL"; m] -> EndOfLine (bos m)
  | ["Any"] -> MatchAny
  | ["AnyNL"] -> MatchAnyExceptLT
  | ["EnterLoop"; lid; mn; mx; g; ex] -> EnterLoop (nat_of_int (ios lid), n_of_string mn, n_of_string mx, bos g, nat_of_int (ios ex))
  | ["LoopAgain"; b] -> LoopAgain (nat_of_int (ios b))
  | ["L1"; mn; mx; g] -> Loop1CharBody (n_of_string mn, n_of_string mx, bos g)
  | ["Jump"; t] -> Jump (nat_of_int (ios t))
  | ["Alt"; t] -> Alt (nat_of_int (ios t))
  | ["BCG"; g] -> BeginCG (nat_of_int (ios g))
  | ["ECG"; g] -> EndCG (nat_of_int (ios g))
  | ["RCG"; g] -> ResetCG (nat_of_int (ios g))
  | ["BackRef"; g; ic] -> BackRef (nat_of_int (ios g), bos ic)
  | ["Bracket"; i] -> Bracket (nat_of_int (ios i))
  | "ABracket" :: rest -> AsciiBracket (fst (nlist rest))
  | ["LA"; ng; sg; eg; c] -> Lookahead (bos ng, nat_of_int (ios sg), nat_of_int (ios eg), nat_of_int (ios c))
  | ["LB"; ng; sg; eg; c] -> Lookbehind (bos ng, nat_of_int (ios sg), nat_of_int (ios eg), nat_of_int (ios c))
  | ["WB"; i] -> WordBoundary (bos i)
  | ["WBU"; i] -> WordBoundaryUnicodeICase (bos i)
  | ["CharSet"; a; b; c; d] -> CharSet (List.map n_of_string [a; b; c; d])
  | "ByteSet" :: rest -> ByteSet (fst (nlist rest))
  | "ByteSeq" :: rest -> ByteSeq (fst (nlist rest))
  | ["Fail"] -> JustFail
  | _ -> failwith ("parse_insn: " ^ String.concat " " toks)

let parse_sp (toks : string list) : startpred =
  match toks with
  | ["Arb"] -> SPArbitrary
  | "Set" :: rest -> SPByteSet (fst (nlist rest))
  | "Seq" :: rest -> SPByteSeq (fst (nlist rest))
  | "Brk" :: rest -> SPByteBracket (fst (nlist rest))
  | ["Anch"] -> SPStartAnchored
  | _ -> failwith "parse_sp"

let rec pairs l = match l with [] -> [] | a :: b :: t -> (n_of_string a, n_of_string b) :: pairs t | _ -> failwith "pairs"

let parse_hex (s : string) : n list =
  if s = "-" then [] else
  List.init (String.length s / 2) (fun i -> n_of_int (int_of_string ("0x" ^ String.sub s (2 * i) 2)))

(* matches as int structures for comparison *)
type imatch = int * int * (int * int) option list

let parse_matches (toks : string list) : imatch list =
  match toks with
  | [] -> failwith "parse_matches"
  | c :: rest ->
    let cnt = ios c in
    let rec caps k l = if k = 0 then ([], l) else
      match l with
      | "-" :: t -> let (a, b) = caps (k - 1) t in (None :: a, b)
      | x :: y :: t -> let (a, b) = caps (k - 1) t in (Some (ios x, ios y) :: a, b)
      | _ -> failwith "caps" in
    let rec go k l = if k = 0 then [] else
      match l with
      | s :: e :: nc :: t -> let (cs, rest) = caps (ios nc) t in (ios s, ios e, cs) :: go (k - 1) rest
      | _ -> failwith "matches" in
    go cnt rest

let conv_match (m : mmatch) : imatch =
  (int_of_nat m.m_start, int_of_nat m.m_end,
   List.map (fun c -> match c with None -> None | Some (a, b) -> Some (int_of_nat a, int_of_nat b)) m.m_caps)

let show_matches (ms : imatch list) : string =
  String.concat ";" (List.map (fun (s, e, cs) ->
    Printf.sprintf "%d-%d[%s]" s e (String.concat "," (List.map (fun c -> match c with None -> "-" | Some (a, b) -> Printf.sprintf "%d-%d" a b) cs))) ms)

let utf16_build = (try Sys.getenv "RV_UTF16" = "1" with Not_found -> false)
let err_name = function Oob -> "oob" | Unreach -> "unreachable" | Panic -> "panic"

let fuel_cache : (int, nat) Hashtbl.t = Hashtbl.create 4
let fuel_for (budget : int) : nat =
  match Hashtbl.find_opt fuel_cache budget with
  | Some f -> f
  | None -> let f = nat_of_int_big (budget + 2) in Hashtbl.add fuel_cache budget f; f

(* Run one model engine; returns (status, steps, matches). *)
let run_model (engine : string) (prog : program) (h : n list) (start : int) (budget : int) : string * int * imatch list =
  let ascii = (engine = "bta" || engine = "pka") in
  let prog = if engine = "btx" || engine = "pkx" then { prog with p_start_pred = SPArbitrary } else prog in
  (* with the utf16 feature the backtracking executor never uses the prefilter (next_match is cfg'd) *)
  let prog = if utf16_build && (engine = "bt8" || engine = "bta") then { prog with p_start_pred = SPArbitrary } else prog in
  let fuel = fuel_for budget in
  let fin (ms, res, steps) =
    let st = match res with IterDone -> "ok" | IterError e -> "err:" ^ err_name e | IterBudget -> "budget" in
    (st, int_of_n steps, List.map conv_match ms) in
  if engine = "bt8" || engine = "bta" || engine = "btx" then
    let ((((ms, res), steps), _), _) = drv_bt ascii prog h (n_of_int budget) fuel (nat_of_int start) in fin (ms, res, steps)
  else
    let ((((ms, res), steps), _), _) = drv_pk ascii prog h (n_of_int budget) fuel (nat_of_int start) in fin (ms, res, steps)


(* ---- IR token parser (prefix form) ---- *)
let rec parse_node (toks : string list) : node * string list =
  let nat s = nat_of_int (ios s) in
  let nn s = n_of_string s in
  let take_ns k t = let (a, r) = take k t in (List.map nn a, r) in
  match toks with
  | "Empty" :: t -> (NEmpty, t)
  | "Goal" :: t -> (NGoal, t)
  | "Char" :: c :: t -> (NChar (nn c), t)
  | "BSeq" :: k :: t -> let (a, r) = take_ns (ios k) t in (NByteSequence a, r)
  | "BSet" :: k :: t -> let (a, r) = take_ns (ios k) t in (NByteSet a, r)
  | "CSet" :: k :: t -> let (a, r) = take_ns (ios k) t in (NCharSet a, r)
  | "Cat" :: k :: t ->
    let rec go k t = if k = 0 then ([], t) else let (x, r) = parse_node t in let (xs, r2) = go (k - 1) r in (x :: xs, r2) in
    let (l, r) = go (ios k) t in (NCat l, r)
  | "Alt" :: t -> let (a, r) = parse_node t in let (b, r2) = parse_node r in (NAlt (a, b), r2)
  | "Any" :: t -> (NMatchAny, t)
  | "AnyNL" :: t -> (NMatchAnyExceptLT, t)
  | "Anchor" :: s :: m :: t -> (NAnchor (bos s, bos m), t)
  | "WB" :: i :: u :: t -> (NWordBoundary (bos i, bos u), t)
  | "CG" :: id :: nm :: t -> let (c, r) = parse_node t in (NCaptureGroup (nat id, c, (if nm = "-" then None else Some (parse_hex nm))), r)
  | "BR" :: g :: ic :: t -> (NBackRef (nn g, bos ic), t)
  | "Brk" :: inv :: k :: t -> let (a, r) = take (2 * ios k) t in (NBracket { br_invert = bos inv; br_ivs = pairs a }, r)
  | "SS" :: ic :: k :: t ->
    let rec go k t = if k = 0 then ([], t) else
      (match t with
       | len :: t' -> let (a, r) = take_ns (ios len) t' in let (xs, r2) = go (k - 1) r in (a :: xs, r2)
       | [] -> failwith "SS") in
    let (alts, r) = go (ios k) t in (NStringSet (alts, bos ic), r)
  | "LA" :: ng :: bw :: sg :: eg :: t -> let (c, r) = parse_node t in (NLookaround (bos ng, bos bw, nat sg, nat eg, c), r)
  | "Loop" :: mn :: mx :: g :: egs :: ege :: t ->
    let (c, r) = parse_node t in (NLoop (c, nn mn, (if mx = "-" then None else Some (nn mx)), bos g, nat egs, nat ege), r)
  | "L1" :: mn :: mx :: g :: t ->
    let (c, r) = parse_node t in (NLoop1CharBody (c, nn mn, (if mx = "-" then None else Some (nn mx)), bos g), r)
  | _ -> failwith ("parse_node: " ^ String.concat " " (match toks with a :: b :: c :: _ -> [a; b; c] | l -> l))

(* ---- property evaluation on the implementation's own results (no model involved) ---- *)
type rrec = { engine : string; status : string; steps : int; ms : imatch list }

exception Ir_timeout
let main_exec () =
  let budget = ref 100000 in
  (match Array.to_list Sys.argv with
   | _ :: "exec" :: b :: _ -> budget := ios b
   | _ -> ());
  let cases = ref 0 and runs = ref 0 and mism = ref 0 and nontrivial = ref 0 and api_runs = ref 0 in
  let cur_id = ref "" and cur_pat = ref "" and cur_flags = ref "" in
  let insns = ref [] and brs = ref [] and hdr = ref None in
  let prog : program option ref = ref None in
  let hay = ref [] and hayhex = ref "" and start = ref 0 in
  let total_steps = ref 0 in
  let ir0 : node option ref = ref None and ir1 : node option ref = ref None in
  let multiline = ref false and gnames : n list list ref = ref [] in
  let stage_checks = ref 0 in
  let ir_evals = ref 0 and ir_inconclusive = ref 0 and bt_covered = ref 0 and opt_covered = ref 0 in
  (* the shape the compile-correctness theorems assume of every IR: Cat [...; Goal] at the top and
     Loop1CharBody only around a node that emits one single-character instruction (IRSem.ir_wf) *)
  let check_ir_shape tag n =
    incr stage_checks;
    let top_ok = (match n with NCat l -> (match List.rev l with NGoal :: _ -> true | _ -> false) | NGoal -> true | NCharSet [] -> true | _ -> false) in
    (* ... and the invariant of the optimizer theorems (IRShape.qok): loop bounds ordered, a loop's group range = the
       groups of its body, character sets of at most four members, bracket sets well-formed *)
    if tag = "ir0" && qok n && parsed n then incr opt_covered;
    if not (top_ok && ir_wf (ir_top n) && brackets_wf (ir_top n) && qok n) then begin
      incr mism;
      Printf.printf "MISMATCH stage=IRshape-%s case=%s pat=%s flags=%s detail=top_is_cat_goal:%b,ir_wf:%b,brackets_wf:%b,qok:%b\n" tag !cur_id !cur_pat !cur_flags top_ok (ir_wf (ir_top n)) (brackets_wf (ir_top n)) (qok n)
    end in
  let ir_eval_limit = (try int_of_string (Sys.getenv "RV_IR_EVALS") with Not_found -> 4000) in
  let ir_fuel = nat_of_int_big 400 in
  Sys.set_signal Sys.sigalrm (Sys.Signal_handle (fun _ -> raise Ir_timeout));
  let utf16 = (try Sys.getenv "RV_UTF16" = "1" with Not_found -> false) in
  let group : rrec list ref = ref [] in
  let prev_opt : (string * int * string, rrec) Hashtbl.t = Hashtbl.create 64 in
  let prev_opt_id = ref "" in
  let cur_tbl : (string * int * string, rrec) Hashtbl.t = Hashtbl.create 64 in
  let pviol = ref 0 in
  let starts_tbl : (string * int, imatch list) Hashtbl.t = Hashtbl.create 64 in
  let starts_hay = ref "" in
  let inconclusive = ref 0 in
  let viol prop detail =
    incr pviol;
    Printf.printf "PROPVIOL prop=%s case=%s pat=%s flags=%s hay=%s start=%d detail=%s\n" prop !cur_id !cur_pat !cur_flags !hayhex !start detail in
  let base_id id = String.sub id 0 (String.length id - 1) in
  (* C09: iteration = repeated first-match with the lastIndex advance rule; evaluated on the
     implementation's own results across the start offsets of one haystack *)
  let check_c09 () =
    if Hashtbl.length starts_tbl > 0 then begin
      let bytes = Array.of_list (List.map int_of_n (parse_hex !starts_hay)) in
      let len = Array.length bytes in
      let is_boundary p = p = len || (p < len && (bytes.(p) < 128 || bytes.(p) >= 192)) in
      let rec next_boundary p = if p >= len then len + 1 else if is_boundary (p + 1) then p + 1 else next_boundary (p + 1) in
      let nchars = ref 0 in
      for p = 0 to len - 1 do if is_boundary p then incr nchars done;
      let saved_start = !start and saved_hay = !hayhex in
      hayhex := !starts_hay;
      Hashtbl.iter (fun (engine, st) ms ->
        start := st;
        (* invariants of one sequence *)
        let cursor = ref st and ok = ref true and cnt = ref 0 in
        List.iter (fun (s, e, caps) ->
          incr cnt;
          if not (s >= !cursor && s <= e && e <= len && is_boundary s && is_boundary e) then ok := false;
          List.iter (fun c -> match c with Some (a, b) -> if not (a <= b && b <= len && is_boundary a && is_boundary b) then ok := false | None -> ()) caps;
          cursor := if e > s then e else next_boundary e) ms;
        if not !ok then viol "C09" (Printf.sprintf "%s:sequence-not-ordered-or-out-of-range:%s" engine (show_matches ms));
        if !cnt > !nchars + 1 then viol "C09" (Printf.sprintf "%s:more-matches-than-positions" engine);
        (* unfold: tail of the sequence = the sequence started at the advanced cursor *)
        (match ms with
         | (s, e, _) :: rest ->
           let c = if e > s then e else next_boundary e in
           (match Hashtbl.find_opt starts_tbl (engine, c) with
            | Some ms2 -> if ms2 <> rest then viol "C09" (Printf.sprintf "%s:tail<>iteration-from-cursor-%d:%s/%s" engine c (show_matches rest) (show_matches ms2))
            | None -> if c > len && rest <> [] then viol "C09" (Printf.sprintf "%s:match-after-end" engine));
           (* the first match does not depend on where in [st, s] the search started *)
           for s1 = st + 1 to s do
             match Hashtbl.find_opt starts_tbl (engine, s1) with
             | Some (m2 :: _) -> if m2 <> List.hd ms then viol "C09" (Printf.sprintf "%s:first-match-differs-from-start-%d" engine s1)
             | Some [] -> viol "C09" (Printf.sprintf "%s:first-match-missed-from-start-%d" engine s1)
             | None -> ()
           done
         | [] ->
           (* nothing from st: then nothing from any later start *)
           Hashtbl.iter (fun (e2, s2) ms2 -> if e2 = engine && s2 > st && ms2 <> [] then viol "C09" (Printf.sprintf "%s:match-from-%d-but-none-from-earlier-start" engine s2)) starts_tbl)
      ) starts_tbl;
      start := saved_start; hayhex := saved_hay;
      Hashtbl.reset starts_tbl
    end in
  let flush_group () =
    let g = List.rev !group in
    group := [];
    let find e = List.find_opt (fun r -> r.engine = e) g in
    let same a b = a.status = "ok" && b.status = "ok" && a.ms = b.ms in
    let both_ok a b = a.status = "ok" && b.status = "ok" in
    (* C05: an engine exceeds the step budget although the other one (the same ordered search)
       finishes with at least a factor 50 to spare; both exceeding = exponential pattern, inconclusive *)
    let c05 a b = match find a, find b with
      | Some x, Some y ->
        if x.status = "budget" && y.status = "ok" && y.steps * 50 < !budget then viol "C05" (Printf.sprintf "%s:step-budget-exceeded(%s=%d)" a b y.steps);
        if y.status = "budget" && x.status = "ok" && x.steps * 50 < !budget then viol "C05" (Printf.sprintf "%s:step-budget-exceeded(%s=%d)" b a x.steps);
        if x.status = "budget" && y.status = "budget" then incr inconclusive;
        (* both finish, but one needs far more steps than the same ordered search in the other engine *)
        if x.status = "ok" && y.status = "ok" then begin
          if x.steps > 40 * y.steps + 2000 then viol "C05" (Printf.sprintf "%s:%d-steps-vs-%s:%d" a x.steps b y.steps);
          if y.steps > 40 * x.steps + 2000 then viol "C05" (Printf.sprintf "%s:%d-steps-vs-%s:%d" b y.steps a x.steps)
        end
      | _ -> () in
    (* the backtracker's start prefilter can legitimately make it skip every attempt the PikeVM still makes:
       when the program has a prefilter the two engines are compared on its prefilter-free twin (btx/pkx) *)
    if find "btx" <> None then c05 "btx" "pkx" else begin c05 "bt8" "pk8"; c05 "bta" "pka" end;
    List.iter (fun r -> if r.status = "panic" then viol "C06" (Printf.sprintf "%s:panic" r.engine)) g;
    (* C06: every reported range (match and captures) satisfies 0 <= start <= end <= len and lies on character boundaries *)
    if g <> [] then begin
      let bytes = Array.of_list (List.map int_of_n !hay) in
      let len = Array.length bytes in
      let boundary p = p >= 0 && p <= len && (p = len || bytes.(p) land 0xC0 <> 0x80) in
      let okr (a, b) = a <= b && boundary a && boundary b in
      List.iter (fun r ->
        if r.status = "ok" then
          match List.find_opt (fun (s, e, cs) -> s <> 99999 && not (okr (s, e) && List.for_all (fun c -> match c with None -> true | Some ab -> okr ab) cs)) r.ms with
          | Some (s, e, _) -> viol "C06" (Printf.sprintf "%s:range-%d-%d-or-a-capture-is-out-of-bounds-or-inside-a-character" r.engine s e)
          | None -> ()) g
    end;
    (* C09: the harness polls every iterator again after it returned None; a match yielded then is recorded at offset 99999 *)
    List.iter (fun r -> if List.exists (fun (s, _, _) -> s = 99999) r.ms then viol "C09" (Printf.sprintf "%s:yields-again-after-None" r.engine)) g;
    (match find "bt8", find "pk8" with
     | Some a, Some b -> if both_ok a b && not (same a b) then viol "C02" (Printf.sprintf "bt8=%s/pk8=%s" (show_matches a.ms) (show_matches b.ms))
     | _ -> ());
    (match find "bta", find "pka" with
     | Some a, Some b -> if both_ok a b && not (same a b) then viol "C02" (Printf.sprintf "bta=%s/pka=%s" (show_matches a.ms) (show_matches b.ms))
     | _ -> ());
    (* C04: the derived start predicate is transparent *)
    (match find "bt8", find "btx" with
     | Some a, Some b -> if both_ok a b && not (same a b) then viol "C04" (Printf.sprintf "bt:prefilter=%s/arbitrary=%s" (show_matches a.ms) (show_matches b.ms))
     | _ -> ());
    (match find "pk8", find "pkx" with
     | Some a, Some b -> if both_ok a b && not (same a b) then viol "C04" (Printf.sprintf "pk:prefilter=%s/arbitrary=%s" (show_matches a.ms) (show_matches b.ms))
     | _ -> ());
    (match find "bt8", find "bta" with
     | Some a, Some b -> if both_ok a b && not (same a b) then viol "C13" (Printf.sprintf "bt8=%s:%s/bta=%s:%s" a.status (show_matches a.ms) b.status (show_matches b.ms))
     | _ -> ());
    (* C03: compare with the optimized twin (case ids <k>o then <k>n) *)
    if g <> [] && !starts_hay <> !hayhex then begin check_c09 (); starts_hay := !hayhex end;
    List.iter (fun r -> if r.status = "ok" then Hashtbl.replace starts_tbl (r.engine, !start) r.ms) g;
    List.iter (fun r ->
      Hashtbl.replace cur_tbl (!hayhex, !start, r.engine) r;
      if String.length !cur_id > 0 && !cur_id.[String.length !cur_id - 1] = 'n' && base_id !cur_id = !prev_opt_id then
        match Hashtbl.find_opt prev_opt (!hayhex, !start, r.engine) with
        | Some o -> if both_ok o r && o.ms <> r.ms then viol "C03" (Printf.sprintf "%s:opt=%s/noopt=%s" r.engine (show_matches o.ms) (show_matches r.ms))
        | None -> ()) g in
  let end_case () =
    flush_group ();
    check_c09 ();
    if String.length !cur_id > 0 && !cur_id.[String.length !cur_id - 1] = 'o' then begin
      Hashtbl.reset prev_opt; Hashtbl.iter (fun k v -> Hashtbl.replace prev_opt k v) cur_tbl; prev_opt_id := base_id !cur_id
    end;
    Hashtbl.reset cur_tbl in
  let build () =
    match !prog, !hdr with
    | Some p, _ -> p
    | None, Some (nl, ng, uni, sp) ->
      let p = { p_insns = List.rev !insns; p_brackets = List.rev !brs; p_loops = nat_of_int nl;
                p_groups = nat_of_int ng; p_start_pred = sp; p_unicode = uni } in
      prog := Some p;
      (* S2: optimizer, S3: emitter + start predicate, on the implementation's own IR *)
      (match !ir0 with
       | None -> ()
       | Some n0 ->
         let emit_in = (match !ir1 with
           | Some n1 ->
             incr stage_checks;
             (match optimize utf16 n0 with
              | Ok m -> if m <> n1 then begin incr mism; Printf.printf "MISMATCH stage=S2-optimize case=%s pat=%s flags=%s\n" !cur_id !cur_pat !cur_flags end
              | Err _ -> incr mism; Printf.printf "MISMATCH stage=S2-optimize case=%s pat=%s flags=%s model=error\n" !cur_id !cur_pat !cur_flags);
             n1
           | None -> n0) in
         incr stage_checks;
         (match emit utf16 uni !multiline emit_in with
          | Ok (mp, mnames) ->
            if mp <> p then begin incr mism; Printf.printf "MISMATCH stage=S3-emit case=%s pat=%s flags=%s\n" !cur_id !cur_pat !cur_flags end
            else if mnames <> !gnames then begin incr mism; Printf.printf "MISMATCH stage=S3-names case=%s pat=%s flags=%s\n" !cur_id !cur_pat !cur_flags end
          | Err _ -> incr mism; Printf.printf "MISMATCH stage=S3-emit case=%s pat=%s flags=%s model=error\n" !cur_id !cur_pat !cur_flags));
      p
    | None, None -> failwith "no program" in
  (try
    while true do
      let line = input_line stdin in
      let toks = split line in
      match toks with
      | "C" :: id :: pat :: fl :: _ ->
        incr cases; cur_id := id; cur_pat := pat; cur_flags := fl;
        insns := []; brs := []; hdr := None; prog := None; ir0 := None; ir1 := None
      | "N0" :: rest -> let n = fst (parse_node rest) in ir0 := Some n; check_ir_shape "ir0" n
      | "N1" :: rest -> let n = fst (parse_node rest) in ir1 := Some n; check_ir_shape "ir1" n
      | "NM" :: ml :: _ :: rest -> multiline := bos ml; gnames := List.map parse_hex rest
      | "G" :: nl :: ng :: uni :: sp ->
        hdr := Some (ios nl, ios ng, bos uni, parse_sp sp);
        (* IRShape.bt_wf (lookaround capture ranges, Loop1CharBody bodies and bounds): what the backtracker theorem assumes of every IR *)
        List.iter (fun (tag, ir) -> match ir with
          | None -> ()
          | Some n ->
            incr stage_checks;
            if not (bt_wf (nat_of_int (ios ng)) (ir_top n)) then begin
              incr mism;
              Printf.printf "MISMATCH stage=IRshape-%s case=%s pat=%s flags=%s detail=bt_wf:false,look_wf:%b\n" tag !cur_id !cur_pat !cur_flags
                (look_wf (nat_of_int (ios ng)) (ir_top n))
            end else incr bt_covered) [("ir0", !ir0); ("ir1", !ir1)]
      | "I" :: rest -> insns := parse_insn rest :: !insns
      | "B" :: inv :: rest -> brs := { br_invert = bos inv; br_ivs = pairs rest } :: !brs
      | "H" :: hx :: s :: _ ->
        flush_group (); hay := parse_hex hx; hayhex := hx; start := ios s;
        (* the haystack hypothesis of the UTF-8 theorems: stepping right never overshoots the end *)
        if not (walk_ok ix_utf8 !hay (nat_of_int (List.length !hay + 2)) (nat_of_int !start)) then begin
          incr mism; Printf.printf "MISMATCH stage=haystack case=%s hay=%s start=%d detail=walk_ok:false\n" !cur_id hx !start end;
        (* the text hypotheses of the optimizer theorems (OptTop.text_ok, through OptTextCheck.text_ok_b_sound), at
           the character boundaries of this haystack *)
        (* the text is well-formed UTF-8 in the sense of the theorems (utf8_chars splits it into well-formed characters) *)
        if utf8_chars (nat_of_int (List.length !hay)) !hay = None then begin
          incr mism; Printf.printf "MISMATCH stage=haystack case=%s hay=%s start=%d detail=utf8_chars:none\n" !cur_id hx !start end;
        if not (text_ok_b ix_utf8 !hay) then begin
          incr mism; Printf.printf "MISMATCH stage=haystack case=%s hay=%s start=%d detail=text_ok:false\n" !cur_id hx !start end;
        (* ... and the prefilter hypothesis of the C04 theorem, for the start predicate of this program *)
        (match !hdr with
         | Some (_, _, _, sp) ->
           (match searcher_test sp with
            | Some test ->
              if not (pref_walk_ok ix_utf8 !hay test (nat_of_int (List.length !hay + 2)) (nat_of_int !start)) then begin
                incr mism; Printf.printf "MISMATCH stage=haystack case=%s pat=%s hay=%s start=%d detail=pref_walk_ok:false\n" !cur_id !cur_pat hx !start end
            | None -> ())
         | None -> ())
      | "X" :: what :: _ ->
        incr mism;
        Printf.printf "MISMATCH case=%s pat=%s flags=%s kind=%s\n" !cur_id !cur_pat !cur_flags what
      | "RA" :: s :: status :: ms ->
        (* C09 at the public entry point: Regex::find_from is the executor's iteration from an in-range start and yields
           nothing from a start beyond the end *)
        incr api_runs;
        let api_ms = parse_matches ms in
        let s = ios s in
        if status = "ok" then begin
          if s > List.length !hay then begin
            if api_ms <> [] then begin
              let saved = !start in start := s; viol "C09" (Printf.sprintf "find_from:start-beyond-end-yields:%s" (show_matches api_ms)); start := saved end
          end else
            (match List.find_opt (fun r -> r.engine = "bt8") !group with
             | Some r when r.status = "ok" && s = !start ->
               if r.ms <> api_ms then viol "C09" (Printf.sprintf "find_from=%s/executor-iteration=%s" (show_matches api_ms) (show_matches r.ms))
             | _ -> ())
        end else if status = "panic" then viol "C06" "find_from:panic"
      | "R" :: engine :: status :: steps :: ms ->
        incr runs;
        let p = build () in
        let impl_ms = parse_matches ms in
        let impl_steps = ios steps in
        group := { engine; status; steps = impl_steps; ms = impl_ms } :: !group;
        (* IR semantics (IRSem.v) on the implementation's own IR, before and after optimisation:
           the first match from this start must be the engine's first match *)
        if engine = "bt8" && status = "ok" && !ir_evals < ir_eval_limit then begin
          let ngroups = (match !hdr with Some (_, ng, _, _) -> ng | None -> 0) in
          let uni = (match !hdr with Some (_, _, u, _) -> u | None -> false) in
          List.iter (fun (tag, ir) ->
            match ir with
            | None -> ()
            | Some n ->
              incr ir_evals;
              let r = (try
                  ignore (Unix.alarm 2);
                  let m = drv_ir_first false uni utf16 !hay ir_fuel n (nat_of_int ngroups) (nat_of_int !start) in
                  ignore (Unix.alarm 0); m
                with Ir_timeout -> (ignore (Unix.alarm 0); None)) in
              (match r with
               | None -> incr ir_inconclusive
               | Some res ->
                 let expect = (match impl_ms with [] -> None | m :: _ -> Some m) in
                 let got = (match res with
                   | None -> None
                   | Some ((s, e), gs) -> Some (int_of_nat s, int_of_nat e,
                       List.map (fun g -> match g.gd_start, g.gd_end with Some a, Some b -> Some (int_of_nat a, int_of_nat b) | _ -> None) gs)) in
                 if got <> expect then begin
                   incr mism;
                   Printf.printf "MISMATCH stage=IRSem-%s case=%s pat=%s flags=%s hay=%s start=%d engine=%s impl=%s irsem=%s\n" tag !cur_id !cur_pat !cur_flags !hayhex !start engine
                     (show_matches (match expect with None -> [] | Some m -> [m])) (show_matches (match got with None -> [] | Some m -> [m]))
                 end)) [("ir0", !ir0); ("ir1", !ir1)]
        end;
        let (mst, msteps, mms) = run_model engine p !hay !start !budget in
        total_steps := !total_steps + msteps;
        if impl_steps > List.length p.p_insns then incr nontrivial;
        let agree =
          if status = "budget" then mst = "budget"
          else status = mst && impl_steps = msteps && impl_ms = mms in
        if not agree then begin
          incr mism;
          Printf.printf "MISMATCH case=%s pat=%s flags=%s hay=%s start=%d engine=%s impl=%s/%d/%s model=%s/%d/%s\n"
            !cur_id !cur_pat !cur_flags !hayhex !start engine status impl_steps (show_matches impl_ms) mst msteps (show_matches mms)
        end
      | ["E"] -> (if !hdr <> None then ignore (build ())); end_case ()
      | [] -> ()
      | _ -> failwith ("bad line: " ^ line)
    done
  with End_of_file -> ());
  Printf.printf "SUMMARY cases=%d runs=%d mismatches=%d nontrivial=%d model_steps=%d propviol=%d inconclusive=%d stage_checks=%d ir_evals=%d ir_inconclusive=%d bt_theorem_irs=%d opt_theorem_irs=%d api_runs=%d\n" !cases !runs !mism !nontrivial !total_steps !pviol !inconclusive !stage_checks !ir_evals !ir_inconclusive !bt_covered !opt_covered !api_runs

let () =
  match Array.to_list Sys.argv with
  | _ :: "api" :: _ -> Apidrv.run ()
  | _ :: "spec" :: _ -> Specdrv.run ()
  | _ :: "cps" :: _ -> Cpsdrv.run_cps ()
  | _ :: "fold" :: _ -> Cpsdrv.run_fold ()
  | _ :: "foldeq" :: _ -> Cpsdrv.run_foldeq ()
  | _ :: "utf16" :: _ -> Cpsdrv.run_utf16 ()
  | _ :: "props" :: _ -> Cpsdrv.run_props ()
  | _ :: "searcher" :: _ -> Srchdrv.run ()
  | _ -> main_exec ()
