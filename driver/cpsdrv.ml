(* cpsdrv.ml — correspondence for the CodePointSet operation stream (S7) and the fold/unfold sweep. *)
open Model
module String = Stdlib.String
module List = Stdlib.List
type string = Stdlib.String.t
open Conv

let split s = List.filter (fun x -> x <> "") (String.split_on_char ' ' s)
let ios = int_of_string
let nn s = n_of_int (ios s)
let rec take n l = if n = 0 then ([], l) else match l with [] -> failwith "take" | x :: t -> let (a, b) = take (n - 1) t in (x :: a, b)
let rec pairs l = match l with [] -> [] | a :: b :: t -> (nn a, nn b) :: pairs t | _ -> failwith "pairs"
let parse_set toks = match toks with k :: t -> let (a, r) = take (2 * ios k) t in (pairs a, r) | [] -> failwith "set"
let show (s : (n * n) list) = String.concat " " (List.map (fun (a, b) -> Printf.sprintf "%d-%d" (int_of_n a) (int_of_n b)) s)

let run_cps () =
  let cases = ref 0 and ops = ref 0 and mism = ref 0 and pviol = ref 0 and nontrivial = ref 0 in
  let cur : (n * n) list ref = ref [] in
  let id = ref "" in
  let mm what impl model = incr mism; Printf.printf "MISMATCH stage=S7-cps case=%s op=%s impl=[%s] model=[%s]\n" !id what (show impl) (show model) in
  let viol prop d = incr pviol; Printf.printf "PROPVIOL prop=%s case=%s pat=- flags=- hay=- start=0 detail=%s\n" prop !id d in
  (try while true do
    let line = input_line stdin in
    match split line with
    | "S" :: i :: _ -> incr cases; id := i; cur := []
    | "O" :: op :: rest ->
      incr ops;
      (* split at "=" *)
      let rec cut acc l = (match l with "=" :: t -> (List.rev acc, t) | x :: t -> cut (x :: acc) t | [] -> failwith "no =") in
      let (args, res) = cut [] rest in
      let (impl, _) = parse_set res in
      let before = !cur in
      let model = (match op, args with
        | "add", [a; b] -> cps_add before (nn a) (nn b)
        | "add_one", [c] -> cps_add_one before (nn c)
        | "add_set", a -> cps_add_set before (fst (parse_set a))
        | "inverted", [cnt] ->
          if int_of_nat (cps_inverted_interval_count before) <> ios cnt then mm "inverted_interval_count" [] [];
          cps_inverted before
        | "remove", a -> cps_remove before (fst (parse_set a))
        | "intersect", a -> cps_intersect before (fst (parse_set a))
        | "icase_u", _ -> add_icase_code_points_for before true
        | _ -> failwith ("op " ^ op)) in
      if model <> impl then mm op impl model;
      if op <> "icase_u" then cur := impl;
      if List.length impl > 1 then incr nontrivial;
      (* C12: the representation invariant and the set meaning, checked on the implementation's result *)
      if not (cps_wf impl) then viol "C12" (Printf.sprintf "%s:result-not-sorted-disjoint-nonabutting:[%s]" op (String.concat "_" (split (show impl))))
    | "Q" :: rest ->
      let rec go l = (match l with
        | c :: b :: t ->
          if cps_contains !cur (nn c) <> (b = "1") then begin incr mism; Printf.printf "MISMATCH stage=S7-cps case=%s op=contains c=%s\n" !id c end;
          go t
        | _ -> ()) in go rest
    | [] -> ()
    | _ -> failwith ("bad line: " ^ line)
  done with End_of_file -> ());
  Printf.printf "SUMMARY cases=%d runs=%d mismatches=%d nontrivial=%d propviol=%d\n" !cases !ops !mism !nontrivial !pviol

let run_fold () =
  let n = ref 0 and mism = ref 0 and nontrivial = ref 0 in
  let expected_next = ref (-1) in
  let check_identity lo hi =
    (* code points not listed by the implementation are identities there; the model must agree *)
    for c = lo to hi do
      let cn = n_of_int c in
      incr n;
      if fold_code_point cn true <> cn || fold_code_point cn false <> cn
         || unfold_char cn <> [cn] || unfold_uppercase_char cn <> [cn] then begin
        incr mism; Printf.printf "MISMATCH stage=S7-fold c=%d impl=identity model=non-identity\n" c end
    done in
  (try while true do
    let line = input_line stdin in
    match split line with
    | "F" :: c :: fu :: fl :: wf :: rest ->
      let ci = ios c in
      if !expected_next >= 0 && ci > !expected_next then check_identity !expected_next (ci - 1);
      expected_next := ci + 1;
      incr n; incr nontrivial;
      let cn = n_of_int ci in
      let (uu, r1) = (match rest with k :: t -> take (ios k) t | [] -> failwith "F") in
      let (ul, _) = (match r1 with k :: t -> take (ios k) t | [] -> failwith "F2") in
      let ok = fold_code_point cn true = nn fu && fold_code_point cn false = nn fl
               && unfold_char cn = List.map nn uu && unfold_uppercase_char cn = List.map nn ul
               && ((wf = "1") = (ci = 383 || ci = 8490)) in
      if not ok then begin incr mism; Printf.printf "MISMATCH stage=S7-fold c=%d\n" ci end
    | "FR" :: lo :: hi :: _ ->
      let lo = ios lo and hi = ios hi in
      if !expected_next < 0 then check_identity lo hi
      else if !expected_next <= hi then check_identity !expected_next hi;
      expected_next := -1
    | [] -> ()
    | _ -> failwith ("bad line: " ^ line)
  done with End_of_file -> ());
  Printf.printf "SUMMARY cases=%d runs=%d mismatches=%d nontrivial=%d propviol=0\n" !n !n !mism !nontrivial

(* ---- engine-level equivalence under i (C10): backreference, literal, class, negated class ---- *)
let known29 c =
  c = 0x131 || c = 0x17F || (c >= 0x1F80 && c <= 0x1F87) || (c >= 0x1F90 && c <= 0x1F97) || (c >= 0x1FA0 && c <= 0x1FA7)
  || c = 0x1FB3 || c = 0x1FC3 || c = 0x1FF3
let run_foldeq () =
  let n = ref 0 and mism = ref 0 and pviol = ref 0 and nontrivial = ref 0 in
  (try while true do
    let line = input_line stdin in
    match split line with
    | "E" :: u :: c :: d :: br :: lit :: cls :: ncls :: _ ->
      incr n;
      let ub = (u = "1") in
      let ci = ios c and di = ios d in
      let cn = n_of_int ci and dn = n_of_int di in
      let model_eq = (fold_code_point cn ub = fold_code_point dn ub) in
      let ref_eq = (canon_ref ub cn = canon_ref ub dn) in
      if model_eq && ci <> di then incr nontrivial;
      let b x = (x = "1") in
      let impl_ok e = (b br = e && b lit = e && b cls = e && b ncls = not e && br <> "2" && lit <> "2" && cls <> "2" && ncls <> "2") in
      if not (impl_ok model_eq) then begin
        incr mism;
        Printf.printf "MISMATCH stage=S7-foldeq unicode=%s c=%d d=%d impl=br:%s,lit:%s,cls:%s,ncls:%s model_equivalent=%b\n" u ci di br lit cls ncls model_eq end;
      if not (impl_ok ref_eq) && not ((not ub) && (known29 ci || known29 di)) then begin
        incr pviol;
        Printf.printf "PROPVIOL prop=C10 case=U+%04X,U+%04X flags=%s detail=backref:%s,literal:%s,class:%s,negclass:%s,reference_equivalent:%b\n"
          ci di (if ub then "iu" else "i") br lit cls ncls ref_eq end
    | "V" :: u :: a :: b :: d :: r :: nr :: _ ->
      incr n;
      let ub = (u = "1") in
      let ai = ios a and bi = ios b and di = ios d in
      let dn = n_of_int di in
      let rec ex f c = if c > bi then false else f c || ex f (c + 1) in
      let model_in = ex (fun c -> fold_code_point (n_of_int c) ub = fold_code_point dn ub) ai in
      let ref_in = ex (fun c -> canon_ref ub (n_of_int c) = canon_ref ub dn) ai in
      let knownv = ex known29 ai || known29 di in
      if model_in && (di < ai || di > bi) then incr nontrivial;
      let impl_ok e = (r = (if e then "1" else "0") && nr = (if e then "0" else "1")) in
      if not (impl_ok model_in) then begin
        incr mism;
        Printf.printf "MISMATCH stage=S7-foldeq-interval unicode=%s a=%d b=%d d=%d impl=cls:%s,ncls:%s model_member=%b\n" u ai bi di r nr model_in end;
      if not (impl_ok ref_in) && not ((not ub) && knownv) then begin
        incr pviol;
        Printf.printf "PROPVIOL prop=C10 case=[U+%04X-U+%04X],U+%04X flags=%s detail=class:%s,negclass:%s,reference_member:%b\n"
          ai bi di (if ub then "iu" else "i") r nr ref_in end
    | [] -> ()
    | _ -> failwith ("bad line: " ^ line)
  done with End_of_file -> ());
  Printf.printf "SUMMARY cases=%d runs=%d mismatches=%d nontrivial=%d propviol=%d\n" !n !n !mism !nontrivial !pviol

(* ---- UTF-16 / UCS-2 cursor stream (C14): D lines against the model, everything else passed through ---- *)
let run_utf16 () =
  let n = ref 0 and mism = ref 0 in
  (try while true do
    let line = input_line stdin in
    match split line with
    | "D" :: uc :: fw :: ux :: off :: res ->
      incr n;
      let units = if ux = "-" then [] else List.map (fun x -> n_of_int (int_of_string ("0x" ^ x))) (String.split_on_char ',' ux) in
      let p = nat_of_int (ios off) in
      let model = (match uc, fw with
        | "0", "1" -> u16_next_right units p | "0", _ -> u16_next_left units p
        | _, "1" -> ucs2_next_right units p | _, _ -> ucs2_next_left units p) in
      let ms = (match model with None -> "N" | Some (c, q) -> Printf.sprintf "%d %d" (int_of_n c) (int_of_nat q)) in
      let is = String.concat " " res in
      if ms <> is then begin incr mism; Printf.printf "MISMATCH stage=S6-utf16-cursor ucs2=%s forward=%s units=%s offset=%s impl=%s model=%s\n" uc fw ux off (String.concat "_" res) (String.concat "_" (split ms)) end
    | _ -> print_endline line
  done with End_of_file -> ());
  Printf.printf "SUMMARY cursor_steps=%d cursor_mismatches=%d\n" !n !mism

(* ---- property lookup stream (C11) ---- *)
(* OCaml string -> the extracted Coq string (EmptyString | String of ascii * string, ascii = 8 booleans) *)
let coq_string (s : string) : Model.string =
  let n = String.length s in
  let rec go i = if i >= n then Model.EmptyString else
    let c = Char.code s.[i] in
    let b k = (c lsr k) land 1 = 1 in
    Model.String (Model.Ascii (b 0, b 1, b 2, b 3, b 4, b 5, b 6, b 7), go (i + 1)) in
  go 0
let unhexs s = if s = "-" then "" else String.init (String.length s / 2) (fun i -> Char.chr (int_of_string ("0x" ^ String.sub s (2 * i) 2)))

let run_props () =
  let n = ref 0 and mism = ref 0 and pviol = ref 0 and nontrivial = ref 0 in
  let assoc k l = (let ck = coq_string k in let rec go l = (match l with [] -> None | (a, b) :: t -> if a = ck then Some b else go t) in go l) in
  (try while true do
    let line = input_line stdin in
    match split line with
    | "L" :: nm :: vl :: us :: res ->
      incr n;
      let name = unhexs nm and value = unhexs vl in
      let impl = (match res with
        | ["N"] -> `None
        | "C" :: k :: t -> `Class (pairs (fst (take (2 * ios k) t)))
        | "S" :: k :: t ->
          let rec go k t = if k = 0 then [] else (match t with len :: t' -> let (a, r) = take (ios len) t' in List.map nn a :: go (k - 1) r | [] -> failwith "S") in
          `Strs (go (ios k) t)
        | _ -> failwith "L") in
      let model = (match property_lookup (if name = "-" || name = "" then None else Some (coq_string name)) (coq_string value) (us = "1") with
        | None -> `None | Some (PRClass t) -> `Class t | Some (PRStrings l) -> `Strs l) in
      let norm x = (match x with `Strs l -> `Strs (List.sort compare l) | y -> y) in
      if norm impl <> norm model then begin incr mism; Printf.printf "MISMATCH stage=S1-props name=%s value=%s us=%s\n" name value us end;
      (* C11: against the reference data *)
      let expected = (match name with
        | "-" | "" ->
          (match assoc value ref_binary with
           | Some t -> `Class t
           | None ->
             (match (if us = "1" then assoc value ref_strings else None) with
              | Some l -> `Strs l
              | None -> (match assoc value ref_gc with Some t -> `Class t | None -> `None)))
        | "gc" | "General_Category" -> (match assoc value ref_gc_named with Some t -> `Class t | None -> `None)
        | "sc" | "Script" -> (match assoc value ref_sc with Some t -> `Class t | None -> `None)
        | "scx" | "Script_Extensions" -> (match assoc value ref_scx with Some t -> `Class t | None -> `None)
        | _ -> `None) in
      if impl <> `None then incr nontrivial;
      if norm impl <> norm expected then begin
        incr pviol;
        Printf.printf "PROPVIOL prop=C11 case=%s=%s pat=- flags=%s hay=- start=0 detail=lookup(%s,%s)-differs-from-Unicode-17-reference\n" name value us name value end
    | [] -> ()
    | _ -> failwith ("bad line: " ^ line)
  done with End_of_file -> ());
  Printf.printf "SUMMARY cases=%d runs=%d mismatches=%d nontrivial=%d propviol=%d\n" !n !n !mism !nontrivial !pviol
