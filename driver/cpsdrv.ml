(* cpsdrv.ml — correspondence for the CodePointSet operation stream (S7) and the fold/unfold sweep. *)
open Model
open Conv

let split s = List.filter (fun x -> x <> "") (String.split_on_char ' ' s)
let ios = int_of_string
let nn s = n_of_int (ios s)
let rec take n l = if n = 0 then ([], l) else match l with [] -> failwith "take" | x :: t -> let (a, b) = take (n - 1) t in (x :: a, b)
let rec pairs l = match l with [] -> [] | a :: b :: t -> (nn a, nn b) :: pairs t | _ -> failwith "pairs"
let parse_set toks = match toks with k :: t -> let (a, r) = take (2 * ios k) t in (pairs a, r) | [] -> failwith "set"
let show (s : (n * n) list) = String.concat " " (List.map (fun (a, b) -> Printf.sprintf "%d-%d" (int_of_n a) (int_of_n b)) s)

let run_cps () =
  let cases = ref 0 and ops = ref 0 and mism = ref 0 and pviol = ref 0 and nontrivial = ref 0 in
  let cur : (n * n) list ref = ref [] in
  let id = ref "" in
  let mm what impl model = incr mism; Printf.printf "MISMATCH stage=S7-cps case=%s op=%s impl=[%s] model=[%s]\n" !id what (show impl) (show model) in
  let viol prop d = incr pviol; Printf.printf "PROPVIOL prop=%s case=%s pat=- flags=- hay=- start=0 detail=%s\n" prop !id d in
  (try while true do
    let line = input_line stdin in
    match split line with
    | "S" :: i :: _ -> incr cases; id := i; cur := []
    | "O" :: op :: rest ->
      incr ops;
      (* split at "=" *)
      let rec cut acc l = (match l with "=" :: t -> (List.rev acc, t) | x :: t -> cut (x :: acc) t | [] -> failwith "no =") in
      let (args, res) = cut [] rest in
      let (impl, _) = parse_set res in
      let before = !cur in
      let model = (match op, args with
        | "add", [a; b] -> cps_add before (nn a) (nn b)
        | "add_one", [c] -> cps_add_one before (nn c)
        | "add_set", a -> cps_add_set before (fst (parse_set a))
        | "inverted", [cnt] ->
          if int_of_nat (cps_inverted_interval_count before) <> ios cnt then mm "inverted_interval_count" [] [];
          cps_inverted before
        | "remove", a -> cps_remove before (fst (parse_set a))
        | "intersect", a -> cps_intersect before (fst (parse_set a))
        | "icase_u", _ -> add_icase_code_points_for before true
        | _ -> failwith ("op " ^ op)) in
      if model <> impl then mm op impl model;
      if op <> "icase_u" then cur := impl;
      if List.length impl > 1 then incr nontrivial;
      (* C12: the representation invariant and the set meaning, checked on the implementation's result *)
      if not (cps_wf impl) then viol "C12" (Printf.sprintf "%s:result-not-sorted-disjoint-nonabutting:[%s]" op (String.concat "_" (split (show impl))))
    | "Q" :: rest ->
      let rec go l = (match l with
        | c :: b :: t ->
          if cps_contains !cur (nn c) <> (b = "1") then begin incr mism; Printf.printf "MISMATCH stage=S7-cps case=%s op=contains c=%s\n" !id c end;
          go t
        | _ -> ()) in go rest
    | [] -> ()
    | _ -> failwith ("bad line: " ^ line)
  done with End_of_file -> ());
  Printf.printf "SUMMARY cases=%d runs=%d mismatches=%d nontrivial=%d propviol=%d\n" !cases !ops !mism !nontrivial !pviol

let run_fold () =
  let n = ref 0 and mism = ref 0 and nontrivial = ref 0 in
  let expected_next = ref (-1) in
  let check_identity lo hi =
    (* code points not listed by the implementation are identities there; the model must agree *)
    for c = lo to hi do
      let cn = n_of_int c in
      incr n;
      if fold_code_point cn true <> cn || fold_code_point cn false <> cn
         || unfold_char cn <> [cn] || unfold_uppercase_char cn <> [cn] then begin
        incr mism; Printf.printf "MISMATCH stage=S7-fold c=%d impl=identity model=non-identity\n" c end
    done in
  (try while true do
    let line = input_line stdin in
    match split line with
    | "F" :: c :: fu :: fl :: wf :: rest ->
      let ci = ios c in
      if !expected_next >= 0 && ci > !expected_next then check_identity !expected_next (ci - 1);
      expected_next := ci + 1;
      incr n; incr nontrivial;
      let cn = n_of_int ci in
      let (uu, r1) = (match rest with k :: t -> take (ios k) t | [] -> failwith "F") in
      let (ul, _) = (match r1 with k :: t -> take (ios k) t | [] -> failwith "F2") in
      let ok = fold_code_point cn true = nn fu && fold_code_point cn false = nn fl
               && unfold_char cn = List.map nn uu && unfold_uppercase_char cn = List.map nn ul
               && ((wf = "1") = (ci = 383 || ci = 8490)) in
      if not ok then begin incr mism; Printf.printf "MISMATCH stage=S7-fold c=%d\n" ci end
    | "FR" :: lo :: hi :: _ ->
      let lo = ios lo and hi = ios hi in
      if !expected_next < 0 then check_identity lo hi
      else if !expected_next <= hi then check_identity !expected_next hi;
      expected_next := -1
    | [] -> ()
    | _ -> failwith ("bad line: " ^ line)
  done with End_of_file -> ());
  Printf.printf "SUMMARY cases=%d runs=%d mismatches=%d nontrivial=%d propviol=0\n" !n !n !mism !nontrivial
