(* conv.ml — conversions between OCaml values and the extracted inductive types. *)
open Model
module String = Stdlib.String
module List = Stdlib.List
type string = Stdlib.String.t

let rec nat_of_int (i : int) : nat = if i <= 0 then O else S (nat_of_int (i - 1))
(* iterative variant for large fuel values *)
let nat_of_int_big (i : int) : nat =
  let r = ref O in
  for _ = 1 to i do r := S !r done; !r
let rec int_of_nat (n : nat) : int = match n with O -> 0 | S m -> 1 + int_of_nat m

let rec pos_of_int (i : int) : positive =
  if i = 1 then XH else if i land 1 = 0 then XO (pos_of_int (i lsr 1)) else XI (pos_of_int (i lsr 1))
let n_of_int (i : int) : n = if i = 0 then N0 else Npos (pos_of_int i)
let rec int_of_pos (p : positive) : int =
  match p with XH -> 1 | XO q -> 2 * int_of_pos q | XI q -> 2 * int_of_pos q + 1
let int_of_n (x : n) : int = match x with N0 -> 0 | Npos p -> int_of_pos p

(* decimal string -> N, for values that may exceed OCaml's int (usize::MAX) *)
let n_of_string (s : string) : n =
  if String.length s < 18 then n_of_int (int_of_string s)
  else begin
    let ten = n_of_int 10 in
    let acc = ref N0 in
    String.iter (fun c -> acc := N.add (N.mul !acc ten) (n_of_int (Char.code c - 48))) s;
    !acc
  end
let string_of_n (x : n) : string =
  (* only used for printing; values above max_int are printed as "big" *)
  let rec bits p = match p with XH -> 1 | XO q | XI q -> 1 + bits q in
  match x with N0 -> "0" | Npos p -> if bits p > 61 then "big" else string_of_int (int_of_pos p)
