(* apidrv.ml — correspondence for the `api` stream: Match accessors, replace*, escape. *)
open Model
module String = Stdlib.String
module List = Stdlib.List
type string = Stdlib.String.t
open Conv

let split s = List.filter (fun x -> x <> "") (String.split_on_char ' ' s)
let ios = int_of_string
let unhex s = if s = "-" then [] else List.init (String.length s / 2) (fun i -> n_of_int (int_of_string ("0x" ^ String.sub s (2 * i) 2)))
let uncps s = if s = "-" then [] else List.map (fun x -> n_of_int (int_of_string ("0x" ^ x))) (String.split_on_char ',' s)
let hexs (l : n list) = if l = [] then "-" else String.concat "" (List.map (fun b -> Printf.sprintf "%02x" (int_of_n b)) l)

type r = (int * int) option
let rec parse_res k toks : r list * string list =
  if k = 0 then ([], toks) else
  match toks with
  | "-" :: t -> let (a, b) = parse_res (k - 1) t in (None :: a, b)
  | x :: y :: t -> let (a, b) = parse_res (k - 1) t in (Some (ios x, ios y) :: a, b)
  | _ -> failwith "parse_res"
let conv_r (x : r) = match x with None -> None | Some (a, b) -> Some (nat_of_int a, nat_of_int b)
let back_r x : r = match x with None -> None | Some (a, b) -> Some (int_of_nat a, int_of_nat b)
let show_r (x : r) = match x with None -> "-" | Some (a, b) -> Printf.sprintf "%d-%d" a b

let run () =
  let cases = ref 0 and checks = ref 0 and mism = ref 0 and pviol = ref 0 and nontrivial = ref 0 in
  let id = ref "" and pat = ref "" and flags = ref "" and ngroups = ref 0 in
  let names : n list list ref = ref [] in
  let text = ref [] and texthex = ref "" in
  let ms : (int * int * r list) list ref = ref [] in
  let cur_s : n list ref = ref [] in
  let occ_tbl : (string * string, (int * int) list option) Hashtbl.t = Hashtbl.create 16 in
  let amatches () = List.map (fun (s, e, caps) -> { am_range = (nat_of_int s, nat_of_int e); am_caps = List.map conv_r caps; am_names = !names }) (List.rev !ms) in
  let mm what detail = incr mism; Printf.printf "MISMATCH stage=api case=%s pat=%s flags=%s hay=%s what=%s detail=%s\n" !id !pat !flags !texthex what detail in
  let viol prop detail = incr pviol; Printf.printf "PROPVIOL prop=%s case=%s pat=%s flags=%s hay=%s start=0 detail=%s\n" prop !id !pat !flags !texthex detail in
  let nth_match i = List.nth (amatches ()) i in
  let ares_str = function APanic -> "PANIC" | AOk l -> hexs l in
  (try while true do
    let line = input_line stdin in
    match split line with
    | "A" :: i :: p :: f :: ng :: _ -> incr cases; id := i; pat := p; flags := f; ngroups := ios ng; names := []
    | "N" :: _ :: rest -> names := List.map unhex rest
    | "NS" :: _ :: rest ->
      (* C16: names belong to groups in left-parenthesis order; the program's name table is all-empty (dropped)
         when no group is named *)
      let src = List.map unhex rest in
      if !names <> [] && !names <> src then
        viol "C16" (Printf.sprintf "group-names=%s,source-order=%s" (String.concat "_" (List.map hexs !names)) (String.concat "_" (List.map hexs src)))
    | "T" :: hx :: _ -> text := unhex hx; texthex := hx; ms := []
    | "M" :: s :: e :: nc :: rest ->
      let (caps, _) = parse_res (ios nc) rest in
      ms := (ios s, ios e, caps) :: !ms;
      if ios nc <> !ngroups then viol "C16" (Printf.sprintf "capture-slots=%d,groups=%d" (ios nc) !ngroups);
      if List.exists (fun c -> c <> None) caps then incr nontrivial
    | "Q" :: "group" :: mi :: i :: rest ->
      incr checks;
      let (res, _) = parse_res 1 rest in
      let impl = List.hd res in
      let m = nth_match (ios mi) in
      let model = back_r (group m (nat_of_int (ios i))) in
      if model <> impl then mm "group" (Printf.sprintf "i=%s,impl=%s,model=%s" i (show_r impl) (show_r model));
      (* C16 identities *)
      let (s, e, caps) = List.nth (List.rev !ms) (ios mi) in
      let expect = if ios i = 0 then Some (s, e) else if ios i <= List.length caps then List.nth caps (ios i - 1) else None in
      if impl <> expect then viol "C16" (Printf.sprintf "group(%s)=%s,expected=%s" i (show_r impl) (show_r expect))
    | "Q" :: "named" :: mi :: nm :: rest ->
      incr checks;
      let m = nth_match (ios mi) in
      let model = named_group m (unhex nm) in
      let impl_s = String.concat " " rest in
      let model_s = (match model with APanic -> "PANIC" | AOk x -> (match back_r x with None -> "-" | Some (a, b) -> Printf.sprintf "%d %d" a b)) in
      if impl_s <> model_s then mm "named_group" (Printf.sprintf "name=%s,impl=%s,model=%s" nm impl_s model_s);
      (* C16: named_group must report the participating group of that name, i.e. agree with named_groups *)
      let (_, _, caps) = List.nth (List.rev !ms) (ios mi) in
      let name = unhex nm in
      let parts = List.filter_map (fun x -> x) (List.mapi (fun k c -> if k < List.length !names && List.nth !names k = name && name <> [] then c else None) caps) in
      let expect = (match parts with [] -> "-" | (a, b) :: _ -> Printf.sprintf "%d %d" a b) in
      if impl_s <> expect then viol "C16" (Printf.sprintf "named_group(%s)=%s,participating=%s" nm (String.concat "_" rest) (String.concat "_" (split expect)))
    | "Q" :: "ngroups" :: mi :: cnt :: len :: rest ->
      incr checks;
      let m = nth_match (ios mi) in
      let model = named_groups m in
      let rec parse k toks = if k = 0 then [] else
        match toks with
        | nm :: t -> let (r1, t') = parse_res 1 t in (unhex nm, List.hd r1) :: parse (k - 1) t'
        | [] -> failwith "ngroups" in
      let impl = parse (ios cnt) rest in
      let model' = List.map (fun (nm, r) -> (nm, back_r r)) model in
      if impl <> model' then mm "named_groups" (Printf.sprintf "impl=%d,model=%d" (List.length impl) (List.length model'));
      (* C16: names in source order without repetition; value = the participating group *)
      let distinct = List.fold_left (fun acc nm -> if nm = [] || List.mem nm acc then acc else acc @ [nm]) [] !names in
      if List.map fst impl <> distinct then viol "C16" "named_groups-names-not-source-order";
      let (_, _, caps) = List.nth (List.rev !ms) (ios mi) in
      List.iter (fun (nm, r) ->
        let parts = List.filter_map (fun x -> x) (List.mapi (fun k c -> if k < List.length !names && List.nth !names k = nm then c else None) caps) in
        let expect = (match parts with [] -> None | x :: _ -> Some x) in
        if r <> expect then viol "C16" (Printf.sprintf "named_groups(%s)=%s,participating=%s" (hexs nm) (show_r r) (show_r expect))) impl;
      if ios len <> ios cnt then viol "C16" (Printf.sprintf "named_groups.len()=%s,yielded=%s" len cnt)
    | "Q" :: "groups" :: mi :: cnt :: len :: rest ->
      incr checks;
      let m = nth_match (ios mi) in
      let (impl, _) = parse_res (ios cnt) rest in
      let model = List.map back_r (groups m) in
      if impl <> model then mm "groups" "";
      let (s, e, caps) = List.nth (List.rev !ms) (ios mi) in
      if impl <> Some (s, e) :: caps then viol "C16" "groups()<>range::captures";
      if ios len <> ios cnt then viol "C16" "groups.len()"
    | "P" :: kind :: tp :: outp :: _ ->
      incr checks;
      let am = amatches () in
      let model = (match kind with
        | "replace" -> replace !text am (uncps tp)
        | "replace_all" -> replace_all !text am (uncps tp)
        | "ident" -> drv_ident !text am
        | "first_ident" -> drv_first_ident !text am
        | "all_const" -> drv_all_const !text am [n_of_int 60; n_of_int 62]
        | _ -> failwith "P kind") in
      if ares_str model <> outp then mm kind (Printf.sprintf "template=%s,impl=%s,model=%s" tp outp (ares_str model));
      if (kind = "ident" || kind = "first_ident") && outp <> !texthex then viol "C17" (Printf.sprintf "%s:identity-replacement-changed-text:%s" kind outp);
      if am = [] && outp <> !texthex then viol "C17" (Printf.sprintf "%s:no-match-but-text-changed" kind)
    | "S" :: s :: esc :: _ ->
      incr cases; incr checks;
      cur_s := uncps s; pat := s; Hashtbl.reset occ_tbl;
      let model = escape !cur_s in
      if model <> uncps esc then (incr mism; Printf.printf "MISMATCH stage=escape s=%s impl=%s\n" s esc);
      (* shape: dropping each backslash that precedes a character gives s back *)
      let rec unesc l = (match l with
        | a :: b :: t when int_of_n a = 92 -> b :: unesc t
        | a :: t -> a :: unesc t
        | [] -> []) in
      if unesc (uncps esc) <> !cur_s then viol "C18" "escape-changed-characters";
      if !cur_s <> [] then incr nontrivial
    | "F" :: fl :: ok :: _ ->
      incr checks; flags := fl;
      if ok <> "1" then viol "C18" (Printf.sprintf "escape(s)-does-not-compile-under-flags=%s" fl)
    | "O" :: fl :: thex :: rest ->
      incr checks; flags := fl; texthex := thex;
      let has c = String.contains fl c in
      let icase = has 'i' and unicode = has 'u' || has 'v' in
      let impl = (match rest with
        | ["PANIC"] -> None
        | cnt :: r -> let rec go k l = if k = 0 then [] else (match l with a :: b :: t -> (ios a, ios b) :: go (k - 1) t | _ -> failwith "O") in Some (go (ios cnt) r)
        | [] -> failwith "O") in
      let model = (match drv_lit_occ icase unicode !cur_s (unhex thex) with
        | Some l -> Some (List.map (fun (a, b) -> (int_of_nat a, int_of_nat b)) l)
        | None -> None) in
      let show = function None -> "PANIC" | Some l -> String.concat ";" (List.map (fun (a, b) -> Printf.sprintf "%d-%d" a b) l) in
      if impl <> model then viol "C18" (Printf.sprintf "matches=%s,literal-occurrences=%s" (show impl) (show model));
      if not icase then Hashtbl.replace occ_tbl (fl, thex) impl
    | "X" :: thex :: cnt :: r ->
      incr checks; texthex := thex;
      let rec go k l = if k = 0 then [] else (match l with a :: b :: t -> (ios a, ios b) :: go (k - 1) t | _ -> failwith "X") in
      let oracle = Some (go (ios cnt) r) in
      Hashtbl.iter (fun (fl, th) impl -> if th = thex && impl <> oracle then begin flags := fl; viol "C18" "matches<>str::match_indices" end) occ_tbl
    | ["E"] | [] -> ()
    | _ -> failwith ("bad line: " ^ line)
  done with End_of_file -> ());
  Printf.printf "SUMMARY cases=%d runs=%d mismatches=%d nontrivial=%d propviol=%d\n" !cases !checks !mism !nontrivial !pviol
