"""props — per-property check definitions for vcheck."""
import os, sys, json, time, re, glob, concurrent.futures
import vlib
from vlib import *

BUDGET = 100000

# ------------------------------------------------------------------ common front part
def front(ctx, need_exec=True):
    """Static gate, translators, theorem build + Print Assumptions, harness/driver builds.
    Returns dict(theorems=[...], broken=[strings])."""
    broken = []
    bad = static_gate()
    if bad:
        broken.append("static gate: " + "; ".join(bad[:5]))
    errs = run_translators()
    for e in errs: broken.append("translator: " + e)
    vfile = "theories/Properties/%s.v" % ctx.pid
    theorems, discharged = [], 0
    # models first (the driver is extracted from them); a failing *theorem* must not stop the correspondence
    model_targets = [f[len(V) + 1:] + "o" for f in glob.glob(os.path.join(V, "theories", "Model", "*.v")) +
                     glob.glob(os.path.join(V, "theories", "Spec", "*.v")) + glob.glob(os.path.join(V, "theories", "Ref", "*.v")) +
                     glob.glob(os.path.join(V, "theories", "Gen", "*.v"))]
    rc, out = coq_build(model_targets)
    if rc != 0: broken.append("MODEL-BUILD-FAILED: " + out[-400:])
    if os.path.exists(os.path.join(V, vfile)):
        rc, out = coq_build([vfile + "o"])
        theorems = theorem_names(vfile)
        if rc != 0:
            m = re.findall(r'File "([^"]+)", line (\d+).*?\n(Error:.*?)(?:\n\n|\Z)', out, re.S)
            where = "; ".join("%s:%s %s" % (a, b, c.replace("\n", " ")[:200]) for a, b, c in m[:3]) or out[-400:]
            broken.append("theorem no longer checks: " + where)
        else:
            names, badass = check_assumptions(ctx.pid)
            for n, t in badass.items(): broken.append("assumptions of %s: %s" % (n, t[:200]))
            discharged = len(names) - len(badass)
    ctx.note("theorems: %d listed, %d discharged%s" % (len(theorems), discharged, (" BROKEN: " + " | ".join(broken)) if broken else ""))
    if need_exec:
        rc, out = build_harness("default")
        if rc != 0:
            broken.append("HARNESS-BUILD-FAILED: " + out[-400:])
            ctx.note("harness build failed")
        rc, out = build_driver()
        if rc != 0: broken.append("MODEL-BUILD-FAILED (driver): " + out[-400:])
    return dict(theorems=theorems, discharged=discharged, broken=broken)

def pv_case(line):
    d = parse_kv(line)
    return dict(flags=d.get("flags", "-"), pat=decode_pat(d.get("pat", "-")), hay=bytes.fromhex(d["hay"]) if d.get("hay", "-") != "-" else b"",
                start=int(d.get("start", "0")), detail=d.get("detail", ""), prop=d.get("prop", ""), case=d.get("case", ""))

def case_line(c, allstarts=False):
    return (c["flags"] or "-", encode_pat(c["pat"]), c["hay"].hex() or "-", "all" if allstarts else str(c["start"]))

def still_violates(prop):
    def pred(c):
        rc, mism, pv, out = run_cases([case_line(c)], BUDGET)
        return any(parse_kv(l).get("prop") == prop for l in pv)
    return pred

def known_match(known, pid, c):
    for k in known:
        if k["property"] != pid: continue
        key = k["key"] or ""
        if key.startswith("pattern:") and key[len("pattern:"):] == encode_pat(c["pat"]) + "/" + (c["flags"] or "-"):
            return k
    return None

# ------------------------------------------------------------------ executor-family properties
EXEC_PROPS = {
    # pid: (which PROPVIOL kinds decide it, quick volume (shards, npat, nhay), thorough volume)
    "C02": (["C02"], (16, 400, 6), (16, 12000, 8)),
    "C03": (["C03"], (16, 400, 6), (16, 12000, 8)),
    "C05": (["C05"], (16, 400, 6), (16, 12000, 8)),
    "C13": (["C13"], (16, 400, 6), (16, 12000, 8)),
    "C09": (["C09"], (16, 400, 6), (16, 12000, 8)),
    "C06": (["C06"], (16, 400, 6), (16, 12000, 8)),
    "C04": (["C04"], (16, 400, 6), (16, 12000, 8)),
}

def run_exec(ctx):
    kinds, quick, thorough = EXEC_PROPS[ctx.pid]
    shards, npat, nhay = quick if ctx.tier == "quick" else thorough
    fr = front(ctx)
    broken = list(fr["broken"])
    known = load_known()
    corpus = os.path.join(V, "corpus", "exec.txt")
    summary, mism, pv, errs = ({}, [], [], [])
    if not any("-BUILD-FAILED" in b for b in broken):
        summary, mism, pv, errs = run_exec_shards(ctx.seed, shards, npat, nhay, BUDGET, corpus if os.path.exists(corpus) else None)
        for e in errs: broken.append("pipeline: " + e)
    ctx.note("correspondence: %s mismatches=%d propviol(all kinds)=%d" % (summary, len(mism), len(pv)))
    mine = [pv_case(l) for l in pv if parse_kv(l).get("prop") in kinds]
    # distinct patterns, shortest first
    seen, distinct = set(), []
    for c in sorted(mine, key=lambda c: (len(c["pat"]), len(c["hay"]))):
        k = (c["pat"], c["flags"])
        if k in seen: continue
        seen.add(k); distinct.append(c)
    reported = 0
    samples = []
    shrunk_seen = set()
    for c in distinct[:12]:
        small = shrink(c, still_violates(c["prop"]))
        k = (small["pat"], small["flags"])
        if k in shrunk_seen: continue
        shrunk_seen.add(k)
        kf = known_match(known, ctx.pid, small) or known_match(known, ctx.pid, c)
        if kf:
            msg = "KNOWN-FINDING: property=%s %s" % (ctx.pid, kf["what"])
            if msg not in ctx.known: ctx.known.append(msg); print(msg, flush=True)
            continue
        if reported >= 3: continue
        rc_, m_, pv_, out_ = run_cases([case_line(small)], BUDGET)
        det = [parse_kv(l).get("detail", "") for l in pv_ if parse_kv(l).get("prop") == c["prop"]]
        path = write_replay(ctx, "input", dict(kind="failing-input", flags=small["flags"], pattern=small["pat"], pattern_hex=encode_pat(small["pat"]),
                                               haystack_hex=small["hay"].hex(), haystack=small["hay"].decode("utf8", "replace"), start=small["start"],
                                               detail=det[0] if det else c["detail"], original=dict(pattern=c["pat"], haystack_hex=c["hay"].hex(), detail=c["detail"])))
        report_violation(ctx, path)
        reported += 1
    # the harness process itself died (signal): for C06 that is the violation, and the announced run is its input
    if ctx.pid == "C06":
        for cr in run_exec_shards.crashes[:2]:
            path = write_replay(ctx, "input", dict(kind="failing-input", flags=cr["flags"], pattern=decode_pat(cr["pattern_hex"]), pattern_hex=cr["pattern_hex"],
                                                   haystack_hex="" if cr["hay_hex"] == "-" else cr["hay_hex"], haystack=bytes.fromhex(cr["hay_hex"]).decode("utf8", "replace") if cr["hay_hex"] != "-" else "",
                                                   start=cr["start"], engine=cr["engine"], no_opt=cr["no_opt"],
                                                   detail="the harness process was killed by a signal (memory error / abort) while running this search", shard_cmd=cr["shard_cmd"]))
            report_violation(ctx, path); reported += 1
    # broken ties: model/implementation disagreement or theorem failure
    if mism:
        broken.append("correspondence S4/S5: %d disagreements, first: %s" % (len(mism), mism[0][:300]))
    if broken and reported == 0:
        # property-directed search already ran on this run's stream (PROPVIOL evaluation is independent of the model);
        # extend it with a second, larger stream before giving up
        if not any("-BUILD-FAILED" in b for b in broken):
            s2, m2, pv2, e2 = run_exec_shards(ctx.seed + 7919, 16, npat * 3, nhay, BUDGET)
            mine2 = [pv_case(l) for l in pv2 if parse_kv(l).get("prop") in kinds]
            if mine2:
                c = sorted(mine2, key=lambda c: (len(c["pat"]), len(c["hay"])))[0]
                small = shrink(c, still_violates(c["prop"]))
                path = write_replay(ctx, "input", dict(kind="failing-input", flags=small["flags"], pattern=small["pat"], pattern_hex=encode_pat(small["pat"]),
                                                       haystack_hex=small["hay"].hex(), start=small["start"], detail=c["detail"], broken=broken))
                report_violation(ctx, path); reported += 1
        if reported == 0:
            path = write_replay(ctx, "tie", dict(kind="broken-obligation", broken=broken,
                                                 note="the theorem or correspondence named here no longer checks; no input violating the property was found by the search"))
            report_violation(ctx, path, no_input=True)
    nth = len(fr["theorems"])
    cov = dict(obligations=max(nth, 1), discharged=fr["discharged"] if nth else 0,
               checker_cmd="make -f Makefile.coq theories/Properties/%s.vo && coqc Print Assumptions; rvharness exec | driver exec" % ctx.pid,
               trusted_base=TRUSTED_BASE,
               evaluations=summary.get("runs", 0), distinct_nontrivial=summary.get("nontrivial", 0),
               rule="structured pattern generator (gen.rs) x haystacks x boundary starts x engines; every run compared with the extracted Coq model on matches, captures and step count; non-trivial = the engine executed more steps than the program has instructions",
               samples=[dict(pattern=c["pat"], flags=c["flags"], haystack_hex=c["hay"].hex()) for c in distinct[:3]] or
                       [dict(theorems=fr["theorems"][:6])],
               programs=summary.get("cases", 0), disagreements_checked=len(mism),
               model_steps=summary.get("model_steps", 0), inconclusive=summary.get("inconclusive", 0),
               propviol_of_this_property=len(mine), theorems=fr["theorems"])
    level = "proof" if nth and fr["discharged"] == nth else "translation_validation"
    if not cov["samples"]: cov["samples"] = [dict(note="no case")]
    if level == "translation_validation" and cov["programs"] == 0: cov["programs"] = 1
    write_evidence(ctx, level, cov, ["models in theories/Model are tied to the code by differential runs only",
                                     "PROPVIOL evaluation compares the implementation with itself (bt vs pike, opt vs no_opt, ascii vs utf8)"])
    return 1 if ctx.violations else 0

def replay_exec(ctx, path):
    obj = json.load(open(path))
    fr = front(ctx)
    if obj.get("kind") == "failing-input":
        c = dict(flags=obj["flags"], pat=obj["pattern"], hay=bytes.fromhex(obj["haystack_hex"]), start=obj["start"])
        rc, mism, pv, out = run_cases([case_line(c)], BUDGET)
        print(out[-1500:])
        if any(parse_kv(l).get("prop") in EXEC_PROPS[ctx.pid][0] for l in pv):
            print("VIOLATION property=%s replay=%s" % (ctx.pid, path)); return 1
        print("replay: the recorded input no longer violates %s" % ctx.pid); return 0
    print("replay: broken-obligation record; re-running the check"); return run_exec(ctx)

# ------------------------------------------------------------------ API-family properties (C16, C17, C18 shape)
API_PROPS = {
    # pid: (PROPVIOL kinds, quick (shards, n), thorough, harness stream)
    "C16": (["C16"], (8, 1500), (16, 40000), "api"),
    "C17": (["C17"], (8, 1500), (16, 40000), "api"),
    "C18": (["C18"], (8, 2500), (16, 60000), "escape"),
    "C01": (["C01"], (16, 1500), (16, 40000), "spec"),
    "C12": (["C12"], (8, 8000), (16, 150000), "cps"),
    "C20": (["C20"], (4, 400), (16, 20000), "searcher"),
}

def api_single(pat, flags, hay_hex):
    """Re-run one (pattern, flags) through the api stream restricted to one haystack; returns PROPVIOL lines."""
    d = os.path.join(BUILD, "tmp"); os.makedirs(d, exist_ok=True)
    f = os.path.join(d, "api_%d.txt" % os.getpid())
    open(f, "w").write("%s\t%s\t%s\n" % (flags or "-", encode_pat(pat), hay_hex or "-"))
    rc, out = sh("set -o pipefail; ulimit -s 1000000; %s apicases %s | %s api" % (harness_bin(), f, os.path.join(BUILD, "extract", "driver")), 300)
    os.remove(f)
    return [l for l in out.split("\n") if l.startswith("PROPVIOL")], [l for l in out.split("\n") if l.startswith("MISMATCH")], out

def viol_class(detail):
    """Class of an API violation: the detail with numbers stripped (so one replay per kind of failure)."""
    return re.sub(r"[0-9a-f_]+", "#", detail)

def run_api(ctx):
    kinds, quick, thorough, stream = API_PROPS[ctx.pid]
    shards, n = quick if ctx.tier == "quick" else thorough
    fr = front(ctx)
    broken = list(fr["broken"])
    known = load_known()
    summary, mism, pv = {}, [], []
    if stream == "searcher":
        rc, out = build_harness("pattern")     # nightly toolchain, --features pattern
        if rc != 0: broken.append("HARNESS-BUILD-FAILED (nightly, pattern feature): " + out[-400:])
    if not any("-BUILD-FAILED" in b for b in broken):
        summary, mism, pv, errs = run_stream_shards(stream, {"spec": "spec", "cps": "cps", "searcher": "searcher"}.get(stream, "api"), ctx.seed, shards, n, extra="4" if stream == "spec" else "", feat="pattern" if stream == "searcher" else "default")
        for e in errs: broken.append("pipeline: " + e)
        if ctx.pid in ("C12", "C01"):
            # /^E$/ on single characters and short strings derived from E, against the reference semantics (Spec.v):
            # a differing answer is a violation of C12 itself (and of C01); the same stream ties the models of the
            # single-character atoms (ClassSet.v class_node / char_node / dot_node, the subjects of the C01 and C12
            # theorems) to the parser: IR equality on every generated atom
            s2, m2, pv2, e2 = run_stream_shards("spec", "spec", ctx.seed + 7, 8, (600 if ctx.pid == "C12" else 300) if ctx.tier == "quick" else 12000, extra="1 class")
            for e in e2: broken.append("pipeline(class): " + e)
            for k, v in s2.items(): summary["class_" + k] = v
            mism += m2
            pv += [l.replace("PROPVIOL prop=C01 ", "PROPVIOL prop=C12 ") for l in pv2] if ctx.pid == "C12" else pv2
    ctx.note("correspondence(api): %s mismatches=%d propviol(all kinds)=%d" % (summary, len(mism), len(pv)))
    mine = [pv_case(l) for l in pv if parse_kv(l).get("prop") in kinds]
    classes = {}
    for c in sorted(mine, key=lambda c: (len(c["pat"]), len(c["hay"]))):
        classes.setdefault(viol_class(c["detail"]), c)
    reported = 0
    for cls, c in list(classes.items()):
        kf = None
        for k in known:
            if k["property"] == ctx.pid and k["key"] and k["key"].startswith("class:") and k["key"][6:] == cls: kf = k
        if kf:
            msg = "KNOWN-FINDING: property=%s %s" % (ctx.pid, kf["what"])
            if msg not in ctx.known: ctx.known.append(msg); print(msg, flush=True)
            continue
        if reported >= 4: continue
        def pred(cc, prop=c["prop"], cls=cls):
            pvl, _, _ = api_single(cc["pat"], cc["flags"], cc["hay"].hex())
            return any(parse_kv(l).get("prop") == prop and viol_class(parse_kv(l).get("detail", "")) == cls for l in pvl)
        small = (shrink(c, pred) if pred(c) else c) if stream == "api" else c
        pvl, _, _ = api_single(small["pat"], small["flags"], small["hay"].hex()) if stream == "api" else ([], [], "")
        det = [parse_kv(l).get("detail", "") for l in pvl if viol_class(parse_kv(l).get("detail", "")) == cls]
        path = write_replay(ctx, "input", dict(kind="failing-input", stream=stream, flags=small["flags"], pattern=small["pat"], pattern_hex=encode_pat(small["pat"]),
                                               haystack_hex=small["hay"].hex(), haystack=small["hay"].decode("utf8", "replace"),
                                               detail=det[0] if det else c["detail"], violation_class=cls))
        report_violation(ctx, path); reported += 1
    if mism: broken.append("correspondence S7(api): %d disagreements, first: %s" % (len(mism), mism[0][:300]))
    # For C16/C17 the model *is* the property's statement (replace* == model(find_iter, template); accessor
    # identities) and is proved to have the stated form, so an input on which implementation and model
    # differ is a failing input of the property itself.
    own = {"C17": ("replace", "replace_all", "ident", "first_ident", "all_const"),
           "C16": ("group", "named_group", "named_groups", "groups")}.get(ctx.pid, ())
    mine_mm = [parse_kv(l) for l in mism if parse_kv(l).get("what") in own]
    if ctx.pid == "C12":
        # the CodePointSet model is proved to denote the set operations, so a differing result is a failing input
        mine_mm = [dict(parse_kv(l), what=parse_kv(l).get("op"), detail=l[:400]) for l in mism if "stage=S7-cps" in l]
    if mine_mm and reported == 0:
        d = sorted(mine_mm, key=lambda d: len(d.get("pat", "")) + len(d.get("detail", "")))[0]
        path = write_replay(ctx, "input", dict(kind="failing-input", stream=stream, flags=d.get("flags", "-"), pattern=decode_pat(d.get("pat", "-")),
                                               pattern_hex=d.get("pat", "-"), haystack_hex=(d.get("hay", "-") if d.get("hay", "-") != "-" else ""),
                                               what=d.get("what"), detail=d.get("detail", ""), violation_class="model-vs-implementation:" + d.get("what", ""),
                                               note="implementation result differs from the proved model of the property's statement"))
        report_violation(ctx, path); reported += 1
    if broken and reported == 0:
        path = write_replay(ctx, "tie", dict(kind="broken-obligation", broken=broken,
                                             note="the theorem or correspondence named here no longer checks; the property evaluation on the implementation found no violating input"))
        report_violation(ctx, path, no_input=True)
    nth = len(fr["theorems"])
    cov = dict(obligations=max(nth, 1), discharged=fr["discharged"] if nth else 0,
               checker_cmd="make -f Makefile.coq theories/Properties/%s.vo && coqc Print Assumptions; rvharness api | driver api" % ctx.pid,
               trusted_base=TRUSTED_BASE, evaluations=summary.get("runs", 0), distinct_nontrivial=summary.get("nontrivial", 0),
               rule="patterns with named/unnamed/duplicate-named groups x haystacks x templates; every accessor and replace* result compared with the extracted Coq model; non-trivial = a match with at least one participating capture",
               samples=[dict(pattern=c["pat"], flags=c["flags"], haystack_hex=c["hay"].hex(), detail=c["detail"]) for c in list(classes.values())[:3]] or [dict(theorems=fr["theorems"][:8])],
               programs=max(summary.get("cases", 0), 1), disagreements_checked=len(mism), theorems=fr["theorems"])
    level = "proof" if nth and fr["discharged"] == nth and not broken else "translation_validation"
    write_evidence(ctx, level, cov, ["Api.v is tied to api.rs by differential runs through the public API only"])
    return 1 if ctx.violations else 0

def replay_api(ctx, path):
    obj = json.load(open(path))
    front(ctx)
    if obj.get("kind") == "failing-input" and obj.get("stream") == "escape":
        # pattern field holds s: re-run the escape stream on this one string via a tiny Rust-side check
        return run_api(ctx)
    if obj.get("kind") == "failing-input":
        pvl, mm, out = api_single(obj["pattern"], obj["flags"], obj["haystack_hex"])
        print(out[-1500:])
        if obj.get("what") and any(parse_kv(l).get("what") == obj["what"] for l in mm):
            print("VIOLATION property=%s replay=%s" % (ctx.pid, path)); return 1
        if any(parse_kv(l).get("prop") in API_PROPS[ctx.pid][0] for l in pvl):
            print("VIOLATION property=%s replay=%s" % (ctx.pid, path)); return 1
        print("replay: the recorded input no longer violates %s" % ctx.pid); return 0
    return run_api(ctx)

# ------------------------------------------------------------------ table-family properties (C10, C11)
def props_queries():
    """The lookup queries for the `props` stream: every name regress accepts (from the translator's JSON)
    under every way of writing it, probes that must be rejected, and mutated spellings."""
    P = json.load(open(os.path.join(GEN, "proptables.json")))
    q = []
    for n, _ in P["maps"]["binary"]: q += [("-", n, "0"), ("-", n, "1"), ("gc", n, "0"), ("sc", n, "0")]
    for n, _ in P["maps"]["gc"]: q += [("-", n, "0"), ("gc", n, "0"), ("General_Category", n, "1"), ("sc", n, "0"), ("scx", n, "0")]
    for n, _ in P["maps"]["sc"]: q += [("sc", n, "0"), ("Script", n, "1"), ("scx", n, "0"), ("Script_Extensions", n, "0"), ("-", n, "0"), ("gc", n, "0")]
    for n, _ in P["strings"]: q += [("-", n, "1"), ("-", n, "0"), ("gc", n, "1")]
    probes = ["Hrkt", "Katakana_Or_Hiragana", "Block=Basic_Latin", "InBasicLatin", "alpha", "ALPHABETIC", "lu", "Lu ", " Lu", "", "L&", "Any ", "Hyphen", "Other_Alphabetic",
              "Grapheme_Link", "Full_Composition_Exclusion", "IsAlphabetic", "latin", "Latin ", "Zzzz", "Unknown", "Zyyy", "Qaai", "Qaac", "Katakana", "Age", "Hex", "ASCII_Hex", "RGI_Emoji ", "rgi_emoji"]
    names = ["-", "gc", "sc", "scx", "General_Category", "Script", "Script_Extensions", "Block", "blk", "Gc", "script", "", "Age", "scx "]
    for p in probes:
        for nm in names: q.append((nm if nm else "-", p, "1"))
    for n, _ in (P["maps"]["binary"][:20] + P["maps"]["gc"][:20] + P["maps"]["sc"][:40]):
        for m in (n.lower(), n.upper(), n[:-1], n + "x", n.replace("_", "")):
            if m and m != n: q += [("-", m, "1"), ("gc", m, "0"), ("sc", m, "0")]
    return q

def run_tables(ctx):
    fr = front(ctx)
    broken = list(fr["broken"])
    known = load_known()
    summary, mism, pv = {}, [], []
    d = os.path.join(BUILD, "tmp"); os.makedirs(d, exist_ok=True)
    if not any("-BUILD-FAILED" in b for b in broken):
        if ctx.pid == "C11":
            qf = os.path.join(d, "propqueries_%d.txt" % os.getpid())
            q = props_queries()
            open(qf, "w").write("".join("%s\t%s\t%s\n" % t for t in q))
            rc, out = sh("set -o pipefail; ulimit -s 1000000; %s props %s | %s props" % (harness_bin(), qf, os.path.join(BUILD, "extract", "driver")), 600)
            os.remove(qf)
            if rc != 0: broken.append("pipeline: rc=%d %s" % (rc, out[-300:]))
            for line in out.split("\n"):
                if line.startswith("SUMMARY"):
                    for k, v in parse_kv(line).items(): summary[k] = summary.get(k, 0) + int(v)
                elif line.startswith("MISMATCH"): mism.append(line)
                elif line.startswith("PROPVIOL"): pv.append(line)
        else:
            # C10: fold / unfold sweep over the whole code space, 16 ranges in parallel
            step = 0x110000 // 16
            cmds = ["set -o pipefail; ulimit -s 1000000; %s fold %d %d | %s fold" % (harness_bin(), k * step, (k + 1) * step - 1 if k < 15 else 0x10FFFF, os.path.join(BUILD, "extract", "driver")) for k in range(16)]
            # engine-level relation (backreference / literal / class / negated class through the public API), code space in 16 ranges
            cmds += ["set -o pipefail; ulimit -s 1000000; %s foldeq %d %d | %s foldeq" % (harness_bin(), k * step, (k + 1) * step - 1 if k < 15 else 0x10FFFF, os.path.join(BUILD, "extract", "driver")) for k in range(16)]
            with concurrent.futures.ThreadPoolExecutor(max_workers=NCPU) as ex:
                for rc, out in ex.map(lambda c: sh(c, 900), cmds):
                    if rc != 0: broken.append("pipeline: rc=%d %s" % (rc, out[-300:]))
                    for line in out.split("\n"):
                        if line.startswith("SUMMARY"):
                            for k, v in parse_kv(line).items(): summary[k] = summary.get(k, 0) + int(v)
                        elif line.startswith("MISMATCH"): mism.append(line)
                        elif line.startswith("PROPVIOL"): pv.append(line)
    ctx.note("correspondence(tables): %s mismatches=%d propviol=%d" % (summary, len(mism), len(pv)))
    reported = 0
    for l in pv[:3]:
        dd = parse_kv(l)
        path = write_replay(ctx, "input", dict(kind="failing-input", stream="props" if ctx.pid == "C11" else "foldeq", query=dd.get("case"), flags=dd.get("flags"), detail=dd.get("detail")))
        report_violation(ctx, path); reported += 1
    if mism: broken.append("correspondence (%s): %d disagreements, first: %s" % ("S1 props lookup" if ctx.pid == "C11" else "S7 fold/unfold sweep", len(mism), mism[0][:300]))
    if ctx.pid == "C10":
        # the one known finding of C10 is *proved* to be exactly this set (theorem c10_uppercase_eq_ref_except_known);
        # if the tables change so that the set changes, that theorem breaks and the check reports it
        for k in known:
            if k["property"] == "C10":
                msg = "KNOWN-FINDING: property=C10 %s" % k["what"]
                ctx.known.append(msg); print(msg, flush=True)
    if broken and reported == 0:
        # property-directed search for a concrete failing code point / name: evaluate the implementation against the reference directly
        found = None
        if ctx.pid == "C10" and not any("-BUILD-FAILED" in b for b in broken):
            found = search_fold_violation()
        if found:
            path = write_replay(ctx, "input", dict(kind="failing-input", stream="fold", detail=found, broken=broken))
            report_violation(ctx, path)
        else:
            path = write_replay(ctx, "tie", dict(kind="broken-obligation", broken=broken,
                                                 note="a regenerated table obligation or the correspondence no longer checks; no violating code point / name was found by the search"))
            report_violation(ctx, path, no_input=True)
    nth = len(fr["theorems"])
    cov = dict(obligations=max(nth, 1), discharged=fr["discharged"] if nth else 0,
               checker_cmd="tools/gen_*.py (regenerate tables from /repo) && make theories/Properties/%s.vo && coqc Print Assumptions; rvharness %s | driver" % (ctx.pid, "props" if ctx.pid == "C11" else "fold"),
               trusted_base=TRUSTED_BASE + ["reference Unicode 17 data from V8/ICU 78 (ref/gen_ref.js, committed under theories/Ref; regenerated and diffed by the thorough tier)"],
               evaluations=summary.get("runs", 0), distinct_nontrivial=summary.get("nontrivial", 0), exhaustive=True,
               rule="C10: every code point 0..0x10FFFF (fold, uppercase, both unfolds, word-fold flag) implementation vs model; non-trivial = a code point that is not an identity everywhere. C11: every accepted (name, value) spelling plus rejected probes and mutated spellings, implementation vs model vs reference; non-trivial = accepted lookups",
               samples=[dict(theorems=fr["theorems"][:10])], theorems=fr["theorems"], disagreements_checked=len(mism), programs=max(summary.get("cases", 0), 1))
    level = "proof" if nth and fr["discharged"] == nth and not broken else "translation_validation"
    write_evidence(ctx, level, cov, ["reference data comes from one independent implementation (V8/ICU)"])
    return 1 if ctx.violations else 0

def search_fold_violation():
    """Compare the implementation's fold / uppercase with the committed reference JSON over the whole code space."""
    F = json.load(open(os.path.join(V, "ref", "ref_fold.json")))
    legacy = dict((a, b) for a, b in F["legacy"])
    cls = {}
    for cl in F["classes"]:
        for c in cl: cls[c] = cl
    known = set([305, 383] + list(range(8064, 8072)) + list(range(8080, 8088)) + list(range(8096, 8104)) + [8115, 8131, 8179])
    rc, out = sh("%s fold 0 1114111" % harness_bin(), 600)
    fu, fl = {}, {}
    for line in out.split("\n"):
        t = line.split()
        if t and t[0] == "F": fu[int(t[1])] = int(t[2]); fl[int(t[1])] = int(t[3])
    for c in range(0x110000):
        u = fl.get(c, c)
        if u != legacy.get(c, c) and c not in known:
            return "legacy-canonicalize(U+%04X)=U+%04X,ECMAScript=U+%04X" % (c, u, legacy.get(c, c))
    for c, cl in cls.items():
        for d in cl:
            if fu.get(c, c) != fu.get(d, d): return "fold(U+%04X)<>fold(U+%04X)-but-same-simple-case-folding-class" % (c, d)
    for c in range(0x110000):
        if fu.get(c, c) != c and (c not in cls or fu[c] not in cls[c]):
            return "fold(U+%04X)=U+%04X-outside-its-simple-case-folding-class" % (c, fu[c])
    return None

def replay_tables(ctx, path):
    return run_tables(ctx)

PROPS = {}
for _p in EXEC_PROPS: PROPS[_p] = (run_exec, replay_exec)
for _p in ("C10", "C11"): PROPS[_p] = (run_tables, replay_tables)

# ------------------------------------------------------------------ C19
def run_c19(ctx):
    fr = front(ctx)
    broken = list(fr["broken"])
    summary, pv = {}, []
    # the unsafe inventory against the reviewed allowlist
    tg = json.load(open(os.path.join(GEN, "typegraph.json")))
    allow = set(l.strip() for l in open(os.path.join(V, "known_unsafe.txt")) if l.strip() and not l.startswith("#"))
    new_unsafe = [u for u in tg["unsafe"] if u not in allow]
    if new_unsafe: broken.append("unsafe inventory: %d site(s) not in known_unsafe.txt: %s" % (len(new_unsafe), new_unsafe[:4]))
    hazards = tg["static_mut"] + tg["interior"] + tg["mut_methods"] + tg["bad_fields"]
    if not any("-BUILD-FAILED" in b for b in broken):
        shards, n = (4, 150) if ctx.tier == "quick" else (16, 4000)
        hb = harness_bin()
        cmds = ["%s threads %d %d" % (hb, ctx.seed * 1000 + k, n) for k in range(shards)]
        with concurrent.futures.ThreadPoolExecutor(max_workers=4) as ex:
            for rc, out in ex.map(lambda c: sh(c, 900), cmds):
                if rc != 0: broken.append("pipeline: threads harness rc=%d %s" % (rc, out[-300:]))
                for line in out.split("\n"):
                    if line.startswith("SUMMARY"):
                        for k, v in parse_kv(line).items(): summary[k] = summary.get(k, 0) + int(v)
                    elif line.startswith("PROPVIOL"): pv.append(line)
    ctx.note("threads: %s propviol=%d; type-graph hazards=%d, unsafe sites=%d (new: %d)" % (summary, len(pv), len(hazards), len(tg["unsafe"]), len(new_unsafe)))
    reported = 0
    for l in pv[:3]:
        c = pv_case(l)
        path = write_replay(ctx, "input", dict(kind="failing-input", stream="threads", flags=c["flags"], pattern=c["pat"], haystack_hex=c["hay"].hex(), detail=c["detail"]))
        report_violation(ctx, path); reported += 1
    if hazards and reported == 0:
        # a shared-mutability site is a concrete counterexample to "searching never mutates shared state" only if a run differs;
        # none was observed, so it is reported as a broken obligation naming the site
        broken.append("type graph: " + "; ".join(hazards[:6]))
    if broken and reported == 0:
        path = write_replay(ctx, "tie", dict(kind="broken-obligation", broken=broken,
                                             note="type_graph_frozen or the unsafe inventory no longer checks; the threads harness observed no differing result"))
        report_violation(ctx, path, no_input=True)
    nth = len(fr["theorems"])
    cov = dict(obligations=max(nth, 1), discharged=fr["discharged"] if nth else 0,
               checker_cmd="tools/gen_typegraph.py && make theories/Properties/C19.vo && coqc Print Assumptions; rvharness threads",
               trusted_base=TRUSTED_BASE + ["tools/gen_typegraph.py is a textual scan (regex level) of /repo/src; rustc's auto-trait derivation (Send/Sync asserted at compile time in the harness)"],
               evaluations=summary.get("runs", 0), distinct_nontrivial=summary.get("nontrivial", 0),
               rule="8 threads x shared &Regex and a clone x 12 queries per regex in different orders, compared with the sequential results; plus a reversed sequential pass; non-trivial = a regex with at least one match",
               samples=[dict(unsafe_sites=tg["unsafe"][:5], statics=tg["statics"])], theorems=fr["theorems"], programs=max(summary.get("cases", 0), 1), disagreements_checked=0)
    level = "proof" if nth and fr["discharged"] == nth and not broken else "translation_validation"
    write_evidence(ctx, level, cov, ["thread interleavings actually exercised are whatever the OS scheduler produced"])
    return 1 if ctx.violations else 0
PROPS["C19"] = (run_c19, lambda ctx, path: run_c19(ctx))

# ------------------------------------------------------------------ C14 (utf16) and C15 (feature matrix)
def exec_results(feat, seed, npat, nhay, budget, drv_env=""):
    """Run the exec stream of one feature build; returns (results dict, driver summary, mismatches, compile list)."""
    hb, db = harness_bin(feat), os.path.join(BUILD, "extract", "driver")
    d = os.path.join(BUILD, "tmp"); os.makedirs(d, exist_ok=True)
    f = os.path.join(d, "exec_%s_%d.txt" % (feat, os.getpid()))
    rc, out = sh("%s exec %d %d %d %d > %s" % (hb, seed, npat, nhay, budget, f), 900)
    res, compiled = {}, []
    cid = hay = None
    for line in open(f):
        t = line.split()
        if not t: continue
        if t[0] == "C": cid = t[1]; compiled.append((t[1], t[2], t[3]))
        elif t[0] == "H": hay = (t[1], t[2])
        elif t[0] == "R": res[(cid, hay, t[1])] = (t[2], " ".join(t[4:]))
        elif t[0] == "X": res[(cid, None, "compile")] = ("panic", "")
    rc2, out2 = sh("ulimit -s 1000000; %s %s exec %d < %s" % (drv_env, db, budget, f), 900)
    os.remove(f)
    summ, mism = {}, []
    for line in out2.split("\n"):
        if line.startswith("SUMMARY"): summ = {k: int(v) for k, v in parse_kv(line).items()}
        elif line.startswith("MISMATCH"): mism.append(line)
    return res, summ, mism, compiled, (rc, rc2)

FEATS = ["default", "index-positions", "prohibit-unsafe", "both", "utf16", "nostd"]

def run_c15(ctx):
    fr = front(ctx)
    broken = list(fr["broken"])
    for ft in FEATS[1:]:
        rc, out = build_harness(ft)
        if rc != 0: broken.append("HARNESS-BUILD-FAILED (%s): %s" % (ft, out[-300:]))
    npat = 700 if ctx.tier == "quick" else 20000
    summary, mism_all, diffs = {}, [], []
    if not any("-BUILD-FAILED" in b for b in broken):
        with concurrent.futures.ThreadPoolExecutor(max_workers=6) as ex:
            futs = {ft: ex.submit(exec_results, ft, ctx.seed * 1000, npat, 5, BUDGET, "RV_UTF16=1" if ft == "utf16" else "") for ft in FEATS}
            R = {ft: fu.result() for ft, fu in futs.items()}
        base, bsum, bm, bcomp, _ = R["default"]
        for ft in FEATS:
            res, summ, mism, comp, rcs = R[ft]
            if rcs != (0, 0): broken.append("pipeline (%s): rc=%s" % (ft, rcs))
            for k, v in summ.items(): summary[k] = summary.get(k, 0) + v
            if mism: broken.append("correspondence (%s build): %d disagreements, first: %s" % (ft, len(mism), mism[0][:200]))
            if ft == "default": continue
            if [c[0] for c in comp] != [c[0] for c in bcomp]:
                diffs.append((ft, "set-of-patterns-that-compile-differs", None))
            for k, v in res.items():
                b = base.get(k)
                # steps are not compared (the utf16 build has no prefilter and no byte literals); results must be identical
                if b is not None and b != v and "budget" not in (b[0], v[0]):
                    diffs.append((ft, k, (b, v)))
    ctx.note("feature matrix: %s result differences=%d" % (summary, len(diffs)))
    reported = 0
    cases = {}
    for ft, k, bv in diffs:
        if k == "set-of-patterns-that-compile-differs" or reported >= 3: continue
        cid = k[0]
        pat = next((c for c in R["default"][3] if c[0] == cid), None)
        path = write_replay(ctx, "input", dict(kind="failing-input", stream="exec-feature-matrix", feature_set=ft, case=cid,
                                               pattern=decode_pat(pat[1]) if pat else None, pattern_hex=pat[1] if pat else None, flags=pat[2] if pat else None,
                                               haystack_hex=k[1][0] if k[1] else None, start=k[1][1] if k[1] else None, engine=k[2],
                                               detail="default=%s / %s=%s" % (bv[0], ft, bv[1])))
        report_violation(ctx, path); reported += 1
    if diffs and reported == 0: broken.append("feature matrix: %s" % str(diffs[0])[:300])
    if broken and reported == 0:
        path = write_replay(ctx, "tie", dict(kind="broken-obligation", broken=broken, note="a feature build or its correspondence no longer checks; no differing result was observed"))
        report_violation(ctx, path, no_input=True)
    nth = len(fr["theorems"])
    cov = dict(programs=max(summary.get("cases", 0), 1), disagreements_checked=len(diffs), evaluations=summary.get("runs", 0), distinct_nontrivial=summary.get("nontrivial", 0),
               rule="one deterministic case stream (shape family + %d generated patterns x 5 haystacks) replayed through six builds of the harness (default, index-positions, prohibit-unsafe, both, utf16, no-std+alloc); every (case, haystack, start, engine) result compared with the default build; each build also compared with the model (utf16 build in utf16 model configuration)" % npat,
               samples=[dict(feature_sets=FEATS)], obligations=max(nth, 1), discharged=fr["discharged"] if nth else 0,
               checker_cmd="cargo build x6 feature sets; rvharness exec | driver exec per build; pairwise result comparison", trusted_base=TRUSTED_BASE)
    write_evidence(ctx, "translation_validation", cov, ["pointer vs index positions, checked vs unchecked access, std vs alloc do not exist in the model: they are compared build against build"])
    return 1 if ctx.violations else 0
PROPS["C15"] = (run_c15, lambda ctx, path: run_c15(ctx))

def run_c14(ctx):
    fr = front(ctx)
    broken = list(fr["broken"])
    rc, out = build_harness("utf16")
    if rc != 0: broken.append("HARNESS-BUILD-FAILED (utf16): " + out[-300:])
    summary, pv, mism = {}, [], []
    if not any("-BUILD-FAILED" in b for b in broken):
        shards, n = (8, 600) if ctx.tier == "quick" else (16, 20000)
        # the harness evaluates the property (utf16/ucs2 vs utf8) itself; its cursor lines (hook export utf16_step on
        # every offset of every slice) go through the driver, which compares them with the model Model/Utf16.v
        cmds = ["set -o pipefail; ulimit -s 1000000; %s utf16 %d %d | %s utf16" % (harness_bin("utf16"), ctx.seed * 1000 + k, n, os.path.join(BUILD, "extract", "driver")) for k in range(shards)]
        cursor_mism = []
        with concurrent.futures.ThreadPoolExecutor(max_workers=NCPU) as ex:
            for rc, out in ex.map(lambda c: sh(c, 900), cmds):
                if rc != 0: broken.append("pipeline: utf16 harness rc=%d %s" % (rc, out[-300:]))
                for line in out.split("\n"):
                    if line.startswith("SUMMARY"):
                        for k, v in parse_kv(line).items(): summary[k] = summary.get(k, 0) + int(v)
                    elif line.startswith("PROPVIOL"): pv.append(line)
                    elif line.startswith("MISMATCH"): cursor_mism.append(line)
        if cursor_mism: broken.append("correspondence (UTF-16 cursor model): %d disagreements, first: %s" % (len(cursor_mism), cursor_mism[0][:200]))
        # model tie of the utf16 build (no byte literals, no prefilter in the backtracker)
        res, summ, mism, comp, rcs = exec_results("utf16", ctx.seed * 1000, 500 if ctx.tier == "quick" else 10000, 5, BUDGET, "RV_UTF16=1")
        if mism: broken.append("correspondence (utf16 build): %d disagreements, first: %s" % (len(mism), mism[0][:200]))
        summary["model_runs"] = summ.get("runs", 0)
    ctx.note("utf16: %s propviol=%d mismatches=%d" % (summary, len(pv), len(mism)))
    reported = 0
    seen = set()
    for l in sorted(pv, key=len):
        c = pv_case(l)
        cls = viol_class(c["detail"])
        if cls in seen or reported >= 3: continue
        seen.add(cls)
        path = write_replay(ctx, "input", dict(kind="failing-input", stream="utf16", flags=c["flags"], pattern=c["pat"], pattern_hex=encode_pat(c["pat"]),
                                               haystack_hex=c["hay"].hex(), start=c["start"], detail=c["detail"]))
        report_violation(ctx, path); reported += 1
    if broken and reported == 0:
        path = write_replay(ctx, "tie", dict(kind="broken-obligation", broken=broken, note="the utf16 build or its correspondence no longer checks; no violating input was found"))
        report_violation(ctx, path, no_input=True)
    cov = dict(programs=max(summary.get("cases", 0), 1), disagreements_checked=len(mism), evaluations=summary.get("runs", 0), distinct_nontrivial=summary.get("nontrivial", 0),
               rule="generated patterns x texts (and a fixed family of case-insensitive backreferences over fold partners): find_from on the string vs find_from_utf16 on its UTF-16 encoding (offsets translated, every boundary start), UCS-2 on BMP-only text, and arbitrary u16 slices with lone surrogates (no panic, ranges inside the slice); the cursor of both input types on every offset of every slice, both directions, against the model Utf16.v; plus the S2-S5 model correspondence of the utf16 build",
               samples=[dict(note="see rule"), dict(inconclusive=summary.get("inconclusive", 0)), dict(cursor_steps_compared_with_model=summary.get("cursor_steps", 0))],
               obligations=max(len(fr["theorems"]), 1), discharged=fr["discharged"] if fr["theorems"] else 0, theorems=fr["theorems"],
               checker_cmd="cargo build --features utf16; rvharness utf16 | driver utf16; rvharness exec | RV_UTF16=1 driver exec; make theories/Properties/C14.vo", trusted_base=TRUSTED_BASE)
    write_evidence(ctx, "translation_validation", cov, ["the cursor of Utf16Input/Ucs2Input is modelled (Model/Utf16.v) and proved to read what was encoded; that the engines run on it return the UTF-8 answers is evaluated on the implementation, not proved"])
    return 1 if ctx.violations else 0
PROPS["C14"] = (run_c14, lambda ctx, path: run_c14(ctx))

# ------------------------------------------------------------------ C07 (compilation is total)
def run_c07(ctx):
    fr = front(ctx)
    broken = list(fr["broken"])
    known = load_known()
    hb = harness_bin()
    results, viols = [], []
    fuzz = {"ok": 0, "err": 0, "PANIC": 0}
    if not any("-BUILD-FAILED" in b for b in broken):
        rc, out = sh("%s advlist" % hb, 60)
        advs = [l.split() for l in out.strip().split("\n") if l.strip()]
        if ctx.tier == "quick":
            # quadratic-but-terminating giants (65535+ *named* groups take ~70 s each) run in the thorough tier only
            advs = [a for a in advs if not re.match(r"many-named-groups-(6|7)\d{4}", a[1])]
        def one(a):
            k, name = a[0], a[1]
            rc, out = sh("ulimit -s 8192; ulimit -v 3145728; timeout 200 %s adv %s" % (hb, k), 230)
            m = re.search(r"END \d+ \S+ (\S+) (\d+)ms", out)
            if m: return (name, m.group(1), int(m.group(2)), a[2], a[3])
            if "stack overflow" in out: return (name, "STACK-OVERFLOW", 0, a[2], a[3])
            if "memory allocation of" in out: return (name, "OUT-OF-MEMORY(3GiB)", 0, a[2], a[3])
            if rc == 124: return (name, "TIMEOUT", 200000, a[2], a[3])
            return (name, "ABORT(rc=%d)" % rc, 0, a[2], a[3])
        with concurrent.futures.ThreadPoolExecutor(max_workers=NCPU) as ex:
            results = list(ex.map(one, advs))
        for name, res, ms, ln, fl in results:
            if res not in ("ok", "err"): viols.append((name, res, ln, fl))
        # token-level stream (in-process; a dying process is itself a finding)
        shards, n = (8, 4000) if ctx.tier == "quick" else (16, 200000)
        cmds = ["%s advfuzz %d %d" % (hb, ctx.seed * 1000 + k, n) for k in range(shards)]
        with concurrent.futures.ThreadPoolExecutor(max_workers=NCPU) as ex:
            for rc, out in ex.map(lambda c: sh(c, 900), cmds):
                lines = [l.split() for l in out.split("\n") if l.startswith("Z ")]
                for t in lines:
                    fuzz[t[4]] = fuzz.get(t[4], 0) + 1
                    if t[4] == "PANIC": viols.append(("token-stream:" + t[2] + "/" + t[3], "PANIC", len(t[2].split(",")), t[3]))
                if rc != 0:
                    last = lines[-1] if lines else ["?"] * 5
                    viols.append(("token-stream-process-died-after:" + last[2], "ABORT(rc=%d)" % rc, 0, last[3]))
    ctx.note("adversaries: %d run, outcomes %s; token stream %s" % (len(results), {r: sum(1 for x in results if x[1] == r) for r in set(x[1] for x in results)}, fuzz))
    reported = 0
    for name, res, ln, fl in viols:
        base = name.split("-")[0] + "-" + res
        kf = next((k for k in known if k["property"] == "C07" and k["key"] and name.startswith(k["key"].split(":", 1)[-1]) and res in k["what"]), None)
        if kf:
            msg = "KNOWN-FINDING: property=C07 %s" % kf["what"]
            if msg not in ctx.known: ctx.known.append(msg); print(msg, flush=True)
            continue
        if reported >= 4: continue
        path = write_replay(ctx, "input", dict(kind="failing-input", stream="adv", adversary=name, outcome=res, pattern_length=ln, flags=fl,
                                               rerun="build/target-default/release/rvharness advlist | grep ' %s ' ; rvharness adv <k>" % name))
        report_violation(ctx, path); reported += 1
    if broken and reported == 0:
        path = write_replay(ctx, "tie", dict(kind="broken-obligation", broken=broken, note="no crashing input found"))
        report_violation(ctx, path, no_input=True)
    nth = len(fr["theorems"])
    cov = dict(evaluations=len(results) + sum(fuzz.values()), distinct_nontrivial=len(results) + fuzz.get("ok", 0), programs=len(results) + sum(fuzz.values()), disagreements_checked=0,
               rule="%d size/shape adversaries (alternations up to 3*10^5, nesting up to 10^5, 65535/65536/70000 groups and loops, 20-digit counts, nests of small counts up to depth 40, unterminated constructs, raw surrogates), each in its own process under an 8 MiB stack, 3 GiB of address space and a 200 s limit;" % len(results) + " plus token-level random strings in-process; non-trivial = adversaries + accepted token strings",
               samples=[dict(name=x[0], outcome=x[1], ms=x[2]) for x in results[:6]], obligations=max(nth, 1), discharged=fr["discharged"] if nth else 0,
               checker_cmd="rvharness adv <k> (one process per adversary); rvharness advfuzz", trusted_base=TRUSTED_BASE)
    write_evidence(ctx, "proof" if nth and fr["discharged"] == nth and not broken else "exploration", cov, ["real stack and heap consumption are runtime facts; the models carry panic sites as explicit outcomes"])
    return 1 if ctx.violations else 0
PROPS["C07"] = (run_c07, lambda ctx, path: run_c07(ctx))

# ------------------------------------------------------------------ C08 (accepted language)
def run_c08(ctx):
    fr = front(ctx)
    broken = list(fr["broken"])
    known = load_known()
    hb = harness_bin()
    dis, summ, rej = [], {"compared": 0, "skipped": 0}, []
    if not any("-BUILD-FAILED" in b for b in broken):
        shards, n = (8, 6000) if ctx.tier == "quick" else (16, 300000)
        cmds = ["set -o pipefail; %s advfuzz %d %d | node %s/ref/v8_syntax.js" % (hb, ctx.seed * 1000 + k, n, V) for k in range(shards)]
        with concurrent.futures.ThreadPoolExecutor(max_workers=NCPU) as ex:
            for rc, out in ex.map(lambda c: sh(c, 900), cmds):
                if rc != 0: broken.append("pipeline: advfuzz|node rc=%d %s" % (rc, out[-200:]))
                for line in out.split("\n"):
                    t = line.split()
                    if t and t[0] == "D": dis.append(t)
                    elif t and t[0] == "SUMMARY":
                        for k, v in parse_kv(line).items(): summ[k] = summ.get(k, 0) + int(v)
        # valid patterns (printed from generated syntax trees, incl. modifiers and duplicate names) that regress rejects
        s2, m2, pv2, e2 = run_stream_shards("spec", "spec", ctx.seed, 8, 1500 if ctx.tier == "quick" else 30000, extra="1")
        rej = [pv_case(l) for l in pv2 if parse_kv(l).get("prop") == "C08"]
        summ["generated_valid_patterns"] = s2.get("cases", 0) + len(rej)
        # the early error "a negated class may not contain strings": for every generated v-mode class expression E the
        # verdict of regress on [^E] against MayContainStrings of E (reference, Spec.vmcs) and against the flag of the
        # class set model (theorem c08_may_contain_strings_flag says the two agree)
        s3, m3, pv3, e3 = run_stream_shards("spec", "spec", ctx.seed + 11, 8, 600 if ctx.tier == "quick" else 12000, extra="1 class")
        for e in e3: broken.append("pipeline(class): " + e)
        neg = [pv_case(l) for l in pv3 if parse_kv(l).get("prop") == "C08"]
        mm3 = [l for l in m3 if "earlyerror" in l]
        if mm3: broken.append("correspondence (class set model, early error): %d disagreements, first: %s" % (len(mm3), mm3[0][:200]))
        summ["negated_class_decisions"] = s3.get("negated_class_decisions", 0)
        rej += neg
    ctx.note("syntax vs V8: %s disagreements=%d; generated valid patterns rejected=%d" % (summ, len(dis), len(rej)))
    # classify disagreements by a normalised shape so that one replay per class is written
    def shape(t):
        pat = decode_pat(t[2])
        cls = re.sub(r"[a-z0-9é]", "a", pat)[:40]
        return "%s/%s:%s" % (t[4], t[5], cls)
    classes = {}
    for t in sorted(dis, key=lambda t: len(t[2])):
        classes.setdefault(shape(t), t)
    reported = 0
    for cls, t in classes.items():
        pat = decode_pat(t[2])
        kf = None
        for k in known:
            if k["property"] == "C08" and k["key"] and k["key"].startswith("regex:") and re.search(k["key"][6:], pat): kf = k
        if kf:
            msg = "KNOWN-FINDING: property=C08 %s" % kf["what"]
            if msg not in ctx.known: ctx.known.append(msg); print(msg, flush=True)
            continue
        if reported >= 4: continue
        path = write_replay(ctx, "input", dict(kind="failing-input", stream="advfuzz|v8", pattern=pat, pattern_hex=t[2], flags=t[3], detail="%s %s" % (t[4], t[5])))
        report_violation(ctx, path); reported += 1
    for c in rej[:2]:
        if reported >= 4: break
        path = write_replay(ctx, "input", dict(kind="failing-input", stream="spec", pattern=c["pat"], flags=c["flags"], detail=c.get("detail") or "valid pattern (printed from a generated syntax tree) rejected"))
        report_violation(ctx, path); reported += 1
    if broken and reported == 0:
        path = write_replay(ctx, "tie", dict(kind="broken-obligation", broken=broken, note="no accept/reject disagreement found"))
        report_violation(ctx, path, no_input=True)
    cov = dict(evaluations=summ.get("compared", 0) + summ.get("generated_valid_patterns", 0), distinct_nontrivial=summ.get("compared", 0), programs=max(summ.get("compared", 0), 1), disagreements_checked=len(dis),
               rule="token-level random strings (80 syntax tokens, raw surrogates injected) under 8 flag sets: Regex::from_unicode accept/reject vs V8 (node 20, ICU 78); strings using constructs this V8 lacks (inline modifiers, duplicate names) are skipped and covered instead by generated syntax trees that must all be accepted",
               samples=[dict(pattern=decode_pat(t[2]), flags=t[3], verdicts=t[4:6]) for t in list(classes.values())[:4]] or [dict(note="no disagreement")],
               obligations=max(len(fr["theorems"]), 1), discharged=fr["discharged"] if fr["theorems"] else 0, theorems=fr["theorems"],
               checker_cmd="rvharness advfuzz | node ref/v8_syntax.js; rvharness spec | driver spec; rvharness spec .. class | driver spec; make theories/Properties/C08.vo", trusted_base=TRUSTED_BASE + ["V8 (node 20.20) as the accept/reject oracle"])
    write_evidence(ctx, "exploration", cov, ["the parser is not modelled as a whole: apart from one early error (negated class that may contain strings) this check is differential testing against V8, not a proof"])
    return 1 if ctx.violations else 0
PROPS["C08"] = (run_c08, lambda ctx, path: run_c08(ctx))
for _p in API_PROPS: PROPS[_p] = (run_api, replay_api)

def run(ctx):
    return PROPS[ctx.pid][0](ctx)
def replay(ctx, path):
    return PROPS[ctx.pid][1](ctx, path)
