#!/usr/bin/env python3
"""T1b: translate the Unicode property tables and the name -> table lookup functions of
/repo/src/unicodetables.rs into Coq (Gen/PropTables.v) and JSON (names for the reference generator).
Usage: gen_proptables.py <repo> <gen-dir>.  Fails closed (exit 2) on anything it cannot account for."""
import re, sys, os, json
repo, gen = sys.argv[1], sys.argv[2]
src = open(os.path.join(repo, "src", "unicodetables.rs")).read()
src_nc = re.sub(r'//[^\n]*', '', src)
def die(m): sys.stderr.write("T1b: " + m + "\n"); sys.exit(2)

# 1. interval tables
tables = {}
for m in re.finditer(r'(?:pub\(crate\)\s+)?const\s+([A-Z0-9_]+)\s*:\s*\[\s*Interval\s*;\s*(\d+)\s*\]\s*=\s*\[(.*?)\];', src_nc, re.S):
    name, n, body = m.group(1), int(m.group(2)), m.group(3)
    ents = re.findall(r'Interval::new\(\s*(0x[0-9A-Fa-f]+|\d+)\s*,\s*(0x[0-9A-Fa-f]+|\d+)\s*,?\s*\)', body)
    rest = re.sub(r'Interval::new\(\s*(0x[0-9A-Fa-f]+|\d+)\s*,\s*(0x[0-9A-Fa-f]+|\d+)\s*,?\s*\)', '', body).replace(',', '').strip()
    if rest: die("unparsed text in table %s: %r" % (name, rest[:60]))
    if len(ents) != n: die("table %s declares %d entries, parsed %d" % (name, n, len(ents)))
    tables[name] = [(int(a, 0), int(b, 0)) for a, b in ents]
if len(tables) != len(re.findall(r'\[\s*Interval\s*;\s*\d+\s*\]\s*=', src_nc)): die("interval table count mismatch")

# 2. string-set tables
strsets = {}
for m in re.finditer(r'(?:pub\(crate\)\s+)?static\s+([A-Z0-9_]+)\s*:\s*&\[\s*&\[u32\]\s*;\s*(\d+)\s*\]\s*=\s*&\[(.*?)\n\];', src_nc, re.S):
    name, n, body = m.group(1), int(m.group(2)), m.group(3)
    ents = re.findall(r'&\[([0-9xA-Fa-f,\s]*)\]', body)
    if len(ents) != n: die("string table %s declares %d entries, parsed %d" % (name, n, len(ents)))
    strsets[name] = [[int(x, 0) for x in e.replace(' ', '').replace('\n', '').split(',') if x] for e in ents]
if len(strsets) != len(re.findall(r'\[\s*&\[u32\]\s*;\s*\d+\s*\]\s*=', src_nc)): die("string table count mismatch")

# 3. accessor functions
fn_table = {}
for m in re.finditer(r'fn\s+(\w+)\(\)\s*->\s*&\'static\s*\[Interval\]\s*\{\s*&([A-Z0-9_]+)\s*\}', src_nc): fn_table[m.group(1)] = m.group(2)
fn_str = {}
for m in re.finditer(r'fn\s+(\w+)\(\)\s*->\s*&\'static\s*\[&\'static\s*\[u32\]\]\s*\{\s*([A-Z0-9_]+)\.as_slice\(\)\s*\}', src_nc): fn_str[m.group(1)] = m.group(2)

def match_body(fname):
    m = re.search(r'fn\s+%s\s*\(.*?\)\s*->.*?\{(.*?)\n\}' % fname, src_nc, re.S)
    if not m: die("function %s not found" % fname)
    b = m.group(1)
    mm = re.search(r'match\s+\w+\s*\{(.*)\}', b, re.S)
    if not mm: die("no match in %s" % fname)
    return mm.group(1)

def enum_to_table(fname, strs=False):
    out = {}
    body = match_body(fname)
    arms = [a.strip() for a in body.split(',') if a.strip()]
    for a in arms:
        m = re.fullmatch(r'(\w+)\s*=>\s*(\w+)\(\)', a)
        if m:
            f = m.group(2)
            if strs:
                if f not in fn_str: die("%s: unknown accessor %s" % (fname, f))
                out[m.group(1)] = fn_str[f]
            else:
                if f not in fn_table: die("%s: unknown accessor %s" % (fname, f))
                out[m.group(1)] = fn_table[f]
            continue
        m = re.fullmatch(r'(\w+)\s*=>\s*&([A-Z0-9_]+)', a)
        if m and not strs:
            if m.group(2) not in tables: die("%s: unknown table %s" % (fname, m.group(2)))
            out[m.group(1)] = m.group(2); continue
        die("%s: unparsed arm %r" % (fname, a[:80]))
    return out

def str_to_enum(fname):
    out = []
    body = match_body(fname)
    # arms: "a" | "b" => Some(X),   and  _ => None
    pos = 0
    for m in re.finditer(r'((?:"[^"]*"\s*\|?\s*)+)=>\s*Some\((\w+)\)\s*,?', body):
        names = re.findall(r'"([^"]*)"', m.group(1))
        for n in names: out.append((n, m.group(2)))
    rest = re.sub(r'((?:"[^"]*"\s*\|?\s*)+)=>\s*Some\((\w+)\)\s*,?', '', body)
    rest = re.sub(r'_\s*=>\s*None\s*,?', '', rest).strip()
    if rest: die("%s: unparsed text %r" % (fname, rest[:80]))
    return out

binary_e2t = enum_to_table("binary_property_ranges")
gc_e2t = enum_to_table("general_category_property_value_ranges")
sc_e2t = enum_to_table("script_value_ranges")
scx_e2t = enum_to_table("script_extensions_value_ranges")
str_e2t = enum_to_table("string_property_sets", strs=True)
binary_s2e = str_to_enum("unicode_property_binary_from_str")
gc_s2e = str_to_enum("unicode_property_value_general_category_from_str")
sc_s2e = str_to_enum("unicode_property_value_script_from_str")
str_s2e = str_to_enum("unicode_string_property_from_str")

def compose(s2e, e2t, kind):
    out = []
    for n, e in s2e:
        if e not in e2t: die("%s: enum %s has no table" % (kind, e))
        out.append((n, e2t[e]))
    return out
maps = dict(binary=compose(binary_s2e, binary_e2t, "binary"), gc=compose(gc_s2e, gc_e2t, "gc"),
            sc=compose(sc_s2e, sc_e2t, "sc"), scx=compose(sc_s2e, scx_e2t, "scx"))
strmap = compose(str_s2e, str_e2t, "strings")

os.makedirs(gen, exist_ok=True)
json.dump(dict(maps={k: [[n, t] for n, t in v] for k, v in maps.items()}, strings=[[n, t] for n, t in strmap],
               tables={k: v for k, v in tables.items()}, strsets=strsets),
          open(os.path.join(gen, "proptables.json"), "w"))

used = sorted(set(t for v in maps.values() for _, t in v))
usedstr = sorted(set(t for _, t in strmap))
def ivl(l): return "[" + "; ".join("(%d,%d)" % p for p in l) + "]"
lines = ["(* GENERATED by tools/gen_proptables.py from src/unicodetables.rs — do not edit. *)",
         "From Coq Require Import String.", "From RV Require Import Base.", "Local Open Scope string_scope.", ""]
for t in used:
    lines.append("Definition T_%s : list (N * N) := %s." % (t, ivl(tables[t])))
for t in usedstr:
    lines.append("Definition S_%s : list (list N) := [%s]." % (t, "; ".join("[" + "; ".join(str(c) for c in s) + "]" for s in strsets[t])))
for kind, v in maps.items():
    lines.append("Definition %s_names : list (string * list (N * N)) := [%s]." % (kind, "; ".join('("%s", T_%s)' % (n, t) for n, t in v)))
lines.append("Definition string_names : list (string * list (list N)) := [%s]." % "; ".join('("%s", S_%s)' % (n, t) for n, t in strmap))
text = "\n".join(lines) + "\n"
out = os.path.join(gen, "PropTables.v")
old = open(out).read() if os.path.exists(out) else None
if old != text: open(out, "w").write(text)
print("T1b: %d interval tables (%d used), %d string tables, names: %s, strings %d" %
      (len(tables), len(used), len(strsets), {k: len(v) for k, v in maps.items()}, len(strmap)))
