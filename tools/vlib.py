"""vlib — shared machinery for vcheck: builds, gates, correspondence runs, evidence, replays."""
import sys, os, json, time, subprocess, hashlib, re, glob, shutil, concurrent.futures

V = os.path.dirname(os.path.dirname(os.path.abspath(__file__)))
REPO = os.environ.get("VERIF_REPO", "/repo")
BUILD = os.path.join(V, "build")
GEN = os.path.join(V, "theories", "Gen")
NCPU = 16
ENV = dict(os.environ, CARGO_NET_OFFLINE="true")

def sh(cmd, timeout=1200, cwd=V, env=None, inp=None):
    """Run a shell command; returns (rc, stdout+stderr)."""
    try:
        p = subprocess.run(cmd, shell=True, executable="/bin/bash", cwd=cwd, env=env or ENV, input=inp, timeout=timeout,
                           stdout=subprocess.PIPE, stderr=subprocess.STDOUT, text=True, errors="replace")
        return p.returncode, p.stdout
    except subprocess.TimeoutExpired as e:
        return 124, (e.stdout or b"").decode("utf8", "replace") if isinstance(e.stdout, bytes) else (e.stdout or "") + "\nTIMEOUT"

def file_hash(paths):
    h = hashlib.sha256()
    for p in sorted(paths):
        h.update(p.encode()); h.update(open(p, "rb").read())
    return h.hexdigest()

class Ctx:
    def __init__(self, pid, tier, seed):
        self.pid, self.tier, self.seed = pid, tier, seed
        self.t0 = time.time()
        self.log = []
        self.violations = []       # (replay_path, no_input_found: bool)
        self.known = []            # strings
        self.assumptions = []
        self.coverage = {}
    def note(self, s):
        self.log.append(s)
        print("[%s] %s" % (self.pid, s), flush=True)

# ---------------------------------------------------------------- static gate
FORBIDDEN = re.compile(r"\b(Admitted|admit|Axiom|Axioms|Parameter|Parameters|Conjecture|Abort All|bypass_check)\b|Unset\s+Guard|Unset\s+Positivity|Unset\s+Universe|type-in-type|impredicative-set")
def static_gate():
    """No Admitted/admit/Axiom/Parameter/Conjecture, no Variable/Hypothesis outside sections, no checks switched off."""
    bad = []
    for f in glob.glob(os.path.join(V, "theories", "**", "*.v"), recursive=True):
        depth = 0
        text = open(f).read()
        # strip comments (non-nested is enough for our sources; nested handled by a counter)
        out, i, lvl = [], 0, 0
        while i < len(text):
            if text.startswith("(*", i): lvl += 1; i += 2; continue
            if text.startswith("*)", i) and lvl > 0: lvl -= 1; i += 2; continue
            if lvl == 0: out.append(text[i])
            elif text[i] == "\n": out.append("\n")
            i += 1
        code = "".join(out)
        for ln, line in enumerate(code.split("\n"), 1):
            if re.match(r"\s*Section\b", line): depth += 1
            if re.match(r"\s*End\b", line) and depth > 0: depth -= 1
            if FORBIDDEN.search(line): bad.append("%s:%d: %s" % (f, ln, line.strip()))
            if depth == 0 and re.match(r"\s*(Variable|Variables|Hypothesis|Hypotheses|Context)\b", line):
                bad.append("%s:%d: %s (outside a section)" % (f, ln, line.strip()))
    for f in ["_CoqProject"]:
        t = open(os.path.join(V, f)).read()
        if "type-in-type" in t or "impredicative-set" in t: bad.append(f + ": forbidden flag")
    return bad

# ---------------------------------------------------------------- translators
def run_translators():
    """Regenerate theories/Gen/*.v from /repo's current source.  Returns list of error strings."""
    errs = []
    os.makedirs(GEN, exist_ok=True)
    rc, out = sh("python3 tools/gen_foldtables.py %s/src/unicodetables.rs theories/Gen/FoldTables.v" % REPO, 120)
    if rc != 0: errs.append("T1a fold tables: " + out.strip()[-300:])
    for tr in sorted(glob.glob(os.path.join(V, "tools", "gen_*.py"))):
        if tr.endswith("gen_foldtables.py"): continue
        rc, out = sh("python3 %s %s %s" % (tr, REPO, GEN), 300)
        if rc != 0: errs.append("%s: %s" % (os.path.basename(tr), out.strip()[-300:]))
    return errs

# ---------------------------------------------------------------- coq
def coq_makefile():
    mk = os.path.join(V, "Makefile.coq")
    if (not os.path.exists(mk)) or os.path.getmtime(mk) < os.path.getmtime(os.path.join(V, "_CoqProject")):
        sh("coq_makefile -f _CoqProject -o Makefile.coq", 60)

def coq_build(targets=None, timeout=1500):
    """Full .vo build of the given targets (default: everything in _CoqProject)."""
    coq_makefile()
    tg = " ".join(targets) if targets else ""
    rc, out = sh("timeout %d make -f Makefile.coq -j%d %s" % (timeout, NCPU, tg), timeout + 30)
    return rc, out

def theorem_names(vfile):
    text = open(os.path.join(V, vfile)).read()
    return re.findall(r"^\s*Theorem\s+(\w+)", text, re.M)

ALLOWED_AXIOMS = set()   # none: every property theorem must be closed under the global context
def check_assumptions(pid):
    """coqc a file that prints the assumptions of every Theorem in Properties/<pid>.v."""
    vfile = "theories/Properties/%s.v" % pid
    names = theorem_names(vfile)
    d = os.path.join(BUILD, "assump"); os.makedirs(d, exist_ok=True)
    f = os.path.join(d, "%s_assump.v" % pid)
    with open(f, "w") as w:
        w.write("From RV.Properties Require Import %s.\n" % pid)
        for n in names:
            w.write('Goal True. idtac "BEGIN %s". Abort.\nPrint Assumptions %s.\n' % (n, n))
    rc, out = sh("coqc -Q theories RV %s" % f, 300)
    res = {}
    if rc != 0:
        return names, {n: "coqc failed: " + out[-200:] for n in names}
    cur = None
    for line in out.split("\n"):
        m = re.match(r"BEGIN (\w+)", line)
        if m: cur = m.group(1); res[cur] = []; continue
        if cur and line.strip(): res[cur].append(line.strip())
    bad = {}
    for n in names:
        txt = " ".join(res.get(n, ["<missing>"]))
        if txt != "Closed under the global context":
            bad[n] = txt
    return names, bad

# ---------------------------------------------------------------- harness / driver
def harness_bin(feat="default"):
    return os.path.join(BUILD, "target-%s" % feat, "release", "rvharness")

FEATURE_ARGS = {
    "default": "",
    "index-positions": "--features index-positions",
    "prohibit-unsafe": "--features prohibit-unsafe",
    "both": "--features index-positions,prohibit-unsafe",
    "utf16": "--features utf16",
    "pattern": "--features pattern",
    "nostd": "--no-default-features --features nostd",
}
def build_harness(feat="default", profile="release"):
    shutil.copy(os.path.join(REPO, "Cargo.lock"), os.path.join(V, "harness", "Cargo.lock"))
    env = dict(ENV, RUSTFLAGS="--cfg regress_verif")
    cargo = "cargo +nightly" if feat == "pattern" else "cargo"
    rc, out = sh("timeout 900 %s build --%s --offline %s --target-dir %s/target-%s" %
                 (cargo, profile, FEATURE_ARGS[feat], BUILD, feat), 930, cwd=os.path.join(V, "harness"), env=env)
    return rc, out

def build_driver():
    """Extract the models and compile the OCaml driver (cached on the hash of model + driver sources)."""
    d = os.path.join(BUILD, "extract"); os.makedirs(d, exist_ok=True)
    # hash the *compiled* models (so a stale .vo can never be stamped as current) plus the driver sources
    srcs = glob.glob(os.path.join(V, "theories", "Model", "*.vo")) + glob.glob(os.path.join(V, "theories", "Gen", "*.vo")) + \
           glob.glob(os.path.join(V, "theories", "Spec", "*.vo")) + glob.glob(os.path.join(V, "theories", "Ref", "*.vo")) + \
           [os.path.join(V, "theories", "Extract.v"), os.path.join(V, "theories", "Base.vo")] + glob.glob(os.path.join(V, "driver", "*.ml"))
    hsh = file_hash(srcs)
    stamp = os.path.join(d, "stamp")
    if os.path.exists(stamp) and open(stamp).read() == hsh and os.path.exists(os.path.join(d, "driver")):
        return 0, "cached"
    rc, out = sh("coqc -Q ../../theories RV ../../theories/Extract.v", 600, cwd=d)
    if rc != 0: return rc, out
    for f in glob.glob(os.path.join(V, "driver", "*.ml")): shutil.copy(f, d)
    rc, out = sh("ocamlfind ocamlopt -package unix -linkpkg -O2 -w -a model.mli model.ml conv.ml apidrv.ml specdrv.ml cpsdrv.ml srchdrv.ml driver.ml -o driver", 600, cwd=d)
    if rc == 0: open(stamp, "w").write(hsh)
    return rc, out

def parse_kv(line):
    d = {}
    for tok in line.split():
        if "=" in tok:
            k, v = tok.split("=", 1); d[k] = v
    return d

def run_exec_shards(seed, shards, npat, nhay, budget, corpus=None, feat="default", timeout=1500):
    """Run harness|driver pipelines in parallel; returns (summary dict, mismatch lines, propviol lines)."""
    hb, db = harness_bin(feat), os.path.join(BUILD, "extract", "driver")
    cmds = []
    for k in range(shards):
        c = "%s exec %d %d %d %d %s | %s exec %d" % (hb, seed * 1000 + k, npat, nhay, budget, (corpus if (corpus and k == 0) else ""), db, budget)
        cmds.append(c)
    summary, mism, pv, errs = {}, [], [], []
    def one(c):
        # the extracted model recurses as deep as loop counts and haystacks are long: give the driver a large stack
        return sh("set -o pipefail; ulimit -s 1000000; " + c, timeout)
    with concurrent.futures.ThreadPoolExecutor(max_workers=NCPU) as ex:
        for rc, out in ex.map(one, cmds):
            got = False
            for line in out.split("\n"):
                if line.startswith("SUMMARY"):
                    got = True
                    for k, v in parse_kv(line).items(): summary[k] = summary.get(k, 0) + int(v)
                elif line.startswith("MISMATCH"): mism.append(line)
                elif line.startswith("PROPVIOL"): pv.append(line)
            if rc != 0 or not got: errs.append("pipeline rc=%d: %s" % (rc, out[-300:]))
    # a harness process killed by a signal (memory error, abort): re-run that shard alone with announcements so
    # that the input it died on is named
    crashes = []
    for k, c in enumerate(cmds):
        if len(crashes) >= 2: break
        if any(("exec %d " % (seed * 1000 + k)) in e and ("Segmentation fault" in e or "Aborted" in e or "Illegal instruction" in e or "Bus error" in e) for e in errs):
            hc = c.split(" | ")[0]
            rc2, out2 = sh("RV_ANNOUNCE=1 %s 2>&1 >/dev/null | tail -n 1" % hc, timeout)
            t = out2.strip().split()
            if len(t) == 7 and t[0] == "A":
                crashes.append(dict(pattern_hex=t[1], flags=t[2], no_opt=t[3], hay_hex=t[4], start=t[5], engine=t[6], shard_cmd=hc))
    run_exec_shards.crashes = crashes
    return summary, mism, pv, errs
run_exec_shards.crashes = []

def run_stream_shards(sub, drvmode, seed, shards, n, extra="", feat="default", timeout=1500):
    """Generic: `rvharness <sub> <seed> <n> <extra> | driver <drvmode>` in parallel shards."""
    hb, db = harness_bin(feat), os.path.join(BUILD, "extract", "driver")
    cmds = ["set -o pipefail; ulimit -s 1000000; %s %s %d %d %s | timeout 600 %s %s" % (hb, sub, seed * 1000 + k, n, extra, db, drvmode) for k in range(shards)]
    summary, mism, pv, errs = {}, [], [], []
    with concurrent.futures.ThreadPoolExecutor(max_workers=NCPU) as ex:
        for rc, out in ex.map(lambda c: sh(c, timeout), cmds):
            got = False
            for line in out.split("\n"):
                if line.startswith("SUMMARY"):
                    got = True
                    for k, v in parse_kv(line).items(): summary[k] = summary.get(k, 0) + int(v)
                elif line.startswith("MISMATCH"): mism.append(line)
                elif line.startswith("PROPVIOL"): pv.append(line)
            if rc != 0 or not got: errs.append("pipeline rc=%d: %s" % (rc, out[-300:]))
    return summary, mism, pv, errs

def run_cases(lines, budget, feat="default"):
    """Run explicit cases (flags, pattern hex, hay hex, start) through harness|driver."""
    d = os.path.join(BUILD, "tmp"); os.makedirs(d, exist_ok=True)
    f = os.path.join(d, "cases_%d.txt" % os.getpid())
    open(f, "w").write("\n".join("\t".join(l) for l in lines) + "\n")
    rc, out = sh("set -o pipefail; ulimit -s 1000000; %s cases %d %s | %s exec %d" % (harness_bin(feat), budget, f, os.path.join(BUILD, "extract", "driver"), budget), 600)
    os.remove(f)
    mism = [l for l in out.split("\n") if l.startswith("MISMATCH")]
    pv = [l for l in out.split("\n") if l.startswith("PROPVIOL")]
    return rc, mism, pv, out

def decode_pat(hexcps):
    return "" if hexcps in ("-", "") else "".join(chr(int(x, 16)) for x in hexcps.split(","))
def encode_pat(s):
    return "-" if not s else ",".join("%x" % ord(c) for c in s)

def shrink(case, pred, rounds=6):
    """Greedy delta-debugging on pattern and haystack characters.  case = dict(flags, pat(str), hay(bytes), start)."""
    cur = dict(case)
    def attempt(c):
        try: return pred(c)
        except Exception: return False
    for _ in range(rounds):
        changed = False
        # pattern: delete chunks
        p = cur["pat"]
        n = len(p)
        size = max(1, n // 2)
        while size >= 1:
            i = 0
            while i < len(cur["pat"]):
                p = cur["pat"]
                cand = dict(cur, pat=p[:i] + p[i + size:])
                if cand["pat"] != p and attempt(cand): cur = cand; changed = True
                else: i += size
            size //= 2
        # haystack: delete characters (keeping valid UTF-8)
        try: hs = cur["hay"].decode("utf8")
        except Exception: hs = None
        if hs is not None:
            i = 0
            while i < len(hs):
                cand_s = hs[:i] + hs[i + 1:]
                cand = dict(cur, hay=cand_s.encode("utf8"), start=0 if cur["start"] != 0 else 0)
                if cur["start"] == 0 and attempt(cand): cur = cand; hs = cand_s; changed = True
                else: i += 1
        if not changed: break
    return cur

# ---------------------------------------------------------------- findings / replays / evidence
def load_known():
    kf = os.path.join(V, "known_findings.txt")
    out = []
    if os.path.exists(kf):
        for line in open(kf):
            line = line.strip()
            if line.startswith("finding:"):
                d = parse_kv(line)
                m = re.search(r"what=(.*)$", line)
                out.append(dict(property=d.get("property"), key=d.get("key"), what=m.group(1) if m else ""))
    return out

def write_replay(ctx, name, obj):
    d = os.path.join(V, "replays"); os.makedirs(d, exist_ok=True)
    h = hashlib.sha256(json.dumps(obj, sort_keys=True).encode()).hexdigest()[:12]
    path = os.path.join(d, "%s-%s-%s.json" % (ctx.pid, name, h))
    obj = dict(obj, property=ctx.pid, replay_cmd="bin/vcheck %s --replay %s" % (ctx.pid, path))
    # ASCII-only JSON: patterns may contain lone surrogates, which UTF-8 cannot carry
    json.dump(obj, open(path, "w"), indent=1, ensure_ascii=True)
    return path

def report_violation(ctx, path, no_input=False):
    ctx.violations.append((path, no_input))
    print("VIOLATION property=%s replay=%s%s" % (ctx.pid, path, " no-failing-input-found" if no_input else ""), flush=True)

def claimed_category(pid):
    try:
        m = json.load(open(os.path.join(V, "MANIFEST.json")))
        for c in m.get("checks", []):
            if c.get("property_id") == pid: return c["level_claimed"]["category"]
    except Exception:
        pass
    return None

def write_evidence(ctx, level, coverage, assumptions):
    # the evidence level is the level claimed in MANIFEST.json; a property whose theorems cover only part of its
    # statement stays at the claimed (lower) level even when every listed theorem is discharged
    claimed = claimed_category(ctx.pid)
    if claimed and claimed != "proof": level = claimed
    d = os.path.join(V, "evidence"); os.makedirs(d, exist_ok=True)
    ev = dict(property_id=ctx.pid, tier=ctx.tier, seed=ctx.seed, level=level, coverage=coverage,
              assumptions=assumptions, wall_s=round(time.time() - ctx.t0, 2), violations=len(ctx.violations),
              known_findings=ctx.known, log=ctx.log[-40:])
    json.dump(ev, open(os.path.join(d, "%s.json" % ctx.pid), "w"), indent=1, ensure_ascii=True)

TRUSTED_BASE = [
    "Coq 8.16.1 kernel + coqc (vm_compute used for finite-domain obligations; no native_compute)",
    "axioms: none (Print Assumptions of every property theorem must read 'Closed under the global context')",
    "hand-written Gallina models under theories/Model tied to /repo by the correspondence check (differential, not a proof)",
    "translators tools/gen_*.py (fail-closed) for data tables",
    "extraction: ExtrOcamlBasic only (Extract Inductive bool/option/unit/list/prod/sumbool/sumor; Extract Inlined Constant andb/orb), OCaml 4.13 compiler, driver/*.ml",
    "Rust harness under harness/ built with --cfg regress_verif; rustc",
]

def setup():
    t0 = time.time()
    errs = run_translators()
    if errs: print("translator errors:", errs); return 1
    rc, out = coq_build()
    if rc != 0: print(out[-3000:]); return 1
    rc, out = build_driver()
    if rc != 0: print(out[-3000:]); return 1
    rc, out = build_harness("default")
    if rc != 0: print(out[-3000:]); return 1
    print("setup ok in %.1fs" % (time.time() - t0))
    return 0
