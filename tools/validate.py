#!/usr/bin/env python3
"""Validate MANIFEST.json and evidence files against the schemas (uses the tooling venv's jsonschema)."""
import json, jsonschema, glob, sys
jsonschema.validate(json.load(open('/verif/MANIFEST.json')), json.load(open('/root/.vp/MANIFEST.schema.json')))
print('manifest ok')
sch = json.load(open('/root/.vp/EVIDENCE.schema.json'))
for f in sorted(glob.glob('/verif/evidence/*.json')):
    jsonschema.validate(json.load(open(f)), sch); print('ok', f)
